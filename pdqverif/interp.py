"""Abstract interpreter over the AST subset used by probdiffeq.

*Statics are concrete, arrays are abstract.*  Python values that JAX itself
evaluates at trace time (ints, bools, strings, tuples, lists, ``None``,
configuration flags) are computed concretely; everything that would be a traced
array or an opaque object is a hash-consed :class:`terms.Term`.  Instances of
repository classes are field-sensitive records (:class:`Rec`).  Repository
functions are inlined (context-sensitive); ``probdiffeq.backend`` functions are
*primitives* whose result is the term ``prim(args)`` unless the primitive is a
combinator (``flow.*``, ``func.partial``, ``tree.tree_map`` ...), which gets a
structural treatment.

A branch on a concrete static follows one arm.  A branch on an abstract
condition evaluates both arms and joins the results with ``ite``; an arm that
ends in ``raise`` is recorded as a *guard* (condition => exception) and the
surviving arm continues under the negated condition.

No repository code is imported or executed, and no array value is ever
computed.
"""

from __future__ import annotations

import ast
import operator

from . import terms as T
from .model import AnalysisError, ClassInfo, ModuleInfo, Program, loc

MAX_DEPTH = 80
BACKEND = "probdiffeq.backend"


# ----------------------------------------------------------------------------
# value kinds
# ----------------------------------------------------------------------------
class RaiseSignal(Exception):
    """The analysed program definitely raises on this (concrete) path."""

    def __init__(self, exc, site):
        super().__init__(f"{exc} at {site}")
        self.exc = exc
        self.site = site


class ExcV:
    """An exception instance value."""

    def __init__(self, cls_name, args=()):
        self.cls_name = cls_name
        self.args = args

    def __repr__(self):
        return f"{self.cls_name}(...)"


class ModuleV:
    def __init__(self, name):
        self.name = name

    def __repr__(self):
        return f"<module {self.name}>"

    def freeze_key(self):
        return ("module", self.name)


class PrimV:
    """A primitive: a ``probdiffeq.backend`` function or an external symbol."""

    def __init__(self, name):
        self.name = name

    def __repr__(self):
        return f"<prim {self.name}>"

    def freeze_key(self):
        return ("prim", self.name)


class BuiltinV:
    def __init__(self, name):
        self.name = name

    def __repr__(self):
        return f"<builtin {self.name}>"

    def freeze_key(self):
        return ("builtin", self.name)


class ClassV:
    def __init__(self, info: ClassInfo, env=None):
        self.info = info
        self.env = env  # defining environment for nested classes

    def __repr__(self):
        return f"<class {self.info.qualname}>"

    def freeze_key(self):
        return ("class", self.info.qualname)


class Rec:
    """An instance of a repository class: class + field map."""

    def __init__(self, cls: ClassV):
        self.cls = cls
        self.fields: dict = {}

    def __repr__(self):
        inner = ", ".join(f"{k}={T.show(v, 3)}" for k, v in self.fields.items())
        return f"{self.cls.info.name}({inner})"

    def children(self):
        return list(self.fields.values())

    def freeze_key(self):
        return ("rec", self.cls.info.qualname, tuple((k, T._freeze(v)) for k, v in sorted(self.fields.items())))


class Closure:
    def __init__(self, node, env, module: ModuleInfo, qualname: str):
        self.node = node  # FunctionDef | Lambda
        self.env = env
        self.module = module
        self.qualname = qualname
        self.defaults = None  # evaluated lazily in the defining env
        self.owner: ClassV | None = None  # class in whose body the function is defined

    def __repr__(self):
        return f"<function {self.qualname}>"

    def freeze_key(self):
        return ("closure", self.qualname, id(self.env))


class BoundMethod:
    def __init__(self, fn: Closure, self_val):
        self.fn = fn
        self.self_val = self_val

    def __repr__(self):
        return f"<bound {self.fn.qualname}>"

    def freeze_key(self):
        return ("bound", self.fn.qualname, T._freeze(self.self_val))


class PartialV:
    def __init__(self, fn, args, kwargs):
        self.fn = fn
        self.args = tuple(args)
        self.kwargs = dict(kwargs)

    def __repr__(self):
        return f"<partial {self.fn} {T.show(self.args, 2)} {T.show(self.kwargs, 2)}>"

    def children(self):
        return [self.fn, *self.args, *self.kwargs.values()]

    def freeze_key(self):
        return ("partial", T._freeze(self.fn), T._freeze(self.args), T._freeze(self.kwargs))


class HarnessFn:
    """A callable supplied by a rule harness (e.g. a user vector field with a known output structure)."""

    def __init__(self, name, fn):
        self.name = name
        self.fn = fn

    def __repr__(self):
        return f"<harness fn {self.name}>"

    def freeze_key(self):
        return ("harnessfn", self.name)


class PyMethod:
    """A bound method of a concrete Python container (list.append ...)."""

    def __init__(self, obj, name):
        self.obj = obj
        self.name = name


class SuperV:
    def __init__(self, cls: ClassV, self_val):
        self.cls = cls
        self.self_val = self_val


class WrappedFn:
    """``func.vmap(f, ...)`` / ``func.jit(f)`` / ``func.jacfwd(f)``: a transformed callable."""

    def __init__(self, kind, fn, kwargs=None):
        self.kind = kind
        self.fn = fn
        self.kwargs = kwargs or {}

    def __repr__(self):
        return f"<{self.kind} {self.fn}>"

    def children(self):
        return [self.fn]

    def freeze_key(self):
        return ("wrapped", self.kind, T._freeze(self.fn), T._freeze(self.kwargs))


class Env:
    __slots__ = ("vars", "parent", "module")

    def __init__(self, parent, module):
        self.vars = {}
        self.parent = parent
        self.module = module

    def lookup(self, name):
        e = self
        while e is not None:
            if name in e.vars:
                return e.vars[name]
            e = e.parent
        raise KeyError(name)

    def copy(self):
        n = Env(self.parent, self.module)
        n.vars = dict(self.vars)
        return n


_MISSING = object()


class _Return(Exception):
    def __init__(self, value):
        self.value = value


# ----------------------------------------------------------------------------
# structured join
# ----------------------------------------------------------------------------
def ite(cond, a, b, origin=None):
    """Join two abstract values under a condition (field-wise for structures)."""
    if a is b:
        return a
    if isinstance(a, T.Term) and isinstance(b, T.Term):
        return T.mk("ite", (cond, a, b), origin=origin)
    if isinstance(a, Rec) and isinstance(b, Rec) and a.cls.info is b.cls.info and a.fields.keys() == b.fields.keys():
        r = Rec(a.cls)
        for k in a.fields:
            r.fields[k] = ite(cond, a.fields[k], b.fields[k], origin)
        return r
    if isinstance(a, (tuple, list)) and type(a) is type(b) and len(a) == len(b):
        return type(a)(ite(cond, x, y, origin) for x, y in zip(a, b))
    if isinstance(a, dict) and isinstance(b, dict) and a.keys() == b.keys():
        return {k: ite(cond, a[k], b[k], origin) for k in a}
    if _is_static(a) and _is_static(b) and type(a) is type(b) and a == b:
        return a
    return T.mk("ite", (cond, a, b), origin=origin)


def switch_join(idx, vals, origin=None):
    first = vals[0]
    if all(v is first for v in vals):
        return first
    if all(isinstance(v, Rec) for v in vals) and all(v.cls.info is first.cls.info and v.fields.keys() == first.fields.keys() for v in vals):
        r = Rec(first.cls)
        for k in first.fields:
            r.fields[k] = switch_join(idx, [v.fields[k] for v in vals], origin)
        return r
    if all(isinstance(v, (tuple, list)) and type(v) is type(first) and len(v) == len(first) for v in vals):
        return type(first)(switch_join(idx, [v[i] for v in vals], origin) for i in range(len(first)))
    if all(isinstance(v, dict) and v.keys() == first.keys() for v in vals):
        return {k: switch_join(idx, [v[k] for v in vals], origin) for k in first}
    if all(_is_static(v) and type(v) is type(first) and v == first for v in vals):
        return first
    return T.mk("switch", (idx, *vals), origin=origin)


def _is_static(v):
    return v is None or isinstance(v, (bool, int, float, str))


def is_abstract(v):
    return isinstance(v, T.Term)


# ----------------------------------------------------------------------------
# the interpreter
# ----------------------------------------------------------------------------
INLINED: set = set()  # qualified names of the repository functions interpreted in this process (evidence: what was analysed)


class Interp:
    def __init__(self, program: Program):
        self.p = program
        self.depth = 0
        self.global_cache: dict = {}
        self.guards: list = []  # dicts: cond, exc, site, fn  (raise-guards met on abstract conditions)
        self.asserts: list = []
        self.events: list = []  # combinator events (scan / while / cond / switch / vmap ...)
        self.calls_resolved = 0
        self.calls_primitive = 0
        self.calls_opaque = 0
        self.prim_used: set = set()
        self.prim_referenced: set = set()
        self.prim_usage: dict = {}
        self.unravel_applied: list = []
        self.hooks: dict = {}  # primitive name -> override callable(interp, args, kwargs, site)
        self.method_hooks: dict = {}  # (class qualname, method) -> override
        self.call_stack: list = []
        self.fresh = 0
        self.trace_calls: list | None = None  # when a list: every resolved repo call is appended
        self.path_conds: list = []  # stack of (cond, polarity) for the abstract branches being explored
        self.cur_guards: list = []  # raise-guards passed on every path that reaches the current point
        self.ndim_oracle = None  # optional: rank of an abstract array from a shape domain (domain A)

    # -------------------------------------------------------------- utilities
    def site(self, module, node):
        return loc(module, node)

    def new_atom(self, prefix):
        self.fresh += 1
        return T.atom(f"{prefix}#{self.fresh}")

    def class_value(self, qual: str) -> ClassV:
        return ClassV(self.p.find_class(qual))

    def function_value(self, qual: str):
        mod, _, name = qual.rpartition(".")
        if mod in self.p.modules:
            return self.resolve_global(self.p.modules[mod], name)
        # Class.method
        mod2, _, cls = mod.rpartition(".")
        cv = self.resolve_global(self.p.module(mod2), cls)
        return self.getattr(cv, name, None)

    # ------------------------------------------------------- global namespace
    def resolve_global(self, m: ModuleInfo, name: str, _seen=None):
        key = (m.name, name)
        if key in self.global_cache:
            return self.global_cache[key]
        val = self._resolve_global(m, name, _seen or set())
        self.global_cache[key] = val
        return val

    def _resolve_global(self, m: ModuleInfo, name, seen):
        if (m.name, name) in seen:
            raise AnalysisError(f"cyclic import resolving {m.name}.{name}")
        seen = seen | {(m.name, name)}
        if name in m.functions:
            fn = self.make_closure(m.functions[name], Env(None, m), m, f"{m.name}.{name}")
            return self.apply_decorators(m.functions[name], fn, Env(None, m), m)
        if name in m.classes:
            return ClassV(m.classes[name])
        if name in m.imports:
            imp = m.imports[name]
            if imp[0] == "module":
                return self.module_value(imp[1])
            modname, attr = imp[1], imp[2]
            full = f"{modname}.{attr}"
            if modname == BACKEND or (full in self.p.modules and not modname.startswith(BACKEND + ".")):
                return self.module_value(full)
            if modname.startswith(BACKEND + "."):
                return self.module_attr(self.module_value(modname), attr)
            if modname in self.p.modules and not modname.startswith(BACKEND):
                return self.resolve_global(self.p.modules[modname], attr, seen)
            return self.module_attr(self.module_value(modname), attr)
        if name in m.assigns:
            env = Env(None, m)
            try:
                return self.eval(m.assigns[name], env)
            except (AnalysisError, RaiseSignal, KeyError):
                return T.mk("global", (f"{m.name}.{name}",))
        for sm in m.star_imports:
            if sm in self.p.modules:
                sub = self.p.modules[sm]
                if sub.all is None or name in sub.all:
                    try:
                        return self.resolve_global(sub, name, seen)
                    except KeyError:
                        continue
        raise KeyError(name)

    def module_value(self, name: str):
        return ModuleV(name)

    def module_attr(self, mv: ModuleV, attr: str):
        name = mv.name
        if name.startswith(BACKEND):
            short = name[len(BACKEND) + 1 :] or "backend"
            if name == BACKEND:
                return ModuleV(f"{BACKEND}.{attr}")
            self.prim_referenced.add(f"{short}.{attr}")  # called, or handed on as a value (a default solve, a callback)
            return PrimV(f"{short}.{attr}")
        if name in self.p.modules:
            m = self.p.modules[name]
            try:
                return self.resolve_global(m, attr)
            except KeyError:
                sub = f"{name}.{attr}"
                if sub in self.p.modules:
                    return ModuleV(sub)
                raise AnalysisError(f"{name} has no attribute {attr}") from None
        sub = f"{name}.{attr}"
        if sub in self.p.modules:
            return ModuleV(sub)
        return PrimV(f"ext:{name}.{attr}")

    # --------------------------------------------------------------- closures
    def make_closure(self, node, env, module, qualname):
        return Closure(node, env, module, qualname)

    def apply_decorators(self, node, fn, env, module):
        val = fn
        for d in reversed(node.decorator_list):
            ds = ast.unparse(d)
            if ds in ("staticmethod", "classmethod", "property", "abc.abstractmethod"):
                continue
            dec = self.eval(d, env)
            val = self.call(dec, [val], {}, self.site(module, d))
        return val

    def closure_defaults(self, fn: Closure):
        if fn.defaults is None:
            a = fn.node.args
            pos = [self.eval(d, fn.env) for d in a.defaults]
            kw = [None if d is None else self.eval(d, fn.env) for d in a.kw_defaults]
            fn.defaults = (pos, kw)
        return fn.defaults

    def bind(self, fn: Closure, args, kwargs, site):
        a = fn.node.args
        params = [p.arg for p in a.posonlyargs] + [p.arg for p in a.args]
        npos_only = len(a.posonlyargs)
        pos_defaults, kw_defaults = self.closure_defaults(fn)
        bound = {}
        args = list(args)
        kwargs = dict(kwargs)
        if len(args) > len(params) and a.vararg is None:
            raise AnalysisError(f"too many positional arguments for {fn.qualname} at {site}")
        for i, p in enumerate(params):
            if i < len(args):
                bound[p] = args[i]
            elif p in kwargs and i >= npos_only:
                bound[p] = kwargs.pop(p)
            else:
                j = i - (len(params) - len(pos_defaults))
                if j >= 0:
                    bound[p] = pos_defaults[j]
                else:
                    raise AnalysisError(f"missing argument {p!r} for {fn.qualname} at {site}")
        if a.vararg is not None:
            bound[a.vararg.arg] = tuple(args[len(params) :])
        for p, d in zip(a.kwonlyargs, kw_defaults):
            if p.arg in kwargs:
                bound[p.arg] = kwargs.pop(p.arg)
            elif d is not None or (p.arg not in kwargs and self._kw_has_default(a, p)):
                bound[p.arg] = d
            else:
                raise AnalysisError(f"missing keyword argument {p.arg!r} for {fn.qualname} at {site}")
        if a.kwarg is not None:
            bound[a.kwarg.arg] = kwargs
        elif kwargs:
            raise AnalysisError(f"unexpected keyword arguments {sorted(kwargs)} for {fn.qualname} at {site}")
        return bound

    @staticmethod
    def _kw_has_default(a, p):
        idx = a.kwonlyargs.index(p)
        return a.kw_defaults[idx] is not None

    # ------------------------------------------------------------------ calls
    def call(self, f, args, kwargs, site):
        if isinstance(f, BoundMethod):
            return self.call(f.fn, [f.self_val, *args], kwargs, site)
        if isinstance(f, Closure):
            return self.call_closure(f, args, kwargs, site)
        if isinstance(f, PartialV):
            return self.call(f.fn, [*f.args, *args], {**f.kwargs, **kwargs}, site)
        if isinstance(f, ClassV):
            return self.instantiate(f, args, kwargs, site)
        if isinstance(f, PrimV):
            return self.call_prim(f, args, kwargs, site)
        if isinstance(f, BuiltinV):
            return self.call_builtin(f, args, kwargs, site)
        if isinstance(f, PyMethod):
            return self.call_pymethod(f, args, kwargs, site)
        if isinstance(f, WrappedFn):
            return self.call_wrapped(f, args, kwargs, site)
        if isinstance(f, T.Term):
            self.calls_opaque += 1
            return self.call_term(f, args, kwargs, site)
        if isinstance(f, HarnessFn):
            return f.fn(self, args, kwargs, site)
        raise AnalysisError(f"cannot call value {f!r} at {site}")

    def call_term(self, f, args, kwargs, site):
        # method-call sugar on abstract arrays: x.reshape(s) == np.reshape(x, s) etc.
        if f.op == "attr":
            recv, name = f.args
            if name == "reshape" and len(args) == 1 and not kwargs:
                return T.mk("np.reshape", (recv, args[0]), origin=site)
            if name == "mean":
                return T.mk("np.mean", (recv, *args), kwargs, origin=site)
            if name == "set" and isinstance(recv, T.Term) and recv.op == "getitem" and isinstance(recv.args[0], T.Term) and recv.args[0].op == "attr" and recv.args[0].args[1] == "at":
                return T.mk("at_set", (recv.args[0].args[0], recv.args[1], *args), kwargs, origin=site)
            return T.mk("mcall", (recv, name, *args), kwargs, origin=site)
        if f.op == "unravel_of" and len(args) == 1 and isinstance(args[0], T.Term) and args[0].op == "tree.ravel" and (args[0].args[0] is f.args[0] or T._freeze(args[0].args[0]) == T._freeze(f.args[0])):
            return args[0].args[0]  # unravel(ravel(x)) == x (a recorded dtype cast of the example does not change structure, shapes or values)
        if f.op == "unravel_of" and len(args) == 1:
            self.unravel_applied.append((f, args[0], site))  # census: a layout closure applied to a value that is not its own example
        if f.op == "unravel_of" and len(args) == 1 and not kwargs and isinstance(f.args[0], (list, tuple)) and f.args[0] and all(isinstance(x, T.Term) for x in f.args[0]):
            # un-ravelling into a flat list/tuple of leaves gives a container of the same length (entry i is opaque)
            whole = T.mk("call", (f, *args), kwargs, origin=site)
            items = [T.mk("getitem", (whole, i), origin=site, meta={"array": True}) for i in range(len(f.args[0]))]
            return items if isinstance(f.args[0], list) else tuple(items)
        return T.mk("call", (f, *args), kwargs, origin=site)

    def call_closure(self, fn: Closure, args, kwargs, site):
        hook = self.method_hooks.get(fn.qualname)
        if hook is not None:
            r = hook(self, fn, args, kwargs, site)
            if r is not _MISSING:
                return r
        if self.depth >= MAX_DEPTH:
            raise AnalysisError(f"inlining depth bound {MAX_DEPTH} exceeded at {site} ({' > '.join(self.call_stack[-6:])})")
        bound = self.bind(fn, args, kwargs, site)
        env = Env(fn.env, fn.module)
        env.vars.update(bound)
        if fn.owner is not None:
            env.vars["__class__"] = fn.owner
        self.calls_resolved += 1
        INLINED.add(fn.qualname)
        if self.trace_calls is not None:
            self.trace_calls.append((fn.qualname, site))
        self.depth += 1
        self.call_stack.append(fn.qualname)
        try:
            if isinstance(fn.node, ast.Lambda):
                return self.eval(fn.node.body, env)
            return self.run_body(fn.node.body, env)
        finally:
            self.depth -= 1
            self.call_stack.pop()

    def run_body(self, stmts, env):
        done, val = self.exec_block(stmts, 0, env)
        return val if done else None

    def instantiate(self, cv: ClassV, args, kwargs, site):
        info = cv.info
        rec = Rec(cv)
        owner, init = self.find_method_node(cv, "__init__")
        if init is not None:
            fn = self.method_closure(owner, init)
            self.call(fn, [rec, *args], kwargs, site)
            return rec
        fields = self.dataclass_fields(cv)
        if fields:
            names = [f[0] for f in fields]
            kwargs = dict(kwargs)
            if len(args) > len(names):
                raise AnalysisError(f"too many arguments for dataclass {info.qualname} at {site}")
            for (name, default, _static, owner_cv), a in zip(fields, args):
                rec.fields[name] = a
            for name, default, _static, owner_cv in fields[len(args) :]:
                if name in kwargs:
                    rec.fields[name] = kwargs.pop(name)
                elif default is not None:
                    rec.fields[name] = self.eval(default, Env(owner_cv.env, owner_cv.info.module))
                else:
                    raise AnalysisError(f"missing field {name!r} constructing {info.qualname} at {site}")
            if kwargs:
                raise AnalysisError(f"unexpected fields {sorted(kwargs)} constructing {info.qualname} at {site}")
            return rec
        if args or kwargs:
            raise AnalysisError(f"class {info.qualname} takes no constructor arguments ({site})")
        return rec

    def dataclass_fields(self, cv: ClassV):
        out = []
        for k in reversed(self.mro(cv)):
            if k.info.is_dataclass:
                for name, default, static in k.info.fields:
                    out = [f for f in out if f[0] != name]
                    out.append((name, default, static, k))
        return out

    # ------------------------------------------------------- class machinery
    def mro(self, cv: ClassV):
        out, seen = [], set()

        def go(k: ClassV):
            if k.info.qualname in seen:
                return
            seen.add(k.info.qualname)
            out.append(k)
            for b in k.info.node.bases:
                while isinstance(b, ast.Subscript):
                    b = b.value
                try:
                    bv = self.eval(b, Env(k.env, k.info.module))
                except (KeyError, AnalysisError):
                    continue
                if isinstance(bv, ClassV):
                    go(bv)

        go(cv)
        return out

    def find_method_node(self, cv: ClassV, name):
        for k in self.mro(cv):
            if name in k.info.methods:
                return k, k.info.methods[name]
        return None, None

    def method_closure(self, owner: ClassV, node):
        key = ("method", owner.info.qualname, node.name, id(owner.env))
        fn = self.global_cache.get(key)
        if fn is None:
            fn = Closure(node, Env(owner.env, owner.info.module), owner.info.module, f"{owner.info.qualname}.{node.name}")
            fn.owner = owner
            self.global_cache[key] = fn
        return fn

    def is_subclass(self, cv: ClassV, other: ClassV) -> bool:
        return any(k.info is other.info for k in self.mro(cv))

    # ------------------------------------------------------------- attributes
    def getattr(self, obj, name, site):
        if isinstance(obj, Rec):
            if name in obj.fields:
                return obj.fields[name]
            if name == "__class__":
                return obj.cls
            return self.class_attr(obj.cls, name, obj, site)
        if isinstance(obj, ClassV):
            if name == "__name__":
                return obj.info.name
            return self.class_attr(obj, name, None, site)
        if isinstance(obj, ModuleV):
            return self.module_attr(obj, name)
        if isinstance(obj, SuperV):
            mro = self.mro(obj.self_val.cls if isinstance(obj.self_val, Rec) else obj.self_val)
            idx = next(i for i, k in enumerate(mro) if k.info is obj.cls.info)
            for k in mro[idx + 1 :]:
                if name in k.info.methods:
                    return BoundMethod(self.method_closure(k, k.info.methods[name]), obj.self_val)
            if name == "__init__":
                return BuiltinV("noop")
            raise AnalysisError(f"super() has no attribute {name} at {site}")
        if isinstance(obj, T.Term):
            if name == "T" and obj.op == "attr" and obj.args[1] == "T":
                return obj.args[0]  # (x.T).T == x
            if name == "ndim":
                r = infer_ndim(obj)
                if r is None and self.ndim_oracle is not None:
                    r = self.ndim_oracle(obj)
                if r is not None:
                    return r
            static = obj.meta.get("static_attrs") if isinstance(obj.meta, dict) else None
            if static and name in static:
                return static[name]  # a harness may fix configuration flags of an otherwise opaque object
            return T.mk("attr", (obj, name), origin=site)
        if isinstance(obj, (list, dict, tuple, str)):
            if name in ("append", "extend", "items", "keys", "values", "index", "copy", "get", "join", "format", "startswith", "endswith", "count", "insert", "pop"):
                return PyMethod(obj, name)
            raise AnalysisError(f"attribute {name} of concrete {type(obj).__name__} at {site}")
        if isinstance(obj, (int, float)):
            if name == "shape":
                return ()
            if name == "ndim":
                return 0
            if name == "size":
                return 1
            if name == "dtype":
                return T.mk("dtype_of", (obj,))
        if isinstance(obj, (Closure, BoundMethod, PartialV, WrappedFn)):
            if name == "__name__":
                return getattr(obj, "qualname", "fn")
            if name in ("defjvp", "defvjp"):
                return BuiltinV("identity")
        if isinstance(obj, PrimV):
            return PrimV(f"{obj.name}.{name}")
        if isinstance(obj, ExcV):
            return T.mk("attr", (T.mk("exc", (obj.cls_name,)), name))
        raise AnalysisError(f"cannot take attribute {name!r} of {obj!r} at {site}")

    def class_attr(self, cv: ClassV, name, instance, site):
        owner, node = self.find_method_node(cv, name)
        if node is not None:
            kind = owner.info.method_kind[name]
            fn = self.method_closure(owner, node)
            if kind == "staticmethod":
                return fn
            if kind == "classmethod":
                return BoundMethod(fn, instance.cls if instance is not None else cv)
            if kind == "property":
                if instance is None:
                    return fn
                return self.call(fn, [instance], {}, site)
            if instance is None:
                return fn
            return BoundMethod(fn, instance)
        for k in self.mro(cv):
            if name in k.info.class_assigns:
                return self.eval(k.info.class_assigns[name], Env(k.env, k.info.module))
            for fname, default, _s in k.info.fields:
                if fname == name and default is not None:
                    return self.eval(default, Env(k.env, k.info.module))
        if instance is not None:
            raise AnalysisError(f"{cv.info.qualname} instance has no attribute {name!r} at {site} (fields: {sorted(instance.fields)})")
        raise AnalysisError(f"class {cv.info.qualname} has no attribute {name!r} at {site}")

    # --------------------------------------------------------------- builtins
    BUILTINS = {
        "len", "range", "enumerate", "zip", "isinstance", "list", "tuple", "sum", "max", "min", "abs", "str", "type",
        "getattr", "hasattr", "super", "dict", "float", "int", "bool", "sorted", "any", "all", "reversed", "map", "repr",
        "print", "set", "issubclass", "callable", "round", "iter", "next", "slice", "id", "divmod", "object",
    }
    EXC_NAMES = {
        "ValueError", "TypeError", "NotImplementedError", "Exception", "AssertionError", "KeyError", "IndexError",
        "RuntimeError", "AttributeError",
    }

    def call_builtin(self, f, args, kwargs, site):
        n = f.name
        if n == "noop":
            return None
        if n == "identity":
            return args[0]
        if n == "len":
            (x,) = args
            if isinstance(x, (list, tuple, dict, str, range)):
                return len(x)
            if isinstance(x, T.Term):
                if isinstance(x.meta.get("length"), int):
                    return x.meta["length"]
                return T.mk("len", (x,), origin=site)
            raise AnalysisError(f"len() of {x!r} at {site}")
        if n == "range":
            if all(isinstance(a, int) for a in args):
                return list(range(*args))
            if all(_is_static(a) for a in args):
                raise RaiseSignal(ExcV("TypeError"), site)
            raise AnalysisError(f"range() over abstract bound {T.show(args)} at {site}")
        if n == "enumerate":
            return [(i, v) for i, v in enumerate(self.iterate(args[0], site), *(args[1:]))]
        if n == "zip":
            return [tuple(t) for t in zip(*[self.iterate(a, site) for a in args])]
        if n in ("list", "tuple"):
            if not args:
                return [] if n == "list" else ()
            if isinstance(args[0], T.Term) and not isinstance(args[0].meta.get("length"), int):
                # same representation as the display [*x]: a static container holding one starred abstract sequence
                star = T.mk("star", (args[0],), origin=site)
                return [star] if n == "list" else (star,)
            items = self.iterate(args[0], site)
            return list(items) if n == "list" else tuple(items)
        if n == "dict":
            d = dict(args[0]) if args else {}
            d.update(kwargs)
            return d
        if n == "isinstance":
            return self.isinstance(args[0], args[1], site)
        if n == "issubclass":
            a, b = args
            if isinstance(a, ClassV) and isinstance(b, ClassV):
                return self.is_subclass(a, b)
            return T.mk("issubclass", (a, b), origin=site)
        if n == "sum":
            items = self.iterate(args[0], site)
            acc = args[1] if len(args) > 1 else 0
            for it in items:
                acc = self.binop("add", acc, it, site)
            return acc
        if n in ("max", "min"):
            if len(args) == 1 and isinstance(args[0], T.Term) and not isinstance(args[0].meta.get("length"), int):
                return T.mk(f"py.{n}", (args[0],), origin=site)  # extremum of an abstract sequence (a shape of unknown rank): an opaque value
            items = self.iterate(args[0], site) if len(args) == 1 else list(args)
            if all(_is_static(i) for i in items):
                return (max if n == "max" else min)(items)
            return T.mk(f"py.{n}", tuple(items), origin=site)
        if n == "abs":
            (x,) = args
            if _is_static(x):
                return abs(x)
            return T.mk("np.abs", (x,), origin=site)
        if n in ("str", "repr"):
            return "<str>"
        if n == "print":
            return None
        if n == "type":
            (x,) = args
            if isinstance(x, Rec):
                return x.cls
            return T.mk("type", (x,), origin=site)
        if n == "getattr":
            try:
                return self.getattr(args[0], args[1], site)
            except AnalysisError:
                if len(args) > 2:
                    return args[2]
                raise
        if n == "hasattr":
            o, a = args
            if isinstance(o, Rec):
                if a in o.fields:
                    return True
                _, node = self.find_method_node(o.cls, a)
                return node is not None
            return T.mk("hasattr", (o, a), origin=site)
        if n in ("float", "int", "bool"):
            (x,) = args
            if _is_static(x):
                return {"float": float, "int": int, "bool": bool}[n](x)
            return T.mk(f"py.{n}", (x,), origin=site)
        if n == "sorted":
            return sorted(self.iterate(args[0], site))
        if n in ("any", "all"):
            items = self.iterate(args[0], site)
            if all(_is_static(i) for i in items):
                return (any if n == "any" else all)(items)
            return T.mk(f"py.{n}", tuple(items), origin=site)
        if n == "reversed":
            return list(reversed(self.iterate(args[0], site)))
        if n == "map":
            fn, *its = args
            return [self.call(fn, list(a), {}, site) for a in zip(*[self.iterate(i, site) for i in its])]
        if n == "set":
            return list(dict.fromkeys(self.iterate(args[0], site))) if args else []
        if n == "callable":
            return isinstance(args[0], (Closure, BoundMethod, PartialV, PrimV, ClassV, WrappedFn, BuiltinV))
        if n == "round":
            return round(*args)
        if n == "slice":
            return slice(*args)
        if n == "object":
            return T.mk("object", ())
        if n in self.EXC_NAMES:
            return ExcV(n, tuple(args))
        raise AnalysisError(f"builtin {n} not modelled at {site}")

    def call_pymethod(self, f: PyMethod, args, kwargs, site):
        obj, n = f.obj, f.name
        if n in ("join", "format", "startswith", "endswith"):
            return "<str>" if n in ("join", "format") else False
        if isinstance(obj, dict) and n == "items":
            return list(obj.items())
        if isinstance(obj, dict) and n == "keys":
            return list(obj.keys())
        if isinstance(obj, dict) and n == "values":
            return list(obj.values())
        if n == "extend" and isinstance(obj, list):
            obj.extend(self.iterate(args[0], site))
            return None
        return getattr(obj, n)(*args, **kwargs)

    def isinstance(self, x, klass, site):
        if isinstance(klass, (tuple, list)):
            rs = [self.isinstance(x, k, site) for k in klass]
            if any(r is True for r in rs):
                return True
            if all(r is False for r in rs):
                return False
            return T.mk("py.any", tuple(rs), origin=site)
        if isinstance(klass, BuiltinV):
            py = {"bool": bool, "int": int, "float": float, "str": str, "list": list, "tuple": tuple, "dict": dict}.get(klass.name)
            if py is not None:
                if isinstance(x, (T.Term, Rec)):
                    if isinstance(x, Rec):
                        return False
                    if klass.name in (x.meta.get("not_types") or ()):
                        return False
                    return T.mk("isinstance", (x, klass.name), origin=site)
                if py is int and isinstance(x, bool):
                    return True
                return isinstance(x, py)
        if isinstance(klass, ClassV):
            if isinstance(x, Rec):
                return self.is_subclass(x.cls, klass)
            if isinstance(x, T.Term):
                decl = x.meta.get("cls")
                if decl is not None:
                    return self.is_subclass(decl, klass)
                return T.mk("isinstance", (x, klass.info.qualname), origin=site)
            return False
        if isinstance(klass, PrimV):
            if isinstance(x, Rec):
                return False
            if isinstance(x, T.Term):
                if klass.name == "typing.Array" and x.meta.get("array") is True:
                    return True
                if klass.name == "typing.Array" and x.meta.get("array") is False:
                    return False
                return T.mk("isinstance", (x, klass.name), origin=site)
            if klass.name == "typing.Array":
                return False
            return T.mk("isinstance", (x, klass.name), origin=site)
        return T.mk("isinstance", (x, klass), origin=site)

    def iterate(self, x, site):
        if isinstance(x, (list, tuple)):
            return list(x)
        if isinstance(x, range):
            return list(x)
        if isinstance(x, dict):
            return list(x.keys())
        if isinstance(x, T.Term):
            n = x.meta.get("length")
            if isinstance(n, int):
                return [self.getitem(x, i, site) for i in range(n)]
            raise AnalysisError(f"iteration over abstract value {T.show(x, 3)} at {site}")
        raise AnalysisError(f"cannot iterate over {x!r} at {site}")

    # ------------------------------------------------------------- primitives
    def call_prim(self, f: PrimV, args, kwargs, site):
        name = f.name
        self.prim_used.add(name)
        self.prim_usage.setdefault(name, set()).add((len(args), frozenset(kwargs)))  # how the primitive is called: (positional arguments, keywords) per call shape
        hook = self.hooks.get(name)
        if hook is not None:
            r = hook(self, args, kwargs, site)
            if r is not _MISSING:
                return r
        h = _PRIMS.get(name)
        if h is not None:
            r = h(self, args, kwargs, site)
            if r is not _MISSING:
                return r
        self.calls_primitive += 1
        if name.startswith("typing."):
            return T.mk(name, tuple(args), kwargs)
        return T.mk(name, tuple(args), kwargs, origin=site)

    def call_wrapped(self, w: WrappedFn, args, kwargs, site):
        if w.kind == "jit":
            return self.call(w.fn, args, kwargs, site)
        if w.kind == "vmap":
            ev = {"kind": "vmap", "site": site, "fn": w.fn, "args": args, "kwargs": kwargs, "opts": w.kwargs}
            self.events.append(ev)
            hook = self.hooks.get("vmap.apply")
            if hook is not None:
                r = hook(self, w, args, kwargs, site)
                if r is not _MISSING:
                    return r
            return T.mk("vmap_apply", (w, *args), kwargs, origin=site)
        return T.mk(f"{w.kind}_apply", (w, *args), kwargs, origin=site)

    # ------------------------------------------------------------- statements
    def exec_block(self, stmts, i, env):
        """Execute ``stmts[i:]``.  Returns (returned?, value)."""
        n = len(stmts)
        while i < n:
            st = stmts[i]
            if isinstance(st, ast.If):
                test = self.eval(st.test, env)
                if not isinstance(test, T.Term):
                    branch = st.body if test else st.orelse
                    done, val = self.exec_block(branch, 0, env)
                    if done:
                        return True, val
                    i += 1
                    continue
                done, val = self.exec_abstract_if(st, test, stmts, i, env)
                if done == "fallthrough":
                    return False, None
                return done, val
            done, val = self.exec_stmt(st, env)
            if done:
                return True, val
            i += 1
        return False, None

    def exec_abstract_if(self, st, test, stmts, i, env):
        """Both arms of a branch on an abstract condition.

        Each arm is run together with the rest of the enclosing block, so a
        ``return`` / ``raise`` inside an arm is handled path-sensitively.  The
        set of raise-guards passed so far (``cur_guards``) is tracked per path
        and intersected at the join: after the join it holds the guards that
        *every* surviving path went through (must-pass-through).
        """
        site = self.site(env.module, st)
        results = []
        guards_before = list(self.cur_guards)
        for polarity, branch in ((True, st.body), (False, st.orelse)):
            e2 = self._fork_env(env)
            self.cur_guards = list(guards_before)
            self.path_conds.append((test, polarity))
            try:
                done, val = self.exec_block(branch, 0, e2)
                if not done:
                    done, val = self.exec_block(stmts, i + 1, e2)
                results.append((polarity, "ok", done, val, e2, list(self.cur_guards)))
            except RaiseSignal as r:
                results.append((polarity, "raise", r, None, e2, None))
            finally:
                self.path_conds.pop()
        oks = [r for r in results if r[1] == "ok"]
        new_guards = []
        for r in results:
            if r[1] == "raise":
                g = {
                    "cond": test,
                    "polarity": r[0],
                    "exc": r[2].exc.cls_name if isinstance(r[2].exc, ExcV) else str(r[2].exc),
                    "site": site,
                    "raise_site": r[2].site,
                    "fn": self.call_stack[-1] if self.call_stack else "<top>",
                    "path": list(self.path_conds),
                }
                self.guards.append(g)
                new_guards.append(g)
        if not oks:
            self.cur_guards = guards_before
            raise results[0][2]
        if len(oks) == 1:
            _, _, done, val, e2, gs = oks[0]
            self._merge_env_into(env, e2)
            self.cur_guards = gs + new_guards
            return done, val
        (_, _, d1, v1, e1, g1), (_, _, d2, v2, e2, g2) = oks
        if d1 != d2:
            raise AnalysisError(f"abstract branch at {site}: one arm returns, the other falls off a nested block")
        ids2 = {id(g) for g in g2}
        self.cur_guards = [g for g in g1 if id(g) in ids2]
        # both arms ran the rest of the block: join variables and the return value
        for k in set(e1.vars) | set(e2.vars):
            a, b = e1.vars.get(k, _MISSING), e2.vars.get(k, _MISSING)
            if a is _MISSING or b is _MISSING:
                env.vars.pop(k, None)
                continue
            env.vars[k] = ite(test, a, b, site)
        if d1:
            return True, ite(test, v1, v2, site)
        # neither arm returned: the enclosing block is finished (its rest ran inside the arms)
        return "fallthrough", None

    def _fork_env(self, env):
        e2 = env.copy()
        # lists / dicts that are mutated in place must not be shared between arms
        for k, v in list(e2.vars.items()):
            if isinstance(v, list):
                e2.vars[k] = list(v)
            elif isinstance(v, dict):
                e2.vars[k] = dict(v)
        return e2

    @staticmethod
    def _merge_env_into(env, e2):
        env.vars.clear()
        env.vars.update(e2.vars)

    def exec_stmt(self, st, env):
        m = env.module
        if isinstance(st, ast.Return):
            return True, (None if st.value is None else self.eval(st.value, env))
        if isinstance(st, ast.Assign):
            val = self.eval(st.value, env)
            for t in st.targets:
                self.assign(t, val, env)
            return False, None
        if isinstance(st, ast.AnnAssign):
            if st.value is not None:
                self.assign(st.target, self.eval(st.value, env), env)
            return False, None
        if isinstance(st, ast.AugAssign):
            cur = self.eval(_as_load(st.target), env)
            val = self.eval(st.value, env)
            self.assign(st.target, self.binop(_BINOPS[type(st.op)], cur, val, self.site(m, st)), env)
            return False, None
        if isinstance(st, ast.Expr):
            if not isinstance(st.value, ast.Constant):
                self.eval(st.value, env)
            return False, None
        if isinstance(st, ast.FunctionDef):
            qual = f"{self.call_stack[-1] if self.call_stack else m.name}.{st.name}"
            fn = self.make_closure(st, env, m, qual)
            env.vars[st.name] = self.apply_decorators(st, fn, env, m)
            return False, None
        if isinstance(st, ast.ClassDef):
            outer = self.call_stack[-1] if self.call_stack else m.name
            env.vars[st.name] = ClassV(ClassInfo(m, st, outer=outer), env)
            return False, None
        if isinstance(st, ast.For):
            items = self.iterate(self.eval(st.iter, env), self.site(m, st))
            for it in items:
                self.assign(st.target, it, env)
                done, val = self.exec_block(st.body, 0, env)
                if done:
                    return True, val
            return False, None
        if isinstance(st, ast.Raise):
            exc = self.eval(st.exc, env) if st.exc is not None else ExcV("Exception")
            if isinstance(exc, BuiltinV) and exc.name in self.EXC_NAMES:
                exc = ExcV(exc.name)
            raise RaiseSignal(exc, self.site(m, st))
        if isinstance(st, ast.Assert):
            test = self.eval(st.test, env)
            if isinstance(test, T.Term):
                self.asserts.append({"cond": test, "site": self.site(m, st)})
            elif not test:
                raise RaiseSignal(ExcV("AssertionError"), self.site(m, st))
            return False, None
        if isinstance(st, ast.Delete):
            for t in st.targets:
                if isinstance(t, ast.Name):
                    env.vars.pop(t.id, None)
            return False, None
        if isinstance(st, ast.Pass):
            return False, None
        if isinstance(st, ast.Try):
            # Handlers that end in ``raise`` are raise-guards: "the try body fails => exception".
            for h in st.handlers:
                e2 = self._fork_env(env)
                if h.name:
                    e2.vars[h.name] = ExcV("Exception")
                try:
                    saved = list(self.cur_guards)
                    self.exec_block(h.body, 0, e2)
                    self.cur_guards = saved
                except RaiseSignal as r:
                    self.cur_guards = saved
                    vals = []
                    for n in ast.walk(ast.Module(body=st.body, type_ignores=[])):
                        if isinstance(n, ast.Name) and isinstance(n.ctx, ast.Load):
                            try:
                                vals.append(env.lookup(n.id))
                            except KeyError:
                                pass
                    g = {
                        "cond": T.mk("try_fails", tuple(v for v in vals if isinstance(v, (T.Term, list, tuple, dict)))),
                        "polarity": True,
                        "exc": r.exc.cls_name if isinstance(r.exc, ExcV) else str(r.exc),
                        "site": self.site(m, st),
                        "raise_site": r.site,
                        "fn": self.call_stack[-1] if self.call_stack else "<top>",
                        "path": list(self.path_conds),
                    }
                    self.guards.append(g)
                    self.cur_guards.append(g)
                except AnalysisError:
                    self.cur_guards = saved
            try:
                done, val = self.exec_block(st.body, 0, env)
            except RaiseSignal as r:
                for h in st.handlers:
                    if h.name:
                        env.vars[h.name] = r.exc
                    done, val = self.exec_block(h.body, 0, env)
                    return done, val
                raise
            return done, val
        if isinstance(st, ast.While):
            raise AnalysisError(f"python while-loop at {self.site(m, st)} is outside the analysed subset")
        if isinstance(st, (ast.Import, ast.ImportFrom)):
            return False, None
        raise AnalysisError(f"statement {type(st).__name__} at {self.site(m, st)} is outside the analysed subset")

    def assign(self, target, val, env):
        if isinstance(target, ast.Name):
            env.vars[target.id] = val
            return
        if isinstance(target, (ast.Tuple, ast.List)):
            elts = target.elts
            star = [i for i, e in enumerate(elts) if isinstance(e, ast.Starred)]
            site = self.site(env.module, target)
            if isinstance(val, T.Term):
                if star:
                    n = val.meta.get("length")
                    if not isinstance(n, int):
                        # unknown length: head / tail by index, the starred part as a slice term
                        s0 = star[0]
                        after = len(elts) - s0 - 1
                        for k, e in enumerate(elts[:s0]):
                            self.assign(e, T.mk("getitem", (val, k), origin=site), env)
                        self.assign(elts[s0].value, T.mk("getitem", (val, slice(s0, -after if after else None, None)), origin=site), env)
                        for k, e in enumerate(elts[s0 + 1 :]):
                            self.assign(e, T.mk("getitem", (val, k - after), origin=site), env)
                        return
                    val = [T.mk("getitem", (val, i), origin=site) for i in range(n)]
                else:
                    val = [T.mk("getitem", (val, i), origin=site) for i in range(len(elts))]
            vals = self.iterate(val, site)
            if star:
                s = star[0]
                after = len(elts) - s - 1
                if len(vals) < len(elts) - 1:
                    raise RaiseSignal(ExcV("ValueError"), site)
                for e, v in zip(elts[:s], vals[:s]):
                    self.assign(e, v, env)
                mid = vals[s : len(vals) - after]
                self.assign(elts[s].value, list(mid), env)
                for e, v in zip(elts[s + 1 :], vals[len(vals) - after :]):
                    self.assign(e, v, env)
                return
            if len(vals) != len(elts):
                raise RaiseSignal(ExcV("ValueError"), site)
            for e, v in zip(elts, vals):
                self.assign(e, v, env)
            return
        if isinstance(target, ast.Attribute):
            obj = self.eval(target.value, env)
            if isinstance(obj, Rec):
                obj.fields[target.attr] = val
                return
            raise AnalysisError(f"attribute assignment on {obj!r} at {self.site(env.module, target)}")
        if isinstance(target, ast.Subscript):
            obj = self.eval(target.value, env)
            idx = self.eval_index(target.slice, env)
            if isinstance(obj, (list, dict)) and not isinstance(idx, T.Term):
                obj[idx] = val
                return
            raise AnalysisError(f"subscript assignment on {obj!r} at {self.site(env.module, target)}")
        raise AnalysisError(f"assignment target {type(target).__name__} at {self.site(env.module, target)}")

    # ------------------------------------------------------------ expressions
    def eval(self, e, env):
        m = env.module
        if isinstance(e, ast.Constant):
            return e.value
        if isinstance(e, ast.Name):
            return self.lookup(e.id, env, e)
        if isinstance(e, ast.Attribute):
            return self.getattr(self.eval(e.value, env), e.attr, self.site(m, e))
        if isinstance(e, ast.Call):
            return self.eval_call(e, env)
        if isinstance(e, ast.BinOp):
            return self.binop(_BINOPS[type(e.op)], self.eval(e.left, env), self.eval(e.right, env), self.site(m, e))
        if isinstance(e, ast.UnaryOp):
            v = self.eval(e.operand, env)
            if isinstance(e.op, ast.Not):
                return T.mk("not", (v,), origin=self.site(m, e)) if isinstance(v, T.Term) else (not v)
            if isinstance(e.op, ast.USub):
                return T.mk("neg", (v,), origin=self.site(m, e)) if not _is_static(v) else -v
            if isinstance(e.op, ast.UAdd):
                return v
            if isinstance(e.op, ast.Invert):
                return T.mk("invert", (v,), origin=self.site(m, e)) if not _is_static(v) else ~v
        if isinstance(e, ast.Compare):
            return self.eval_compare(e, env)
        if isinstance(e, ast.BoolOp):
            return self.eval_boolop(e, env)
        if isinstance(e, ast.IfExp):
            t = self.eval(e.test, env)
            if isinstance(t, T.Term):
                return ite(t, self.eval(e.body, env), self.eval(e.orelse, env), self.site(m, e))
            return self.eval(e.body, env) if t else self.eval(e.orelse, env)
        if isinstance(e, ast.Tuple):
            return tuple(self.eval_elts(e.elts, env))
        if isinstance(e, ast.List):
            return list(self.eval_elts(e.elts, env))
        if isinstance(e, ast.Set):
            return list(self.eval_elts(e.elts, env))
        if isinstance(e, ast.Dict):
            d = {}
            for k, v in zip(e.keys, e.values):
                if k is None:
                    d.update(self.eval(v, env))
                else:
                    d[self.eval(k, env)] = self.eval(v, env)
            return d
        if isinstance(e, ast.Subscript):
            obj = self.eval(e.value, env)
            idx = self.eval_index(e.slice, env)
            return self.getitem(obj, idx, self.site(m, e))
        if isinstance(e, ast.Lambda):
            return self.make_closure(e, env, m, f"{self.call_stack[-1] if self.call_stack else m.name}.<lambda@{e.lineno}>")
        if isinstance(e, (ast.ListComp, ast.GeneratorExp)):
            out = []
            self.eval_comp(e.generators, 0, env, lambda en: out.append(self.eval(e.elt, en)))
            return out
        if isinstance(e, ast.DictComp):
            d = {}

            def put(en):
                d[self.eval(e.key, en)] = self.eval(e.value, en)

            self.eval_comp(e.generators, 0, env, put)
            return d
        if isinstance(e, ast.JoinedStr):
            for v in e.values:
                if isinstance(v, ast.FormattedValue):
                    try:
                        self.eval(v.value, env)
                    except (AnalysisError, RaiseSignal, KeyError):
                        pass
            return "<fstr>"
        if isinstance(e, ast.Starred):
            raise AnalysisError(f"starred expression outside call/display at {self.site(m, e)}")
        if isinstance(e, ast.Slice):
            return self.eval_index(e, env)
        raise AnalysisError(f"expression {type(e).__name__} at {self.site(m, e)} is outside the analysed subset")

    def eval_elts(self, elts, env):
        out = []
        for x in elts:
            if isinstance(x, ast.Starred):
                v = self.eval(x.value, env)
                if isinstance(v, T.Term) and not isinstance(v.meta.get("length"), int):
                    out.append(T.mk("star", (v,), origin=self.site(env.module, x)))
                else:
                    out.extend(self.iterate(v, self.site(env.module, x)))
            else:
                out.append(self.eval(x, env))
        return out

    def eval_comp(self, gens, i, env, emit):
        if i == len(gens):
            emit(env)
            return
        g = gens[i]
        items = self.iterate(self.eval(g.iter, env), self.site(env.module, g.iter))
        for it in items:
            e2 = Env(env, env.module)
            self.assign(g.target, it, e2)
            ok = True
            for c in g.ifs:
                t = self.eval(c, e2)
                if isinstance(t, T.Term):
                    raise AnalysisError(f"comprehension filter on abstract value at {self.site(env.module, c)}")
                ok = ok and bool(t)
            if ok:
                self.eval_comp(gens, i + 1, e2, emit)

    def lookup(self, name, env, node):
        try:
            return env.lookup(name)
        except KeyError:
            pass
        try:
            return self.resolve_global(env.module, name)
        except KeyError:
            pass
        if name in self.BUILTINS or name in self.EXC_NAMES:
            return BuiltinV(name)
        if name in ("True", "False", "None"):
            return {"True": True, "False": False, "None": None}[name]
        raise AnalysisError(f"unresolved name {name!r} at {self.site(env.module, node)}")

    def eval_call(self, e: ast.Call, env):
        site = self.site(env.module, e)
        if isinstance(e.func, ast.Name) and e.func.id == "super" and not e.args:
            cls = env.lookup("__class__")
            a = None
            en = env
            # first positional parameter of the enclosing method
            while en is not None:
                if "self" in en.vars:
                    a = en.vars["self"]
                    break
                if "cls" in en.vars:
                    a = en.vars["cls"]
                    break
                en = en.parent
            return SuperV(cls, a)
        f = self.eval(e.func, env)
        args = []
        for a in e.args:
            if isinstance(a, ast.Starred):
                v = self.eval(a.value, env)
                if isinstance(v, T.Term) and not isinstance(v.meta.get("length"), int):
                    args.append(T.mk("star", (v,), origin=site))
                else:
                    args.extend(self.iterate(v, site))
            else:
                args.append(self.eval(a, env))
        kwargs = {}
        for k in e.keywords:
            if k.arg is None:
                v = self.eval(k.value, env)
                if not isinstance(v, dict):
                    raise AnalysisError(f"**kwargs of abstract value at {site}")
                kwargs.update(v)
            else:
                kwargs[k.arg] = self.eval(k.value, env)
        return self.call(f, args, kwargs, site)

    def eval_index(self, s, env):
        if isinstance(s, ast.Slice):
            return slice(
                None if s.lower is None else self.eval(s.lower, env),
                None if s.upper is None else self.eval(s.upper, env),
                None if s.step is None else self.eval(s.step, env),
            )
        if isinstance(s, ast.Tuple):
            return tuple(self.eval_index(x, env) for x in s.elts)
        return self.eval(s, env)

    def getitem(self, obj, idx, site):
        if isinstance(obj, (list, tuple, str)):
            if isinstance(idx, int):
                try:
                    return obj[idx]
                except IndexError:
                    raise RaiseSignal(ExcV("IndexError"), site) from None
            if isinstance(idx, slice) and all(v is None or isinstance(v, int) for v in (idx.start, idx.stop, idx.step)):
                return obj[idx]
            return T.mk("getitem", (obj, idx), origin=site)
        if isinstance(obj, dict):
            if isinstance(idx, T.Term):
                return T.mk("getitem", (obj, idx), origin=site)
            try:
                return obj[idx]
            except KeyError:
                raise RaiseSignal(ExcV("KeyError"), site) from None
        if isinstance(obj, T.Term):
            if obj.op == "np.stack" and isinstance(idx, int) and isinstance(obj.args[0], (list, tuple)) and obj.kwargs.get("axis", 0) == 0 and -len(obj.args[0]) <= idx < len(obj.args[0]):
                return obj.args[0][idx]  # stack(xs)[i] == xs[i]
            return T.mk("getitem", (obj, idx), origin=site)
        if isinstance(obj, (ClassV, PrimV)):
            return obj  # Generic[...] subscripts in annotations / bases
        if _is_static(obj):
            return T.mk("getitem", (obj, idx), origin=site)
        raise AnalysisError(f"cannot subscript {obj!r} at {site}")

    def binop(self, op, a, b, site):
        if _is_static(a) and _is_static(b):
            try:
                return _PYOPS[op](a, b)
            except ZeroDivisionError:
                raise RaiseSignal(ExcV("ZeroDivisionError"), site) from None
            except TypeError:
                # the analysed program itself raises TypeError on these statics
                raise RaiseSignal(ExcV("TypeError"), site) from None
        if op == "add" and isinstance(a, (list, tuple)) and isinstance(b, type(a)):
            return a + b
        if op == "mul" and isinstance(a, (list, tuple)) and isinstance(b, int):
            return a * b
        if op == "mul" and isinstance(b, (list, tuple)) and isinstance(a, int):
            return a * b
        if op == "mod" and isinstance(a, str):
            return "<str>"
        if op == "add" and isinstance(a, str):
            return "<str>"
        if op == "or" and isinstance(a, ClassV):
            return a  # type unions in annotations
        return T.mk(op, (a, b), origin=site)

    def eval_compare(self, e, env):
        left = self.eval(e.left, env)
        result = True
        for op, rn in zip(e.ops, e.comparators):
            right = self.eval(rn, env)
            r = self.compare(op, left, right, self.site(env.module, e))
            if isinstance(r, T.Term):
                result = r if result is True else T.mk("and", (result, r))
            elif not r:
                return False
            left = right
        return result

    def compare(self, op, a, b, site):
        if isinstance(op, (ast.Is, ast.IsNot)):
            same = a is b or (_is_static(a) and _is_static(b) and a == b and type(a) is type(b))
            if isinstance(a, T.Term) and isinstance(b, T.Term) and a is not b:
                return T.mk("is" if isinstance(op, ast.Is) else "isnot", (a, b), origin=site)
            return same if isinstance(op, ast.Is) else not same
        if isinstance(op, (ast.In, ast.NotIn)):
            neg = isinstance(op, ast.NotIn)
            if isinstance(b, (list, tuple, dict, str)) and not _has_term(a) and not _has_term(b):
                r = a in b
                return (not r) if neg else r
            if isinstance(b, (list, tuple)) and any(x is a for x in b):
                return not neg
            r = T.mk("in", (a, b), origin=site)
            return T.mk("not", (r,)) if neg else r
        name = _CMPOPS[type(op)]
        if not _has_term(a) and not _has_term(b) and not isinstance(a, (Rec, Closure)) and not isinstance(b, (Rec, Closure)):
            try:
                return _PYOPS[name](a, b)
            except TypeError:
                pass
        if name in ("eq", "ne") and isinstance(a, (tuple, list)) and isinstance(b, (tuple, list)):
            def _open(c):  # a starred abstract sequence (or anything derived from one) has an unknown number of entries
                return any(isinstance(x, T.Term) and any(isinstance(y, T.Term) and y.op == "star" for y in T.subterms(x)) for x in c)

            if len(a) != len(b) and not _open(a) and not _open(b):
                return name == "ne"
            if all(x is y for x, y in zip(a, b)):
                return name == "eq"
        if name in ("eq", "ne") and a is b:
            return name == "eq"
        return T.mk(name, (a, b), origin=site)

    def eval_boolop(self, e, env):
        is_and = isinstance(e.op, ast.And)
        acc = None
        for v in e.values:
            x = self.eval(v, env)
            if isinstance(x, T.Term):
                acc = x if acc is None else T.mk("and" if is_and else "or", (acc, x), origin=self.site(env.module, e))
                continue
            truth = bool(x) if not isinstance(x, (Rec, Closure, ClassV, PrimV, BoundMethod, PartialV)) else True
            if is_and and not truth:
                return x if acc is None else False
            if not is_and and truth:
                return x if acc is None else True
            last = x
        if acc is not None:
            return acc
        return last


def _has_term(v):
    if isinstance(v, T.Term):
        return True
    if isinstance(v, (list, tuple)):
        return any(_has_term(x) for x in v)
    if isinstance(v, dict):
        return any(_has_term(x) for x in v.values())
    return False


def _as_load(t):
    import copy

    t2 = copy.copy(t)
    t2.ctx = ast.Load()
    return t2


_BINOPS = {
    ast.Add: "add", ast.Sub: "sub", ast.Mult: "mul", ast.Div: "div", ast.Pow: "pow", ast.MatMult: "matmul",
    ast.FloorDiv: "floordiv", ast.Mod: "mod", ast.BitOr: "or", ast.BitAnd: "and", ast.BitXor: "xor",
    ast.LShift: "lshift", ast.RShift: "rshift",
}
_CMPOPS = {ast.Eq: "eq", ast.NotEq: "ne", ast.Lt: "lt", ast.LtE: "le", ast.Gt: "gt", ast.GtE: "ge"}
_PYOPS = {
    "add": operator.add, "sub": operator.sub, "mul": operator.mul, "div": operator.truediv, "pow": operator.pow,
    "floordiv": operator.floordiv, "mod": operator.mod, "or": operator.or_, "and": operator.and_, "xor": operator.xor,
    "eq": operator.eq, "ne": operator.ne, "lt": operator.lt, "le": operator.le, "gt": operator.gt, "ge": operator.ge,
    "lshift": operator.lshift, "rshift": operator.rshift,
}


def infer_ndim(t):
    """Rank of an abstract array where it is evident from the construct (else None)."""
    if not isinstance(t, T.Term):
        return None
    n = t.meta.get("ndim")
    if isinstance(n, int):
        return n
    op, a = t.op, t.args
    if op == "attr":
        # declared ranks of attribute paths of an input root: atom(meta ndims={"noise.mean_flat": 2})
        path, cur = [], t
        while isinstance(cur, T.Term) and cur.op == "attr":
            path.append(cur.args[1])
            cur = cur.args[0]
        if isinstance(cur, T.Term):
            d = cur.meta.get("ndims")
            if d:
                r = d.get(".".join(reversed(path)))
                if isinstance(r, int):
                    return r
    if op in ("np.reshape",) and len(a) == 2 and isinstance(a[1], (tuple, list)):
        return len(a[1])
    if op in ("np.ones", "np.zeros") and a and isinstance(a[0], (tuple, list)):
        return len(a[0])
    if op in ("np.eye", "linalg.diagonal_matrix", "np.kron"):
        return 2 if op != "np.kron" else None
    if op in ("np.ones_like", "np.zeros_like", "np.abs", "neg", "np.asarray", "np.sqrt") and a:
        return infer_ndim(a[0])
    if op == "attr" and a[1] == "T":
        return infer_ndim(a[0])
    return None


# ----------------------------------------------------------------------------
# primitives with structural semantics
# ----------------------------------------------------------------------------
_PRIMS: dict = {}


def prim(*names):
    def deco(fn):
        for n in names:
            _PRIMS[n] = fn
        return fn

    return deco


@prim("func.partial", "tree.Partial", "ext:functools.partial")
def _p_partial(it, args, kwargs, site):
    return PartialV(args[0], args[1:], kwargs)


@prim("func.jit")
def _p_jit(it, args, kwargs, site):
    return WrappedFn("jit", args[0], kwargs)


@prim("func.vmap")
def _p_vmap(it, args, kwargs, site):
    return WrappedFn("vmap", args[0], {**kwargs, **({"in_axes": args[1]} if len(args) > 1 else {})})


@prim("func.jacfwd", "func.jacrev", "func.grad")
def _p_jac(it, args, kwargs, site):
    return WrappedFn(site_kind(args, "jac"), args[0])


def site_kind(args, k):
    return k


@prim("func.stop_gradient")
def _p_stopgrad(it, args, kwargs, site):
    it.events.append({"kind": "stop_gradient", "site": site, "fn": it.call_stack[-1] if it.call_stack else "<top>"})
    x = args[0]
    if _is_static(x):
        return x
    return T.mk("func.stop_gradient", (x,), origin=site)


@prim("structs.dataclass", "tree.register_dataclass", "tree.register_pytree_node_class", "abc.abstractmethod")
def _p_identity_deco(it, args, kwargs, site):
    if args:
        return args[0]
    return BuiltinV("identity")


@prim("tree.register_pytree_node")
def _p_noop(it, args, kwargs, site):
    return None


@prim("warnings.warn")
def _p_warn(it, args, kwargs, site):
    it.events.append({"kind": "warn", "site": site, "fn": it.call_stack[-1] if it.call_stack else "<top>", "path": list(it.path_conds)})
    return None


@prim("np.asarray")
def _p_asarray(it, args, kwargs, site):
    x = args[0]
    if isinstance(x, T.Term) and not kwargs and len(args) == 1:
        return x
    if isinstance(x, (list, tuple)):
        # a literal table: remember its (static) leading length so that python-level iteration works
        return T.mk("np.asarray", tuple(args), kwargs, origin=site, meta={"length": len(x)})
    return _MISSING


@prim("np.shape")
def _p_shape(it, args, kwargs, site):
    x = args[0]
    if _is_static(x):
        return ()
    return T.mk("attr", (x, "shape"), origin=site) if isinstance(x, T.Term) else _MISSING


@prim("np.ndim")
def _p_ndim(it, args, kwargs, site):
    x = args[0]
    if _is_static(x):
        return 0
    if isinstance(x, T.Term):
        r = infer_ndim(x)
        if r is None and it.ndim_oracle is not None:
            r = it.ndim_oracle(x)
        if r is not None:
            return r
    return T.mk("attr", (x, "ndim"), origin=site) if isinstance(x, T.Term) else _MISSING


def _is_pytree_container(v):
    return isinstance(v, (list, tuple, dict, Rec)) or v is None


def tree_children(v):
    """(keys, children, rebuild) of one pytree level, or None for leaves."""
    if isinstance(v, (list, tuple)):
        return list(range(len(v))), list(v), (lambda ch, t=type(v): t(ch))
    if isinstance(v, dict):
        ks = list(v.keys())
        return ks, [v[k] for k in ks], (lambda ch, ks=ks: dict(zip(ks, ch)))
    if isinstance(v, Rec):
        static = {f[0] for k in [v.cls] for f in v.cls.info.fields if f[2]}
        ks = [k for k, x in v.fields.items() if k not in static and not isinstance(x, (Closure, BoundMethod, PartialV, ClassV, PrimV, WrappedFn, str, bool)) and not _is_aux_rec(x)]

        def rebuild(ch, v=v, ks=ks):
            r = Rec(v.cls)
            r.fields = dict(v.fields)
            for k, c in zip(ks, ch):
                r.fields[k] = c
            return r

        return ks, [v.fields[k] for k in ks], rebuild
    return None


def _is_aux_rec(x):
    return isinstance(x, Rec) and x.cls.info.name.endswith("TreeFlatten")


def tree_map_struct(it, f, trees, site):
    first = trees[0]
    if first is None:
        return None
    ch = tree_children(first)
    if ch is None:
        return it.call(f, list(trees), {}, site)
    keys, kids, rebuild = ch
    rest_kids = []
    for t in trees[1:]:
        c2 = tree_children(t)
        if c2 is None:
            if isinstance(t, T.Term):
                rest_kids.append([T.mk("getitem", (t, k), origin=site) for k in keys])
                continue
            raise RaiseSignal(ExcV("ValueError"), site)
        if len(c2[1]) != len(kids):
            raise RaiseSignal(ExcV("ValueError"), site)
        rest_kids.append(c2[1])
    out = []
    for i, k in enumerate(kids):
        out.append(tree_map_struct(it, f, [k] + [r[i] for r in rest_kids], site))
    return rebuild(out)


def lam_key(it, f, arity, site, trees=None):
    """A structural key for a callable: its body evaluated on bound variables.

    For ``tree_map(f, X)`` over an opaque tree the bound variable is the generic
    leaf ``leaf_of(X)``, so guards inside ``f`` are attributed to ``X``."""
    if isinstance(f, (PrimV, BuiltinV)):
        return f
    if trees is not None:
        bound = [T.mk("leaf_of", (t,)) if isinstance(t, T.Term) else T.atom(f"${i}") for i, t in enumerate(trees)]
    else:
        bound = [T.atom(f"${i}") for i in range(arity)]
    try:
        body = it.call(f, bound, {}, site)
    except (AnalysisError, RaiseSignal):
        return f
    return T.mk("lam", (arity, _as_termlike(body)))


def _as_termlike(v):
    return v


_ARRAY_OPS = ("np.", "linalg.", "tree.ravel", "random.")
_ARITH = {"add", "sub", "mul", "div", "pow", "neg", "matmul", "at_set"}


def is_array_term(t) -> bool:
    """Is this abstract value certainly a single array (a pytree leaf)?"""
    if not isinstance(t, T.Term):
        return False
    if t.meta.get("array") is True:
        return True
    return t.op in _ARITH or (t.op.startswith(_ARRAY_OPS) and t.op not in ("tree.ravel_pair",))


@prim("tree.tree_map")
def _p_tree_map(it, args, kwargs, site):
    f, *trees = args
    if all(_is_pytree_container(t) or _is_static(t) or is_array_term(t) for t in trees[:1]):
        return tree_map_struct(it, f, trees, site)
    return T.mk("tree.tree_map", (lam_key(it, f, len(trees), site, trees), *trees), origin=site)


@prim("tree.tree_leaves")
def _p_tree_leaves(it, args, kwargs, site):
    (x,) = args
    if _is_pytree_container(x):
        out = []

        def go(v):
            ch = tree_children(v)
            if v is None:
                return
            if ch is None:
                # a value that is not certainly one array may stand for a whole pytree: its leaves cannot be enumerated
                if isinstance(v, T.Term) and not is_array_term(v):
                    raise _OpaqueLeaves
                out.append(v)
            else:
                for c in ch[1]:
                    go(c)

        try:
            go(x)
        except _OpaqueLeaves:
            return _MISSING
        return out
    return _MISSING


class _OpaqueLeaves(Exception):
    pass


@prim("tree.tree_leaves_depth_one")
def _p_leaves_d1(it, args, kwargs, site):
    (x,) = args
    if isinstance(x, (list, tuple)):
        return list(x)
    return _MISSING


@prim("tree.tree_flatten_depth_one")
def _p_flatten_d1(it, args, kwargs, site):
    (x,) = args
    if isinstance(x, (list, tuple)):
        return list(x), T.mk("treedef_depth_one", (type(x).__name__, len(x)))
    return _MISSING


@prim("tree.tree_unflatten")
def _p_unflatten(it, args, kwargs, site):
    td, leaves = args
    if isinstance(td, T.Term) and td.op == "treedef_depth_one" and isinstance(leaves, (list, tuple)) and len(leaves) == td.args[1]:
        return list(leaves) if td.args[0] == "list" else tuple(leaves)
    return _MISSING


def strip_casts(x):
    """(x without value-preserving dtype casts, the dtype cast to or None).  The abstract values carry no dtype: asarray(v, dtype=...) /
    v.astype(...) / tree_map(leaf -> cast(leaf), X) denote the same container as far as structure, shapes and values go."""
    if isinstance(x, (list, tuple)):
        parts = [strip_casts(y) for y in x]
        dts = [d for _y, d in parts if d is not None]
        if not dts:
            return x, None
        out = [y for y, _d in parts]
        return (out if isinstance(x, list) else tuple(out)), dts[0]
    if isinstance(x, T.Term):
        if x.op == "np.asarray" and x.args and (x.kwargs.get("dtype") is not None or len(x.args) > 1):
            y, _ = strip_casts(x.args[0])
            return y, x.kwargs.get("dtype", x.args[1] if len(x.args) > 1 else None)
        if x.op == "mcall" and len(x.args) == 3 and x.args[1] == "astype":
            y, _ = strip_casts(x.args[0])
            return y, x.args[2]
        if x.op == "tree.tree_map" and len(x.args) == 2 and isinstance(x.args[0], T.Term) and x.args[0].op == "lam" and x.args[0].args[0] == 1:
            body, d = strip_casts(x.args[0].args[1])
            if d is not None and isinstance(body, T.Term) and body.op == "leaf_of" and body.args[0] is x.args[1]:
                return x.args[1], d
    return x, None


@prim("tree.ravel_pytree")
def _p_ravel(it, args, kwargs, site):
    (x,) = args
    x, cast = strip_casts(x)
    if cast is not None:
        flat = T.mk("tree.ravel", (x,), origin=site)
        return flat, T.mk("unravel_of", (x,), {"cast_to": cast}, origin=site)
    if isinstance(x, T.Term) and x.op == "call" and isinstance(x.args[0], T.Term) and x.args[0].op == "unravel_of" and len(x.args) == 2:
        # ravel(unravel(v)) == v
        flat = x.args[1]
    else:
        flat = T.mk("tree.ravel", (x,), origin=site)
    return flat, T.mk("unravel_of", (x if not isinstance(x, T.Term) or x.op != "call" else x,), origin=site)


@prim("tree.tree_array_prepend")
def _p_prepend(it, args, kwargs, site):
    y, X = args
    return _tree_concat(it, [("lift", y), ("seq", X)], site)


@prim("tree.tree_array_append")
def _p_append(it, args, kwargs, site):
    X, y = args
    return _tree_concat(it, [("seq", X), ("lift", y)], site)


def _tree_concat(it, parts, site):
    vals = [v for _, v in parts]
    kinds = [k for k, _ in parts]
    first = vals[0]
    ch = tree_children(first) if not isinstance(first, T.Term) else None
    if ch is None or first is None:
        return T.mk("tree_concat", tuple(T.mk("lift", (v,)) if k == "lift" else v for k, v in parts), origin=site)
    keys, _, rebuild = ch
    cols = []
    for v in vals:
        c = tree_children(v)
        if c is None:
            if isinstance(v, T.Term):
                cols.append([T.mk("attr", (v, k)) if isinstance(k, str) else T.mk("getitem", (v, k)) for k in keys])
                continue
            raise AnalysisError(f"tree concatenation of mismatched structures at {site}")
        cols.append(c[1])
    out = []
    for i in range(len(keys)):
        out.append(_tree_concat(it, [(kinds[j], cols[j][i]) for j in range(len(vals))], site))
    return rebuild(out)


def _keep_meta(leaf):
    if isinstance(leaf, T.Term):
        return {k: x for k, x in leaf.meta.items() if k in ("cls", "array", "length")}
    return None


@prim("np.stack")
def _p_stack(it, args, kwargs, site):
    x = args[0]
    if isinstance(x, (list, tuple)) and kwargs.get("axis", 0) == 0:
        return T.mk("np.stack", tuple(args), kwargs, origin=site, meta={"length": len(x)})
    return _MISSING


def symbolise(it, v, prefix, numbers=True):
    """A value shaped like ``v`` whose array leaves are fresh atoms ``prefix.path``."""
    if isinstance(v, T.Term):
        return T.atom(prefix, **{k: x for k, x in v.meta.items() if k in ("cls", "array", "length")})
    if isinstance(v, bool) or v is None or isinstance(v, str):
        return v
    if isinstance(v, (int, float)):
        return T.atom(prefix) if numbers else v
    ch = tree_children(v)
    if ch is None:
        return v
    keys, kids, rebuild = ch
    return rebuild([symbolise(it, k, f"{prefix}.{key}" if isinstance(key, str) else f"{prefix}[{key}]", numbers) for key, k in zip(keys, kids)])


def map_leaves(v, fn, path=""):
    if isinstance(v, T.Term) or isinstance(v, (int, float)) and not isinstance(v, bool):
        return fn(v, path)
    ch = tree_children(v)
    if ch is None or v is None:
        return v
    keys, kids, rebuild = ch
    return rebuild([map_leaves(k, fn, f"{path}.{key}" if isinstance(key, str) else f"{path}[{key}]") for key, k in zip(keys, kids)])


@prim("flow.cond")
def _p_cond(it, args, kwargs, site):
    pred, f, g, *ops = args
    ev = {"kind": "cond", "site": site, "pred": pred, "fn": it.call_stack[-1] if it.call_stack else "<top>"}
    if not isinstance(pred, T.Term):
        r = it.call(f if pred else g, ops, {}, site)
        ev["taken"] = bool(pred)
        it.events.append(ev)
        return r
    it.path_conds.append((pred, True))
    try:
        a = it.call(f, ops, {}, site)
    finally:
        it.path_conds.pop()
    it.path_conds.append((pred, False))
    try:
        b = it.call(g, ops, {}, site)
    finally:
        it.path_conds.pop()
    ev.update(true=a, false=b, operands=ops)
    it.events.append(ev)
    return ite(pred, a, b, site)


@prim("flow.switch")
def _p_switch(it, args, kwargs, site):
    idx, options, operand = args
    options = it.iterate(options, site)
    outs = []
    for k, o in enumerate(options):
        it.path_conds.append((T.mk("eq", (idx, k)), True))
        try:
            outs.append(it.call(o, [operand], {}, site))
        finally:
            it.path_conds.pop()
    it.events.append({"kind": "switch", "site": site, "index": idx, "options": options, "outs": outs, "operand": operand, "fn": it.call_stack[-1] if it.call_stack else "<top>"})
    return switch_join(idx, outs, site)


@prim("flow.while_loop")
def _p_while(it, args, kwargs, site):
    cond_f, body_f = args[0], args[1]
    init = args[2] if len(args) > 2 else kwargs["init"]
    it.fresh += 1
    eid = it.fresh
    state = symbolise(it, init, f"while{eid}")
    cond_out = it.call(cond_f, [state], {}, site)
    it.path_conds.append((cond_out, True) if isinstance(cond_out, T.Term) else (T.mk("const", (cond_out,)), True))
    try:
        body_out = it.call(body_f, [state], {}, site)
    finally:
        it.path_conds.pop()
    final = map_leaves(state, lambda leaf, path: T.mk("while_final", (eid, T.atom_name(leaf) if isinstance(leaf, T.Term) else path), origin=site, meta=_keep_meta(leaf)))
    ev = {"kind": "while", "id": eid, "site": site, "init": init, "state": state, "cond": cond_out, "body": body_out, "final": final, "fn": it.call_stack[-1] if it.call_stack else "<top>", "cond_fn": cond_f, "body_fn": body_f}
    it.events.append(ev)
    return final


@prim("flow.scan")
def _p_scan(it, args, kwargs, site):
    step = args[0]
    init = args[1] if len(args) > 1 else kwargs["init"]
    xs = args[2] if len(args) > 2 else kwargs.get("xs")
    reverse = kwargs.get("reverse", False)
    it.fresh += 1
    eid = it.fresh
    carry = symbolise(it, init, f"scan{eid}.carry")
    x = None if xs is None else map_leaves(xs, lambda leaf, path: T.mk("scan_x", (eid, leaf), origin=site))
    out = it.call(step, [carry, x], {}, site)
    if not isinstance(out, (tuple, list)) or len(out) != 2:
        raise AnalysisError(f"scan body at {site} does not return a pair")
    new_carry, y = out
    final = map_leaves(carry, lambda leaf, path: T.mk("scan_final", (eid, T.atom_name(leaf) if isinstance(leaf, T.Term) else path), origin=site, meta=_keep_meta(leaf)))
    ys = map_leaves(y, lambda leaf, path: T.mk("scan_ys", (eid, leaf), origin=site))
    ev = {"kind": "scan", "id": eid, "site": site, "init": init, "xs": xs, "carry": carry, "x": x, "new_carry": new_carry, "y": y, "final": final, "ys": ys, "reverse": reverse, "length": kwargs.get("length"), "fn": it.call_stack[-1] if it.call_stack else "<top>", "step_fn": step}
    it.events.append(ev)
    return final, ys


@prim("flow.fori_loop")
def _p_fori(it, args, kwargs, site):
    return T.mk("flow.fori_loop", (args[0], args[1], lam_key(it, args[2], 2, site), args[3] if len(args) > 3 else kwargs.get("init")), origin=site)


@prim("func.eval_shape")
def _p_eval_shape(it, args, kwargs, site):
    f, *rest = args
    try:
        out = it.call(f, rest, kwargs, site)
    except AnalysisError:
        return _MISSING
    return map_leaves(out, lambda leaf, path: T.mk("shape_struct", (leaf,), origin=site))


@prim("random.split")
def _p_split(it, args, kwargs, site):
    key = args[0]
    num = kwargs.get("num", args[1] if len(args) > 1 else 2)
    t = T.mk("random.split", (key, num), origin=site)
    if isinstance(num, int):
        t.meta["length"] = num
    return t
