"""Domain G -- Gram matrices of covariance factors in the matrix-word algebra of domain M.

A covariance is stored as a (left) factor F with covariance F F^T.  The conditional algebra builds new factors from old ones by
    * row / column scalings with the diagonal preconditioners          ->  D F,  F D
    * matrix products with the linear map                              ->  A F
    * "sum of square-root factors":  R = sum_of_sqrtm_factors((R1, R2, ...)) is any right factor with  R^T R = R1^T R1 + R2^T R2 + ...
      (a QR decomposition of the stacked factors; only its Gram matrix is defined, and only its Gram matrix is used)
    * transposition between the left (package) and right (kernel) conventions.

``gram(F)`` evaluates F F^T to a linear combination of words over the matrix symbols, their transposes and the diagonal scalings, so that
"the covariance of the result is the dense formula" is an identity of normal forms.  Scalings are assumed positive (C08 quantifies over positive
scalings), so |P| = P.  Sound and incomplete like domain M: what it cannot express makes the obligation inconclusive.
"""

from __future__ import annotations

from fractions import Fraction

from . import mdomain as MD
from . import terms as T
from .mdomain import Lin, Opaque


def _t_key(k):
    return k[:-1] if k.endswith("'") else k + "'"


def transpose(lin: Lin) -> Lin:
    out = {}
    for w, c in lin.t.items():
        nw = []
        for f in reversed(w):
            if f[0] == "M":
                nw.append(("M", _t_key(f[1])))
            elif f[0] == "D":
                nw.append(f)
            else:
                raise Opaque("transpose of a vector word")
        nw = MD._norm_word(tuple(nw))
        out[nw] = out.get(nw, 0) + c
    return Lin(out)


class GAlgebra(MD.Algebra):
    """Matrix-valued expressions with transposes; |scaling| = scaling."""

    SUM_OPS = ("sum_of_sqrtm_factors",)

    def scaling_of(self, t):
        if isinstance(t, T.Term) and t.op == "np.abs" and len(t.args) == 1:
            return self.scaling_of(t.args[0])  # positive scalings
        return super().scaling_of(t)

    @staticmethod
    def _orientation(t):
        if isinstance(t, T.Term) and t.op == "np.abs" and len(t.args) == 1:
            return GAlgebra._orientation(t.args[0])
        if isinstance(t, T.Term) and t.op == "getitem":
            idx = t.args[1] if isinstance(t.args[1], tuple) else (t.args[1],)
            if None in idx:
                return "left" if idx[-1] is None else "right"
            return GAlgebra._orientation(t.args[0])
        if isinstance(t, T.Term) and t.op in ("mul", "div"):
            o = [GAlgebra._orientation(a) for a in t.args if isinstance(a, T.Term)]
            for k in ("left", "right"):
                if k in o:
                    return k
        return "vec"

    def _ev(self, t, want):
        if self._is_transpose(t):
            return transpose(self.ev(t.args[0], "M"))
        return super()._ev(t, want)

    @staticmethod
    def _is_transpose(t):
        if not isinstance(t, T.Term):
            return False
        if t.op == "attr" and t.args[1] == "T":
            return True
        if t.op == "np.transpose" and len(t.args) == 1 and tuple(t.kwargs.get("axes", ())) == (0, 2, 1):
            return True  # per block: the block-diagonal model's batched transpose
        return False

    # ---- Gram matrices
    def right_gram(self, r):
        """R^T R for a right factor R."""
        if isinstance(r, T.Term) and r.op in self.SUM_OPS:
            parts = r.args[0] if len(r.args) == 1 and isinstance(r.args[0], (tuple, list)) else (r.kwargs.get("R_stack") or r.args)
            total = Lin()
            for p in parts:
                total = total + self.right_gram(p)
            return total
        if self._is_transpose(r):
            return self.left_gram(r.args[0])
        if isinstance(r, T.Term) and r.op == "getitem" and r.args[1] == 0 and isinstance(r.args[0], T.Term) and r.args[0].op == "revert_conditional" and len(r.args[0].args) == 3:
            # R_Y of the reversal kernel: the (y, y) block of M^T M for the joint factor M = [[R_YX, 0], [R_X_F, R_X]] (structure decided by R-C08-5)
            r_x_f, _r_x, r_yx = r.args[0].args
            return self.right_gram(r_yx) + self.right_gram(r_x_f)
        m = self.ev(r, "M")
        return transpose(m) @ m

    def left_gram(self, f):
        """F F^T for a left factor F."""
        if self._is_transpose(f):
            return self.right_gram(f.args[0])
        if isinstance(f, T.Term) and f.op == "mul":
            x, y = f.args
            sx, sy = self.scaling_of(x), self.scaling_of(y)
            if (sx is None) != (sy is None):
                s, st, other = (sx, x, y) if sx is not None else (sy, y, x)
                ori = self._orientation(st)
                if ori == "left":
                    return s @ self.left_gram(other) @ s
                if ori == "vec" and len(s.t) == 1 and all(not w for w in s.t):
                    # a plain number c: (c F)(c F)^T = c^2 F F^T
                    (c,) = s.t.values()
                    return self.left_gram(other).scale(c * c)
        m = self.ev(f, "M")
        return m @ transpose(m)


def equal(lhs: Lin, rhs: Lin):
    return lhs == rhs, f"{lhs.show()}  vs  {rhs.show()}"
