"""C13 -- posterior samples are affine images of the normal draws (structural clauses)."""

from __future__ import annotations

from .. import nf
from .. import tdomain as TD
from .. import terms as T
from ..harness import BLOCK, DENSE, EST, ISO, A, Rec, Session, call, events, mcalls, method, rec_of_atoms
from ..interp import PartialV, RaiseSignal, WrappedFn
from ..model import AnalysisError
from ..tscen import MS

EXPLANATION = (
    "Abstract interpretation + time typestate of MarkovSequence.sample and of every factorisation's sample_flat / sample_tree: the first draw is from the "
    "(terminal) marginal, every scan step applies the k-th conditional to the carried sample at its source time and draws at the target time (inductive), "
    "samples are appended after (reverse) / prepended before (forward) consistently with evaluate_marginals; every draw uses a fresh sub-key of a split and the "
    "carried key is the other half; sample_flat is mean + L * base (affine in the standard-normal draw, offset = mean) with one independent draw per entry of the mean and no broadcast of the random term (so the Gram matrix of the map is L L^T per independent column, the covariance of the factorisation); "
    "requested sample shapes are peeled off one axis at a time with independent keys; sample_tree unflattens its own sample_flat."
    "  Prior sequences on a grid: every transition uses an all-ones calibrated scale, and the factors returned for reverse=True are not the forward factors under another label: they come from one forward pass from prior.init over the forward transitions that reverts the k-th transition at the carried marginal (final carry and stacked reversals stored), or reverse=True is rejected loudly."
)
LEVEL = "other"
TECHNIQUE = "abstract interpretation over the AST: Markov time typestate with an inductive scan check, provenance of PRNG keys, value-numbering normal form (affine in the draw)"
LEVEL_TEXT = (
    "Structural necessary conditions for 'samples are the affine image of the draws defined by the backward factorisation', decided for all posteriors and draws; "
    "the Gram clause is decided structurally (every factorisation's map is its Cholesky factor applied to independent draws, one per degree of freedom; conditionals are exact affine maps, C08); "
    "that the stored factor is the Cholesky factor of the smoothing covariance is C03/C08, distributional statements are statistical and not claimed."
)
LEVEL_NOTE = "Trusted: typing rules of tdomain.py; random.split returns independent keys; random.normal(key, shape) is a standard-normal draw."


def _is_matvec_pattern(pat):
    """'...jk,...k->...j' up to renaming of the two letters."""
    if not isinstance(pat, str) or "->" not in pat:
        return False
    ins, out = pat.replace(" ", "").split("->")
    ops = ins.split(",")
    if len(ops) != 2 or not all(o.startswith("...") for o in ops + [out]):
        return False
    a, b, o = ops[0][3:], ops[1][3:], out[3:]
    return len(a) == 2 and len(b) == 1 and len(o) == 1 and a[0] != a[1] and b == a[1] and o == a[0]


def _is_ellipsis_index(idx, last):
    """(..., last)"""
    return isinstance(idx, tuple) and len(idx) == 2 and (idx[0] is Ellipsis or (isinstance(idx[0], T.Term) and idx[0].op in ("ellipsis", "Ellipsis"))) and (idx[1] is last if last is None else idx[1] == last and not isinstance(idx[1], bool))


def _shape_expr(e, shapes):
    """Symbolic value of a shape expression (x.shape, x.shape[i], tuples of those)."""
    if isinstance(e, (tuple, list)):
        out = []
        for x in e:
            v = _shape_expr(x, shapes)
            if v is None or len(v) != 1:
                return None
            out.append(v[0])
        return tuple(out)
    if isinstance(e, T.Term) and e.op == "attr" and e.args[1] == "shape" and isinstance(e.args[0], T.Term) and e.args[0].uid in shapes:
        return shapes[e.args[0].uid]
    if isinstance(e, T.Term) and e.op == "getitem" and isinstance(e.args[1], int):
        v = _shape_expr(e.args[0], shapes)
        if v is not None and -len(v) <= e.args[1] < len(v):
            return (v[e.args[1]],)
    return None


def _shape_of(t, shapes):
    """Symbolic shape of the random term; None when it is not determined (mismatching contraction, unknown operation)."""
    if not isinstance(t, T.Term):
        return None
    if t.uid in shapes:
        return shapes[t.uid]
    if t.op == "matmul":
        a, b = _shape_of(t.args[0], shapes), _shape_of(t.args[1], shapes)
        if a is None or b is None or len(a) < 2 or not b:
            return None
        if len(b) == 1:
            return a[:-1] if a[-1] == b[0] else None
        if len(b) == 2 and a[-1] == b[0]:
            return a[:-1] + (b[1],)
        if len(b) == len(a) and len(b) > 2 and a[:-2] == b[:-2] and a[-1] == b[-2]:
            return a[:-1] + (b[-1],)  # batched matrix product with equal batch axes
        return None
    if t.op in ("np.einsum", "linalg.einsum") and len(t.args) == 3 and _is_matvec_pattern(t.args[0]):
        a, b = _shape_of(t.args[1], shapes), _shape_of(t.args[2], shapes)
        if a is None or b is None or len(a) < 2 or not b or a[-1] != b[-1]:
            return None
        la, lb = a[:-2], b[:-1]
        if la != lb and la and lb:
            return None
        return (la or lb) + (a[-2],)
    if t.op == "attr" and t.args[1] == "T":
        a = _shape_of(t.args[0], shapes)
        return tuple(reversed(a)) if a is not None else None
    if t.op == "getitem":
        a = _shape_of(t.args[0], shapes)
        idx = t.args[1] if isinstance(t.args[1], tuple) else (t.args[1],)
        if a is None:
            return None
        if _is_ellipsis_index(t.args[1], None):
            return a + ("1",)
        if _is_ellipsis_index(t.args[1], 0):
            return a[:-1] if a else None
        out, k = [], 0
        for i in idx:
            if i is None:
                out.append("1")
            elif isinstance(i, int):
                k += 1
            elif isinstance(i, slice) and i == slice(None) or (isinstance(i, T.Term) and i.op == "slice" and all(x is None for x in i.args)):
                if k >= len(a):
                    return None
                out.append(a[k])
                k += 1
            else:
                return None
        return tuple(out) + tuple(a[k:])
    return None


def _run_own(chk, S: Session):
    chk.trust("typing rules of tdomain.py", "random.split / random.normal")
    r1 = chk.rule("R-C13-1", "MarkovSequence.sample: first draw from the marginal, inductive scan, consistent stacking, key discipline, shape recursion", floor=12)
    r2 = chk.rule("R-C13-2", "sample_flat = mean + L * base for every factorisation; sample_tree unflattens its own flat sample", floor=9)
    for reverse in (True, False):
        cfg = {"reverse": reverse}
        it = S.interp()
        ms = rec_of_atoms(it, MS, "ms", {"reverse": reverse, "marginal": T.atom("ms.marginal", ndims={"mean_flat": 1}), "conditional": T.atom("ms.conditional", ndims={"noise.mean_flat": 2})})
        key = A("key")
        out = call(it, method(it, ms, "sample"), key)
        S.absorb(it)
        scans = events(it, "scan")
        if len(scans) != 1:
            raise AnalysisError(f"MarkovSequence.sample: expected one scan, found {len(scans)}")
        sc = scans[0]
        where = sc["site"]
        split0 = T.mk("random.split", (key, 2))
        k_carry, k_sub = T.mk("getitem", (split0, 0)), T.mk("getitem", (split0, 1))
        s0 = T.mk("mcall", (ms.fields["marginal"], "sample_flat", k_sub))
        init = sc["init"]
        r1.require(isinstance(init, tuple) and len(init) == 2 and init[0] is s0 and init[1] is k_carry, "MarkovSequence.sample first draw", "sample0 = marginal.sample_flat(subkey); carried key = other half of the split",
                   f"init = {T.show(init, 4)}", where, cfg)
        r1.require(sc["xs"] is ms.fields["conditional"] and sc["reverse"] is reverse, "MarkovSequence.sample scan wiring", "scan over the conditionals in the sequence's direction", f"xs {T.show(sc['xs'], 2)} reverse {sc['reverse']}", where, cfg)
        carry, x, new, y = sc["carry"], sc["x"], sc["new_carry"], sc["y"]
        ok = isinstance(carry, tuple) and len(carry) == 2 and isinstance(new, tuple) and len(new) == 2
        if not ok:
            r1.fail("MarkovSequence.sample scan structure", f"{T.show(carry, 2)}", where, cfg)
            continue
        env = TD.TEnv()
        src, dst = A("sigma_src"), A("sigma_dst")
        env.declare(carry[0], ("P", src))
        env.declare(x, ("C", src, dst))
        tn = env.of(new[0])
        pred = T.mk("mcall", (x, "apply_flat", carry[0]))
        spl = T.mk("random.split", (carry[1], 2))
        want_new = T.mk("mcall", (pred, "sample_flat", T.mk("getitem", (spl, 1))))
        r1.require(tn is not None and tn[0] == "P" and TD.same(tn[1], dst) and not env.errors and new[0] is want_new, "MarkovSequence.sample induction", "conditional k applied to the carried sample, new draw at its target",
                   f"new sample {T.show(new[0], 4)} : {TD.show_type(tn)}; errors {env.errors[:1]}", where, cfg)
        r1.require(new[1] is T.mk("getitem", (spl, 0)), "MarkovSequence.sample key discipline", "carried key = split(key)[0], draw key = split(key)[1]", f"carried key {T.show(new[1], 3)}", where, cfg)
        want_y = T.mk("mcall", (T.mk("attr", (pred, "tree_flatten")), "unflatten_array", want_new))
        r1.require(y is want_y, "MarkovSequence.sample outputs", "reported sample = unflattened new draw", f"y = {T.show(y, 4)}", where, cfg)
        okc = isinstance(out, T.Term) and out.op == "tree_concat" and len(out.args) == 2
        if okc:
            a0, a1 = out.args
            first_tree = T.mk("mcall", (T.mk("attr", (ms.fields["marginal"], "tree_flatten")), "unflatten_array", s0))
            if reverse:
                okc = isinstance(a1, T.Term) and a1.op == "lift" and a1.args[0] is first_tree and not (isinstance(a0, T.Term) and a0.op == "lift")
            else:
                okc = isinstance(a0, T.Term) and a0.op == "lift" and a0.args[0] is first_tree and not (isinstance(a1, T.Term) and a1.op == "lift")
        r1.require(okc, "MarkovSequence.sample stacking", "first draw appended (reverse) / prepended (forward), as in evaluate_marginals", f"{T.show(out, 3)}", where, cfg)
    # stacked marginals are removed first: sampling a sequence that still carries its filtering marginals IS sampling the stripped sequence -- same key, same
    # requested shape.  Decided as an equality of the two interpreted values (how the method gets there -- a recursive call, a rebinding -- plays no role).
    for shp in ((), (3, 2)):
        it = S.interp()
        ms = rec_of_atoms(it, MS, "ms", {"reverse": True, "marginal": T.atom("msf.marginal", ndims={"mean_flat": 2}), "conditional": T.atom("msf.conditional", ndims={"noise.mean_flat": 2})})
        cfg = {"shape": list(shp)}
        from ..tscen import markov_rank_oracle

        it.ndim_oracle = markov_rank_oracle  # the stripped sequence's marginal has lost its leading axis
        try:
            direct = call(it, method(it, ms, "sample"), A("key"), shape=shp)
            # a second interpreter, so that loop events are numbered alike in both values
            it2 = S.interp()
            it2.ndim_oracle = markov_rank_oracle
            ms2 = rec_of_atoms(it2, MS, "ms", {"reverse": True, "marginal": ms.fields["marginal"], "conditional": ms.fields["conditional"]})
            stripped = call(it2, method(it2, ms2, "remove_filtering_distributions"))
            want = call(it2, method(it2, stripped, "sample"), A("key"), shape=shp)
            S.absorb(it2)
        except AnalysisError as e:
            r1.unknown(f"MarkovSequence.sample of a sequence with filtering marginals (shape {shp})", str(e), EST, cfg)
            S.absorb(it)
            continue
        S.absorb(it)
        same = T._freeze(direct) == T._freeze(want)
        stripped_ok = isinstance(stripped, Rec) and stripped.fields["conditional"] is ms.fields["conditional"] and stripped.fields["marginal"] is not ms.fields["marginal"]
        r1.require(same and stripped_ok, f"MarkovSequence.sample of a sequence with filtering marginals (shape {shp})", "= remove_filtering_distributions().sample(key, shape=shape)",
                   f"sample(key, shape={shp}) = {T.show(direct, 3)}, but the stripped sequence gives {T.show(want, 3)}: key or requested sample axes are not handed on", EST, cfg)
    # shape recursion
    it = S.interp()
    ms = rec_of_atoms(it, MS, "ms", {"reverse": True, "marginal": T.atom("ms.marginal", ndims={"mean_flat": 1}), "conditional": T.atom("ms.conditional", ndims={"noise.mean_flat": 2})})
    out = call(it, method(it, ms, "sample"), A("key"), shape=(3, 2))
    ok = isinstance(out, T.Term) and out.op == "vmap_apply" and out.args[1] is T.mk("random.split", (A("key"), 3))
    if ok:
        w = out.args[0]
        fn = w.fn if isinstance(w, WrappedFn) else None
        ok = isinstance(fn, PartialV) and list(fn.kwargs.get("shape")) == [2]
    r1.require(ok, "MarkovSequence.sample shape recursion", "split the key n ways and vmap sample(shape=remaining) over the keys", f"{T.show(out, 3)}", EST)
    # ... at every level: a one-dimensional shape (n,) is one more level (remaining = ()), and only the empty shape draws a single trajectory
    it1 = S.interp()
    ms1 = rec_of_atoms(it1, MS, "ms", {"reverse": True, "marginal": T.atom("ms.marginal", ndims={"mean_flat": 1}), "conditional": T.atom("ms.conditional", ndims={"noise.mean_flat": 2})})
    out1 = call(it1, method(it1, ms1, "sample"), A("key"), shape=(5,))
    ok1 = isinstance(out1, T.Term) and out1.op == "vmap_apply" and out1.args[1] is T.mk("random.split", (A("key"), 5))
    if ok1:
        fn1 = out1.args[0].fn if isinstance(out1.args[0], WrappedFn) else None
        ok1 = isinstance(fn1, PartialV) and list(fn1.kwargs.get("shape")) == []
    r1.require(ok1, "MarkovSequence.sample shape recursion, last level", "shape (n,): n keys, vmap sample(shape=()) over them", f"{T.show(out1, 3)}: a one-dimensional sample shape does not add its axis", EST)
    out0 = call(it1, method(it1, ms1, "sample"), A("key"), shape=())
    ok0 = not any(isinstance(t_, T.Term) and t_.op == "vmap_apply" and isinstance(t_.args[0], WrappedFn) and isinstance(t_.args[0].fn, PartialV) for t_ in T.subterms(out0))
    r1.require(ok0, "MarkovSequence.sample shape recursion, base case", "shape (): one trajectory, nothing mapped over keys", f"{T.show(out0, 3)}", EST)
    S.absorb(it1)
    S.absorb(it)

    # ---------------- sample_flat per factorisation
    specs = [(DENSE + ".DenseNormal", "dense"), (ISO + ".IsotropicNormal", "isotropic"), (BLOCK + ".BlockDiagNormal", "blockdiag")]
    for qual, fam in specs:
        it = S.interp()
        mean, chol, tf, key = A("mean"), T.atom(f"chol_{fam}", ndims={"": 3 if fam == "blockdiag" else 2}), A("tf"), A("key")
        chol.meta["ndim"] = 3 if fam == "blockdiag" else 2
        rv = it.instantiate(it.class_value(qual), [mean, chol, tf], {}, "<harness>")
        out = call(it, method(it, rv, "sample_flat"), key)
        S.absorb(it)
        name = f"{qual.rsplit('.', 1)[1]}.sample_flat"
        draws = [t for t in T.subterms(out) if t.op == "random.normal"]
        ok = len(draws) == 1 and draws[0].args[0] is key
        r2.require(ok, f"{name} draw", "one standard-normal draw with the given key", f"{[T.show(d, 3) for d in draws]}", qual)
        if not ok:
            continue
        base = draws[0]
        # affine in the draw with offset = mean: out - mean contains L and base, and nothing else
        diff = nf.norm(T.mk("sub", (out, mean)))
        okm = len(diff) == 1 and list(diff.values())[0] == 1
        lin = None
        if okm:
            (mono,) = diff.keys()
            okm = len(mono) == 1 and mono[0][1] == 1
            lin = mono[0][0] if okm else None
        contr = None
        dims = {"dense": (("N",), ("N", "N")), "isotropic": (("n", "d"), ("n", "n")), "blockdiag": (("d", "n"), ("d", "n", "n"))}[fam]
        shapes = {mean.uid: dims[0], chol.uid: dims[1]}
        if lin is not None:
            cur = lin
            if isinstance(cur, T.Term) and cur.op == "matmul" and cur.args[0] is chol and cur.args[1] is base:
                contr = "matmul"
            if isinstance(cur, T.Term) and cur.op in ("np.einsum", "linalg.einsum") and len(cur.args) == 3 and cur.args[1] is chol and cur.args[2] is base and _is_matvec_pattern(cur.args[0]):
                contr = "einsum"
            # batched mat-vec spelled with a trailing unit axis: (L @ z[..., None])[..., 0]
            if isinstance(cur, T.Term) and cur.op == "getitem" and _is_ellipsis_index(cur.args[1], 0) and isinstance(cur.args[0], T.Term) and cur.args[0].op == "matmul" and cur.args[0].args[0] is chol:
                rhs = cur.args[0].args[1]
                if isinstance(rhs, T.Term) and rhs.op == "getitem" and rhs.args[0] is base and _is_ellipsis_index(rhs.args[1], None):
                    contr = "matmul with a trailing unit axis"
        r2.require(okm and contr is not None, f"{name} affine map", "mean + L @ base (offset = mean, Cholesky factor contracted over its white-noise axis with the draw, nothing else)", f"sample = {T.show(out, 5)}", qual)
        # one independent standard-normal per degree of freedom: the draw has as many entries as the mean, and L * draw has exactly the
        # mean's shape (a broadcast of the random term over an axis of the mean makes the components on that axis perfectly correlated)
        shp = base.kwargs.get("shape", base.args[1] if len(base.args) > 1 else None)
        dshape = _shape_expr(shp, shapes)
        oks = dshape is not None and sorted(dshape) == sorted(dims[0])
        r2.require(bool(oks), f"{name} draw shape", f"one independent draw per entry of the mean {dims[0]}", f"shape = {T.show(shp, 3)} = {dshape}", qual)
        if lin is not None and dshape is not None:
            shapes[base.uid] = dshape
            lshape = _shape_of(lin, shapes)
            r2.require(lshape == dims[0], f"{name} no broadcast of the random term", f"L * draw has the mean's shape {dims[0]}", f"L * draw = {T.show(lin, 4)} has shape {lshape}", qual)
        else:
            r2.fail(f"{name} no broadcast of the random term", "the random term could not be isolated", qual)
        # sample_tree
        it2 = S.interp()
        rv2 = it2.instantiate(it2.class_value(qual), [mean, chol, tf], {}, "<harness>")
        got = []

        def hook(itp, fn, a, kw, site, _g=got):
            _g.append(a)
            return A("flat_sample")

        it2.method_hooks[f"{qual}.sample_flat"] = hook
        st = call(it2, method(it2, rv2, "sample_tree"), key)
        ok = len(got) == 1 and got[0][1] is key and st is T.mk("mcall", (tf, "unflatten_array", A("flat_sample")))
        r2.require(ok, f"{qual.rsplit('.', 1)[1]}.sample_tree", "tree_flatten.unflatten_array(self.sample_flat(key))", f"{T.show(st, 3)}", qual)
        chk.sample({"rule": "R-C13-2", "factorisation": fam, "sample_flat": T.show(out, 5)})
    prior_grid_rules(chk, S)


def _is_reversal_pass(it, n_ev, init, res_f, res_b):
    """(ok, detail): the factors returned for reverse=True come from ONE forward pass over the forward transitions that starts at prior.init and reverts the k-th
    transition at the carried marginal: the final carry (the law at the last grid point) is the stored marginal, the stacked reversals are the stored conditionals.
    True when that shape is recognised, None (undecided) for any other construction."""
    scans = [e for e in it.events[n_ev:] if e["kind"] == "scan"]
    if len(scans) != 1:
        return None, f"{len(scans)} scans while building the reverse=True factors (expected one forward pass)"
    e = scans[0]
    if e.get("reverse") not in (False, None):
        return False, "the pass over the transitions runs backwards in time: the reversal of the k-th transition needs the marginal at t_k, which is only known after the transitions before it"
    if e["init"] is not init:
        return False, f"the pass starts from {T.show(e['init'], 2) if isinstance(e['init'], T.Term) else e['init']!r}, not from prior.init"
    fc = it.getattr(res_f, "conditional", None)
    if not (isinstance(e["xs"], T.Term) and isinstance(fc, T.Term) and T.show(e["xs"], 12) == T.show(fc, 12)):
        return False, "the pass does not run over the forward transitions of the grid"

    def part(t, idx):
        if not (isinstance(t, T.Term) and t.op == "getitem" and t.args[1] == idx):
            return False
        mc = t.args[0]
        return isinstance(mc, T.Term) and mc.op == "mcall" and mc.args[1] == "revert" and mc.args[0] is e["x"] and len(mc.args) > 2 and mc.args[2] is e["carry"]

    if not (part(e["new_carry"], 0) and part(e["y"], 1)):
        return None, f"the body of the pass is not (marginal, conditional) = transition_k.revert(carried marginal): carry' = {T.show(e['new_carry'], 3)}, y = {T.show(e['y'], 3)}"
    if it.getattr(res_b, "marginal", None) is not e["final"] or it.getattr(res_b, "conditional", None) is not e["ys"]:
        return False, "the stored factors are not (final marginal, stacked reversals) of the pass"
    return True, "one forward pass from prior.init that reverts the k-th transition at the carried marginal; stored: the law at the last grid point and the stacked reversals"


def prior_grid_rules(chk, S):
    """Prior samples on a grid follow the prior's joint law: from_grid must discretise with a unit calibrated scale *by value*."""
    from ..harness import BLOCK, DENSE, ISO

    r3 = chk.rule("R-C13-3", "MarkovSequence.from_grid: every transition of the prior sequence uses an all-ones calibrated output scale (the prior's own base scale only)", floor=3)
    r5 = chk.rule("R-C13-5", "MarkovSequence.from_grid: the factors of a reverse=True sequence are not the forward factors under another label (the same (marginal, conditionals) cannot be both the forward and the backward factorisation of one law)", floor=3)
    for fam, mod, ncls, rank in (("dense", DENSE, "DenseNormal", 1), ("isotropic", ISO, "IsotropicNormal", 2), ("blockdiag", BLOCK, "BlockDiagNormal", 2)):
        it = S.interp()
        mf = T.atom(f"pg_mean_{fam}", ndims={"": rank})
        mf.meta["ndim"] = rank
        cf = T.atom(f"pg_chol_{fam}", ndims={"": rank + 1})
        cf.meta["ndim"] = rank + 1
        init = it.instantiate(it.class_value(f"{mod}.{ncls}"), [mf, cf, A("tf")], {}, "<harness>")
        if fam == "blockdiag":
            it.method_hooks[f"{mod}.{ncls}._mean_batched"] = lambda itp, fn, a, kw, site: [T.atom("pg_coef0", array=True), T.atom("pg_coef1", array=True)]

        def attr_hook(name, _init=init):
            return _init if name == "init" else None

        pcv = it.class_value(f"{mod}." + {"dense": "DenseWienerIntegrated", "isotropic": "IsotropicWienerIntegrated", "blockdiag": "BlockDiagWienerIntegrated"}[fam])
        _own, pinit = it.find_method_node(pcv, "__init__")
        pa = pinit.args
        pos = [init if a_.arg == "init" else A(f"prior.{a_.arg}") for a_ in (pa.posonlyargs + pa.args)[1:]]
        kws = {a_.arg: (init if a_.arg == "init" else A(f"prior.{a_.arg}")) for a_ in pa.kwonlyargs}
        prior = it.instantiate(pcv, pos, kws, "<harness>")
        calls = []

        def tr_hook(itp, fn, a, kw, site, _c=calls):
            _c.append(kw)
            return T.atom("transition_k")

        it.method_hooks[f"{mod}.{prior.cls.info.name}.transition"] = tr_hook
        cv = it.class_value(MS)
        try:
            res = it.call(it.getattr(cv, "from_grid", None), [prior], {"grid": A("grid"), "reverse": False}, "<harness>")
            vm = [e for e in it.events if e["kind"] == "vmap"]
            if len(vm) != 1:
                r3.unknown(f"from_grid [{fam}]", f"{len(vm)} vmapped transitions", EST_)
                continue
            scale_arg = vm[0]["args"][1] if len(vm[0]["args"]) > 1 else None
        except AnalysisError as e:
            r3.unknown(f"from_grid [{fam}]", str(e), EST_)
            continue
        # the direction: a backward factorisation of the prior's law on the grid starts from the law at the LAST grid point and conditions
        # earlier on later states; the forward factors (prior.init, x(t_k+1) | x(t_k)) under the label reverse=True are another law
        n_fwd = len(calls)
        n_ev = len(it.events)
        try:
            res_b = it.call(it.getattr(cv, "from_grid", None), [prior], {"grid": A("grid"), "reverse": True}, "<harness>")
            same_marginal = it.getattr(res_b, "marginal", None) is it.getattr(res, "marginal", None)
            same_steps = [T.show(k) for k in map(lambda kw_: tuple(sorted(kw_.items(), key=lambda x: x[0])), calls[n_fwd:])] == [T.show(k) for k in map(lambda kw_: tuple(sorted(kw_.items(), key=lambda x: x[0])), calls[:n_fwd])]
            lab_f, lab_b = it.getattr(res, "reverse", None), it.getattr(res_b, "reverse", None)
            if lab_f is not False or lab_b is not True:
                r5.unknown(f"from_grid [{fam}] reverse=True is a backward factorisation of the same law", f"labels {lab_f!r}, {lab_b!r}", EST_)
            elif not (same_marginal and same_steps):
                okb, detb = _is_reversal_pass(it, n_ev, init, res, res_b)
                r5.require(okb, f"from_grid [{fam}] reverse=True is a backward factorisation of the same law" + ("" if okb else " [construction of the backward factors]"), detb, detb, EST_, {"factorisation": fam})
            else:
                r5.require(False, f"from_grid [{fam}] reverse=True is a backward factorisation of the same law [forward factors relabelled]", "",
                           "from_grid(reverse=True) returns prior.init and the forward transitions x(t_k+1) | x(t_k) of reverse=False, relabelled as backward conditionals: the exact initial condition sits at "
                           "the last grid point and the sequence is not the prior's law on the grid", EST_, {"factorisation": fam})
        except RaiseSignal as e:
            r5.ok(f"from_grid [{fam}] reverse=True is a backward factorisation of the same law", f"reverse=True is rejected loudly ({e.exc})", EST_)
        except AnalysisError as e:
            r5.unknown(f"from_grid [{fam}] reverse=True is a backward factorisation of the same law", str(e), EST_)
        S.absorb(it)
        ok = isinstance(scale_arg, T.Term) and scale_arg.op in ("np.ones", "np.ones_like") and not T.value_atoms(scale_arg)
        r3.require(ok, f"from_grid [{fam}] unit calibrated scale", f"output_scale = {T.show(scale_arg, 3)}", f"the transitions are discretised with output_scale = {T.show(scale_arg, 3)}, which is not an all-ones array by value: "
                   "the sampled prior's process noise is scaled by it", EST_, {"factorisation": fam})


EST_ = "probdiffeq/_probdiffeq/estimators_and_losses.py"


def run(chk, S: Session):
    _run_own(chk, S)
    from ..harness import borrow

    rb = chk.rule("R-C13-B", "clause of this statement decided by rules of C08 (applying a backward conditional to a sample is the exact affine map)", floor=6)
    borrow(chk, S, rb, "C08", lambda r, c: (r in ("R-C08-1", "R-C08-4")) and "apply_flat" in c)
    rb2 = chk.rule("R-C13-B2", "'requested sample shapes are prepended': a Normal with extra leading axes draws by mapping the same sampling method over one axis at a time (rule of C15)", floor=6)
    borrow(chk, S, rb2, "C15", lambda r, c: r == "R-C15-4" and "sample" in c)
    rb3 = chk.rule("R-C13-B3", "a sequence that still carries its filtering marginals is sampled from its terminal marginal: remove_filtering_distributions keeps the entry the backward (forward) factorisation starts from (rule of C03)", floor=2)
    borrow(chk, S, rb3, "C03", lambda r, c: (r == "R-C03-1" and "remove_filtering_distributions" in c) or (r == "R-C03-3" and "keeps the direction" in c))
