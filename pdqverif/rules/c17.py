"""C17 -- Jacobian handlers: block layouts with n_in != n_out != d, estimator structure, key advance."""

from __future__ import annotations

from .. import adomain as AD
from .. import nf
from .. import terms as T
from ..harness import BLOCK, ISO, JAC, A, Rec, Session, call, method
from ..interp import HarnessFn
from ..model import AnalysisError

EXPLANATION = (
    "Symbolic shape inference (domain A, distinct symbols n_in, n_out, d, probes) of all nine handler methods: materialize_dense returns "
    "(n_out, d, n_in, d); calculate_trace_along_d returns (n_out, n_in) by contracting the two d axes; calculate_diagonal_along_d returns "
    "(d, n_out, n_in) by pairing them; the three handler classes agree with each other and with their consumers (isotropic: (n_out,n_in) @ (n,d); "
    "block-diagonal: einsum 'din,dn->di').  For the Monte-Carlo handlers: the estimate is the mean over the probe axis of a product of the probe "
    "array with its own image under the (transposed) Jacobian, probes are Rademacher of shape (num_probes, n_in|n_out, d), the function value is "
    "un-probed; a drawing method splits its key, draws with the sub-key and returns the other half.  A transposed block is a shape error even "
    "though square test cases hide it."
)
LEVEL = "other"
TECHNIQUE = "symbolic shape inference over the abstract interpreter's terms (typed einsum / vmap / linearize / vjp), sibling cross-check, provenance of PRNG keys"
LEVEL_TEXT = (
    "Layout and estimator structure are decided for all n_in, n_out, d and all smooth maps; exact unbiasedness over the 2^(n*d) probes needs enumeration and is not claimed."
)
LEVEL_NOTE = "Trusted: jacfwd/jacrev give output axes followed by input axes; linearize/vjp give JVP / VJP closures; np.mean(axis=0) averages the probe axis."


def setup(S, cls):
    it = S.interp()
    env = AD.AEnv()
    it.ndim_oracle = env.rank_of
    AD.install_vmap(it, env)
    AD.install_ad(it, env)
    n_in, n_out, d = AD.dim("n_in"), AD.dim("n_out"), AD.dim("d")
    x = T.atom("x", array=True)
    env.declare(x, AD.AT([AD.axis(n_in), AD.axis(d)]))

    applications = []

    def fun(itp, a, kw, site):
        applications.append((a[0], dict(kw), site))
        o = T.mk("call", (A("fun"), a[0]), kw, meta={"array": True})
        ta = env.of(a[0])
        if ta is not None and ta.rank == 2 and AD.same_size(ta.axes[0].size, n_in) and AD.same_size(ta.axes[1].size, d):
            env.declare(o, AD.AT([AD.axis(n_out), AD.axis(d)]))
        return o

    h = it.instantiate(it.class_value(f"{JAC}.{cls}"), [], {"num_probes": A("num_probes")} if "monte" in cls else {}, "<harness>")
    hf = HarnessFn("fun", fun)
    hf.applications = applications
    return it, env, h, x, hf, (n_in, n_out, d)


def shape_of(env, v):
    t = env.of(v)
    return None if t is None else [nf.show(ax.size) for ax in t.axes]


def run(chk, S: Session):
    chk.trust("jacfwd/jacrev: output axes then input axes", "linearize / vjp closures", "np.mean(axis=0)")
    r1 = chk.rule("R-C17-1", "block layout of the three reductions for all handlers (n_in != n_out != d); siblings and consumers agree", floor=20)
    r2 = chk.rule("R-C17-2", "Monte-Carlo estimators: mean over the probe axis of probe x (J probe) / (J^T probe) x probe, same probe array, un-probed function value", floor=12)
    r3 = chk.rule("R-C17-3", "key discipline: split, draw with the sub-key, return the other half; every solver step threads the returned state into the next call", floor=12)
    handlers = [c.name for c in S.p.subclasses(JAC + ".Jacobian")]
    if len(handlers) < 3:
        raise AnalysisError("expected >= 3 Jacobian handlers")
    want = {
        "materialize_dense": ["n_out", "d", "n_in", "d"],
        "calculate_trace_along_d": ["n_out", "n_in"],
        "calculate_diagonal_along_d": ["d", "n_out", "n_in"],
    }
    for cls in handlers:
        for meth, shp in want.items():
            it, env, h, x, fun, (n_in, n_out, d) = setup(S, cls)
            state = A("key") if "monte" in cls else A("state")
            cfg = {"handler": cls, "method": meth}
            kw_t = A("kw_t")
            try:
                out = call(it, method(it, h, meth), fun, x, state, t=kw_t)
            except AnalysisError as e:
                r1.unknown(f"{cls}.{meth}", str(e), JAC, cfg)
                continue
            S.absorb(it)
            # the function that is differentiated is the function that is evaluated: every application of `fun` -- inside jacfwd / linearize / vjp as well --
            # carries the caller's keyword arguments (the solver passes the time this way)
            apps = fun.applications  # every application the interpreter performed, inside jacfwd / linearize / vjp / eval_shape as well
            bare = [(a_, k_, s_) for a_, k_, s_ in apps if k_.get("t") is not kw_t]
            r2.require(bool(apps) and not bare, f"{cls}.{meth} keyword arguments reach every evaluation", f"{len(apps)} application(s) of fun, all with the caller's keyword arguments",
                       f"{len(bare)} of {len(apps)} application(s) of fun without the caller's keyword arguments (first at {bare[0][2] if bare else '-'}): the Jacobian is taken of a different function than the one evaluated", bare[0][2] if bare else JAC, cfg)
            if not (isinstance(out, (tuple, list)) and len(out) == 3):
                r1.fail(f"{cls}.{meth}", f"does not return (fx, J, state): {T.show(out, 2)}", JAC, cfg)
                continue
            fx, J, st = out
            sf, sj = shape_of(env, fx), shape_of(env, J)
            r1.require(True if sf == ["n_out", "d"] else (None if sf is None else False), f"{cls}.{meth} function value", f"fx : {sf}", f"fx has shape {sf}; expected (n_out, d)", JAC, cfg)
            r1.require(True if sj == shp else (None if sj is None else False), f"{cls}.{meth} block layout", f"J : {sj}", f"returned block has shape {sj}; expected {shp}", getattr(J, "origin", None) or JAC, cfg)
            for e in env.errors:
                r1.fail(f"{cls}.{meth} [{e.what}]", e.detail, getattr(e.term, "origin", None) or JAC, cfg)
            # function value is the un-probed evaluation at x
            rads = [t for t in T.subterms(out) if t.op == "random.rademacher"]
            if "monte" in cls and meth != "materialize_dense":
                r2.require(len(rads) == 1, f"{cls}.{meth} one probe array", "", f"{len(rads)} draws", JAC, cfg)
                if len(rads) == 1:
                    R = rads[0]
                    r2.require(R not in list(T.subterms(fx)), f"{cls}.{meth} un-probed function value", "fx does not depend on the probes", "function value depends on the probes", JAC, cfg)
                    sr = shape_of(env, R)
                    want_r = ["num_probes", "n_in" if "fwd" in cls else "n_out", "d"]
                    r2.require(sr == want_r, f"{cls}.{meth} probe shape", f"probes : {sr}", f"probes have shape {sr}; expected {want_r}", JAC, cfg)
                    # J = mean over axis 0 of a product of R and its image
                    means = [t for t in T.subterms(J) if t.op == "np.mean"]
                    okm = len(means) == 1 and means[0].kwargs.get("axis", None) == 0
                    prod = means[0].args[0] if okm else None
                    okp = False
                    if prod is not None and prod.op in ("mul", "matmul", "np.einsum", "linalg.einsum"):
                        ops_ = prod.args if prod.op in ("mul", "matmul") else prod.args[1:]

                        def root(t):
                            # the operand itself, seen through indexing and axis permutations (a batched `v @ transpose(w)` is the same contraction as
                            # the einsum; the layout of the result is R-C17-1's business)
                            while isinstance(t, T.Term) and (t.op == "getitem" or (t.op == "np.transpose" and t.args) or (t.op == "attr" and t.args[1] in ("T", "mT"))):
                                t = t.args[0]
                            return t

                        roots = [root(o) for o in ops_]
                        direct = [r_ for r_ in roots if r_ is R]
                        images = [r_ for r_ in roots if r_ is not R and isinstance(r_, T.Term) and r_.op == "vmap_out" and R in list(T.subterms(_vmap_args(it, r_)))]
                        okp = len(direct) == 1 and len(images) == 1
                    r2.require(okm and okp, f"{cls}.{meth} estimator", "mean over probes of (probe) x (Jacobian image of the same probe)", f"estimate = {T.show(J, 5)}", getattr(J, "origin", None) or JAC, cfg)
                    # key discipline
                    key = state
                    sp = T.mk("random.split", (key, 2))
                    r3.require(R.args[0] is T.mk("getitem", (sp, 1)) and st is T.mk("getitem", (sp, 0)), f"{cls}.{meth} key", "draw with split(key)[1], return split(key)[0]", f"draw key {T.show(R.args[0], 3)}, returned {T.show(st, 3)}", JAC, cfg)
            else:
                r2.require(not rads, f"{cls}.{meth} deterministic", "no probes", f"{len(rads)} draws", JAC, cfg)
                # a method that draws nothing may return its state unchanged (what the library does) or advance the key anyway (the literal reading of
                # "advance their random key on every call"): both keep every later draw independent of the earlier ones
                advanced = isinstance(st, T.Term) and st.op == "getitem" and isinstance(st.args[0], T.Term) and st.args[0].op == "random.split" and st.args[0].args[0] is state
                r3.require(st is state or advanced, f"{cls}.{meth} state", "state passed through (no draw) or advanced by a split", f"{T.show(st, 2)}", JAC, cfg)
            if len(chk.samples) < 6:
                chk.sample({"config": cfg, "fx": sf, "J": sj})
    # seen from the solver: each step hands the constraint state (the key) on -- first linearisation from state.auxiliary, later ones from
    # the previous call's returned state, and the last returned state is what the step stores
    from .c02 import linearisation_threading
    for construct, ok, detail, where, cfg in linearisation_threading(S):
        r3.require(ok, construct, detail, f"constraint state not threaded: {detail}", where, cfg)
    # initial state chain: handler.init_jacobian_handler() -> <Residual>.init_linearization() -> error estimator init_error()
    from ..harness import DENSE, SOLVERS
    for cls in handlers:
        it = S.interp()
        h = it.instantiate(it.class_value(f"{JAC}.{cls}"), [], {"seed": A("seed")} if "monte" in cls else {}, "<harness>")
        try:
            st0 = call(it, method(it, h, "init_jacobian_handler"))
        except AnalysisError as e:
            r3.unknown(f"{cls}.init_jacobian_handler", str(e), JAC)
            continue
        if "monte" in cls:
            ok0 = isinstance(st0, T.Term) and st0.op == "random.prng_key" and (st0.kwargs.get("seed") is A("seed") or (st0.args and st0.args[0] is A("seed")))
            r3.require(ok0, f"{cls}.init_jacobian_handler", "a PRNG key made from the handler's seed", f"{T.show(st0, 3)}", JAC, {"handler": cls})
        else:
            r3.require(not isinstance(st0, T.Term) or not T.atoms_of(st0), f"{cls}.init_jacobian_handler", "stateless", f"{T.show(st0, 3)}", JAC, {"handler": cls})
        S.absorb(it)
    for mod_, rcls in ((DENSE, "DenseResidual"), (ISO, "IsotropicResidual"), (BLOCK, "BlockDiagResidual")):
        it = S.interp()
        from .c11 import mk_res
        res = mk_res(it, 2)
        kw = {"taylor_point": A("tp")} if rcls == "DenseResidual" else {}
        lin = it.instantiate(it.class_value(f"{mod_}.{rcls}"), [res], kw, "<harness>")
        st0 = call(it, method(it, lin, "init_linearization"))
        r3.require(st0 is T.mk("mcall", (A("jac"), "init_jacobian_handler")), f"{rcls}.init_linearization", "the residual's own handler's initial state", f"{T.show(st0, 3)}", mod_)
        S.absorb(it)
    for ecls in ("error_residual_std", "error_state_std"):
        ci = S.p.find_class(f"{SOLVERS}.{ecls}")
        if ci is None:
            r3.unknown(f"{ecls}.init_error", "class not found", SOLVERS)
            continue
        it = S.interp()
        init_node = ci.methods.get("__init__")
        kws = {a_.arg: A(f"e.{a_.arg}") for a_ in (init_node.args.kwonlyargs if init_node else [])}
        pos = [A(f"e.{a_.arg}") for a_ in (init_node.args.args[1:] if init_node else [])]
        try:
            est = it.instantiate(it.class_value(f"{SOLVERS}.{ecls}"), pos, kws, "<harness>")
            st0 = call(it, method(it, est, "init_error"))
        except AnalysisError as e:
            r3.unknown(f"{ecls}.init_error", str(e), SOLVERS)
            continue
        r3.require(st0 is T.mk("mcall", (A("e.constraint"), "init_linearization")), f"{ecls}.init_error", "the estimator's own constraint's initial state", f"{T.show(st0, 3)}", SOLVERS)
        S.absorb(it)
    # rejection of malformed inputs: the Jacobian-handler rows of the guard table (defined in rules/c20.py) are part of this property's statement
    from .c20 import eval_row, rows
    r4 = chk.rule("R-C17-4", "inputs / outputs that are not 2-d arrays with matching trailing dimension are rejected by every handler method (rows of the C20 guard table)", floor=30)
    for row in rows(S):
        if row.group == "Jacobian handlers":
            eval_row(chk, S, r4, row)
    # consumers: the isotropic / block-diagonal residual linearisations contract the block with the mean in the handler's layout
    from .c11 import _rfun_list, consumer_shapes, mk_res, strip_layout
    from ..harness import mcalls
    for qual, handler_m in ((ISO + ".IsotropicResidual", "calculate_trace_along_d"), (BLOCK + ".BlockDiagResidual", "calculate_diagonal_along_d")):
        it = S.interp()
        res = mk_res(it, 2, rfun=_rfun_list())
        lin = it.instantiate(it.class_value(qual), [res], {}, "<harness>")
        rv = A("rv")
        out = call(it, method(it, lin, "linearize"), rv, A("lin_state"), damp=A("damp"), t=A("t"))
        hs = mcalls(out, handler_m, A("jac"))
        name = qual.rsplit(".", 1)[1]
        if len(hs) != 1:
            r1.fail(f"{name} consumes {handler_m}", f"{len(hs)} calls of the handler", qual)
            continue
        fx = T.mk("getitem", (hs[0], 0))
        subs = [t for t in T.subterms(out) if t.op == "sub" and fx in list(T.subterms(t.args[0])) and T.mk("getitem", (hs[0], 1)) in list(T.subterms(t.args[1]))]
        if not subs:
            r1.unknown(f"{name} consumes {handler_m}", "offset f - J*m not found", qual)
            continue
        okc, det = consumer_shapes(name, hs[0], rv, subs[0])
        r1.require(okc, f"{name} consumes {handler_m}", det, det, qual)
    # an option passed to a constructor arrives in the attribute of its own name (the rules above read options through those attributes)
    from .ctor_wiring import ctor_wiring_rules

    rcw = chk.rule("R-C17-W", "constructor wiring of the Jacobian handlers: every attribute that carries a constructor parameter's name holds that parameter, not another one", floor=5)
    ctor_wiring_rules(chk, S, rcw, [c.qualname for c in S.p.subclasses(JAC + ".Jacobian")])
    # a handler that takes the differentiation routine as an option differentiates with it, in each of its three methods (F34: the option was stored and func.jacfwd hard-coded)
    for c in S.p.subclasses(JAC + ".Jacobian"):
        init_node = c.methods.get("__init__")
        if init_node is None or "jacfun" not in [a_.arg for a_ in init_node.args.args + init_node.args.kwonlyargs]:
            continue
        for meth in want:
            it2 = S.interp()
            jf = A("option.jacfun")
            try:
                h2 = it2.instantiate(it2.class_value(c.qualname), [], {"jacfun": jf}, "<harness>")
                out2 = call(it2, method(it2, h2, meth), HarnessFn("fun", lambda itp, a, kw, site: T.mk("call", (A("fun"), a[0]), kw, meta={"array": True})), T.atom("x", array=True), A("state"))
            except AnalysisError as e:
                rcw.unknown(f"{c.name}.{meth} differentiates with the configured jacfun", str(e), JAC)
                continue
            J2 = out2[1] if isinstance(out2, (tuple, list)) and len(out2) == 3 else None
            used = J2 is not None and "option.jacfun" in T.atoms_of(J2)
            rcw.require(used, f"{c.name}.{meth} differentiates with the configured jacfun", "the returned block depends on the option", f"the returned block {T.show(J2, 3) if J2 is not None else out2!r} does not depend on the option `jacfun`: "
                        "another differentiation routine is hard-coded (a map with a reverse-mode rule only raises, a user-supplied routine is never called)", JAC, {"handler": c.name, "method": meth})

def _vmap_args(it, vm_out):
    """The arguments of the vmapped call that produced a vmap_out term (recorded in the interpreter's events)."""
    eid = vm_out.args[0]
    vs = [e for e in it.events if e["kind"] == "vmap"]
    # the typed vmap hook numbers its applications in order
    if 0 < eid <= len(vs):
        return vs[eid - 1]["args"]
    return []
