"""C10 -- Taylor-coefficient initialisation: explicit time is a differentiated input."""

from __future__ import annotations

from .. import terms as T
from .. import xdomain
from ..harness import JETEXP, PROBLEMS, A, Rec, Session
from ..interp import RaiseSignal
from ..model import AnalysisError

EXPLANATION = (
    "Abstract interpretation of the five jetexpand_* routines (vector field opaque, flat and pytree initial values): every "
    "func.jet / func.jvp / func.linearize site reached is recorded; the differentiated callable is re-evaluated on probe "
    "inputs and every vector-field evaluation inside must take t from a differentiated input that the site pairs with the "
    "caller's time and the unit series (1, 0, ..., 0) -- a time taken from a closure is reported (d/dt of a non-autonomous "
    "right-hand side would be dropped).  Plus: jet-lifted ODEs are rejected before use, the type check of the decorated "
    "routines is passed on every path, the pytree wrapper forwards t and un-/re-ravels with the same unravel.  "
    "Derivative-order typestate (domain J, jdomain.py): the three Taylor-mode / recursive-JVP routines are interpreted on the symbols D(j) = u^(j)(t0) with the "
    "documented semantics of jet and jvp (exactness per order, equal series lengths, tangents = time derivative of the primals along the flow, differentiated "
    "callables re-evaluated on probes so that a closure over the initial values is not mistaken for a function); each must return exactly (D0, ..., D_{k-1+num}) for "
    "ODE orders k = 1..3 and num = 1..6 -- loop counts, padding, slices, series alignment and the recursion g_{n+1} = d/dt g_n are thereby decided."
    "  The residual-based routine: the chain jetexpand_residual -> default Gauss-Newton -> default lstsq -> backend primitive must not end in a rank cutoff (known finding: it does)."
)
LEVEL = "other"
TECHNIQUE = "abstract interpretation over the AST: differentiation-coverage (closure/provenance) analysis of Taylor-mode call sites, must-pass-through guard tracking, derivative-order typestate of the Taylor recursions over a finite grid of static parameters"
LEVEL_TEXT = (
    "A necessary condition of exactness for time-dependent vector fields, decided for every vector field at once: the recursion differentiates "
    "along (u, t), not along u only.  With the typestate the three non-experimental routines are shown to return the exact derivatives (given exact jet/jvp), hence to agree with one another, "
    "on the grid k = 1..3, num = 1..6; the doubling routine (normalised coefficients, linearised jet) and the residual-based routine are outside the typed fragment."
)
LEVEL_NOTE = (
    "Trusted: jax.experimental.jet / jax.jvp propagate the series/tangents they are given.  Only differentiation in the direction d/dt "
    "(inputs derived from a Taylor-coefficient list) is in scope; the residual-based routine's optimisation result is C19's structure, not its value."
)

ROUTINES = [
    ("jetexpand_ode_padded_scan", {"num": 3}),
    ("jetexpand_ode_unroll", {"num": 3}),
    ("jetexpand_ode_via_jvp", {"num": 3}),
    ("jetexpand_ode_doubling_unroll", {"num_doublings": 2}),
]


def make_vf(it, lifted=False, order=1):
    cv = it.class_value(PROBLEMS + ".JetOde")
    out = [order, order + 1] if lifted else [order]
    return it.instantiate(cv, [A("vfield")], dict(jacobian=A("jac"), num_tcoeffs_in_args=order, tcoeff_indices_output=out), "<harness>")


def is_vf_call(t):
    return t.op == "call" and t.args[0] is A("vfield")


def _jet_convention(r1, rname, ev, conv_seen, cfg):
    """Derivative convention everywhere, except the doubling recursion, which works on normalised coefficients and rescales once at the end."""
    conv_seen.add((str(ev["site"]), "convention"))
    normalised = bool(ev.get("is_tcoeff", False))
    in_doubling = rname == "jetexpand_ode_doubling_unroll"
    caller = str(ev["caller"])
    r1.require(normalised == in_doubling, f"func.jet convention at {caller.rsplit('.', 1)[-1]} [{rname}]",
               "normalised coefficients in the doubling recursion (rescaled by k! at the end), derivatives everywhere else",
               f"is_tcoeff={normalised} in {rname}: " + ("the doubling recursion divides by the coefficient index and multiplies by k! at the end, which assumes normalised coefficients" if in_doubling else "this routine returns what jet returns: derivatives"), ev["site"], cfg)


def _run_own(chk, S: Session):
    chk.trust("func.jet(f, primals, series) / func.jvp(f, primals, tangents) differentiate f along the given series / tangents")
    r1 = chk.rule("R-C10-1", "explicit time is a differentiated input (unit series/tangent) at every Taylor-mode differentiation site", floor=10)
    r2 = chk.rule("R-C10-2", "routines reject jet-lifted ODEs / non-ODE inputs before use; pytree wrapper forwards t and re-ravels consistently", floor=10)
    r3 = chk.rule("R-C10-3", "derivative-order typestate: each recursion returns exactly (u, u', ..., u^(k-1+num)) of the true solution, for ODE orders k = 1..3 and num = 1..6 (jet / jvp semantics trusted)", floor=50)
    order_typestate_rules(chk, S, r3)
    jm = S.p.module(JETEXP)
    names = [n for n, _ in ROUTINES]
    for n in names + ["jetexpand_residual"]:
        if n not in jm.functions:
            raise AnalysisError(f"{JETEXP}.{n} not found (anchor vanished)")
    other = sorted(n for n in jm.functions if n.startswith("jetexpand_ode_") and n not in names and "coefficient" not in n)
    if other:
        raise AnalysisError(f"new Taylor routine(s) {other} are not covered by the scenario table; extend rules/c10.py")
    sites_seen = set()
    conv_seen = set()
    for rname, kw in ROUTINES:
        for mode in ("flat", "pytree"):
            for order in (1, 2):
                if rname == "jetexpand_ode_doubling_unroll" and order == 2:
                    continue  # first-order only by construction ((u0,) = inits)
                cfg = {"routine": rname, "inits": mode, "order": order}
                it = S.interp()
                xdomain.install(it)
                vf = make_vf(it, order=order)
                mk = it.function_value(f"{JETEXP}.{rname}")
                alg = it.call(mk, [], kw, "<harness>")
                inits = [T.atom(f"u{i}_{mode}", array=(mode == "flat")) for i in range(order)]
                tt = A("t")
                try:
                    res = it.call(alg, [vf, inits], {"t": tt}, "<harness>")
                except RaiseSignal as e:
                    r1.fail(f"{rname} ({mode}, order {order})", f"raises {e.exc} at {e.site} for a valid problem", e.site, cfg)
                    continue
                S.absorb(it)
                evs = list(it.diff_events)
                if not evs:
                    r1.unknown(f"{rname} ({mode}, order {order})", "no differentiation site reached", config=cfg)
                    continue
                # plain (non-differentiated) evaluations of the vector field must be at the caller's time
                for c in [t for t in T.subterms(res) if is_vf_call(t)]:
                    tv = c.kwargs.get("t")
                    r1.require(tv is tt, f"{rname} direct evaluation at t", "f evaluated at the caller's t", f"vector field evaluated at t={T.show(tv, 3)}", c.origin, cfg)
                it.diff_events = []
                for ev in evs:
                    for ok, construct, detail in xdomain.check_event(it, ev, is_vf_call, tt, sites=sites_seen):
                        r1.require(ok, f"{construct}", detail, detail, ev["site"], cfg)
                for ev_ in getattr(it, "jet_conventions", []):
                    if (str(ev_["site"]), "convention") not in conv_seen:
                        _jet_convention(r1, rname, ev_, conv_seen, cfg)
                it.jet_conventions = []
                # pytree mode: results are un-raveled with the unravel of the first initial value
                if mode == "pytree":
                    coeffs = res[0] if isinstance(res, (tuple, list)) else None
                    leaves = list(coeffs) if isinstance(coeffs, (list, tuple)) else []
                    unr = [x for x in leaves if x is inits[0] or (isinstance(x, T.Term) and x.op == "call" and isinstance(x.args[0], T.Term) and x.args[0].op == "unravel_of" and x.args[0].args[0] is inits[0])]
                    r2.require(len(leaves) > 0 and len(unr) == len(leaves), f"{rname} pytree outputs (order {order})", "every coefficient is un-raveled with the unravel of inits[0]",
                               f"outputs: {[T.show(x, 2) for x in leaves[:4]]}", JETEXP, cfg)
                    flat_args = [c for c in T.subterms(res) if is_vf_call(c)]
                    okw = all(isinstance(j, T.Term) and (j in inits or (j.op == "call" and j.args[0].op == "unravel_of")) for c in flat_args for j in (c.kwargs.get("jet_coords") or ()))
                    r2.require(okw or not flat_args, f"{rname} pytree inputs (order {order})", "the user's vector field receives un-raveled states", "", JETEXP, cfg)
        # guards
        it = S.interp()
        vfl = make_vf(it, lifted=True)
        mk = it.function_value(f"{JETEXP}.{rname}")
        alg = it.call(mk, [], kw, "<harness>")
        try:
            it.call(alg, [vfl, [T.atom("u0_flat", array=True)]], {"t": A("t")}, "<harness>")
            r2.fail(f"{rname} rejects jet-lifted ODEs", "no exception for a jet-lifted ODE", JETEXP)
        except RaiseSignal as e:
            used = [t for t in it.prim_used if t.startswith("func.j")]
            r2.require(getattr(e.exc, "cls_name", "") == "ValueError" and not used, f"{rname} rejects jet-lifted ODEs", "ValueError before any differentiation",
                       f"raises {e.exc}; primitives used before: {used}", e.site)
        if rname != "jetexpand_ode_doubling_unroll":
            it = S.interp()
            alg = it.call(it.function_value(f"{JETEXP}.{rname}"), [], kw, "<harness>")
            try:
                it.call(alg, [A("not_an_ode"), [T.atom("u0_flat", array=True)]], {"t": A("t")}, "<harness>")
                g = [x for x in it.cur_guards if x["exc"] == "TypeError" and "not_an_ode" in T.atoms_of(x["cond"])]
                r2.require(bool(g), f"{rname} type check", "TypeError guard on the vector-field type passed on every path", f"guards: {[(x['exc'], T.show(x['cond'], 2)) for x in it.cur_guards]}", JETEXP)
            except RaiseSignal as e:
                r2.require(getattr(e.exc, "cls_name", "") == "TypeError", f"{rname} type check", "TypeError", f"raises {e.exc}", e.site)
            except AnalysisError as e:
                r2.unknown(f"{rname} type check", str(e), JETEXP)
    r1.require(len(sites_seen) >= 4, "differentiation sites covered", f"{len(sites_seen)} distinct sites analysed", f"only {len(sites_seen)} differentiation sites reached; expected >= 4", JETEXP)
    chk.extra["differentiation_sites"] = sorted(f"{a} {b} @ {c}" for a, b, c in sites_seen)
    chk.sample({"sites": chk.extra["differentiation_sites"]})
    # num == 0 returns the initial values unchanged
    for rname, kw in ROUTINES[:3]:
        it = S.interp()
        alg = it.call(it.function_value(f"{JETEXP}.{rname}"), [], {"num": 0}, "<harness>")
        u0 = T.atom("u0_flat", array=True)
        res = it.call(alg, [make_vf(it), [u0]], {"t": A("t")}, "<harness>")
        r2.require(isinstance(res, (tuple, list)) and list(res[0]) == [u0], f"{rname} num=0", "returns the initial values", f"{T.show(res, 2)}", JETEXP)


TYPED_ROUTINES = ("jetexpand_ode_padded_scan", "jetexpand_ode_unroll", "jetexpand_ode_via_jvp")


def order_typestate_rules(chk, S, r3):
    from .. import jdomain as JD

    for rname in TYPED_ROUTINES:
        for k in (1, 2, 3):
            for num in (1, 2, 3, 4, 5, 6):
                cfg = {"routine": rname, "ode_order": k, "num": num}
                it = S.interp()
                t0 = A("t0")
                env = JD.JEnv(it, k, t0)
                JD.install(it, env)
                vf = it.instantiate(it.class_value(PROBLEMS + ".JetOde"), [env.vector_field()], dict(jacobian=A("jac"), num_tcoeffs_in_args=k, tcoeff_indices_output=[k]), "<harness>")
                construct = f"{rname} k={k} num={num}"
                try:
                    alg = it.call(it.function_value(f"{JETEXP}.{rname}"), [], {"num": num}, "<harness>")
                    res = it.call(alg, [vf, [env.D(i) for i in range(k)]], {"t": t0}, "<harness>")
                except RaiseSignal as e:
                    r3.fail(construct, f"raises {e.exc} at {e.site} for a valid problem", e.site, cfg)
                    continue
                except AnalysisError as e:
                    r3.unknown(construct, str(e), JETEXP, cfg)
                    continue
                S.absorb(it)
                coeffs = res[0] if isinstance(res, (tuple, list)) and len(res) == 2 else None
                if not isinstance(coeffs, (list, tuple)):
                    r3.unknown(construct, f"result is not a static list of coefficients: {T.show(res, 3)}", JETEXP, cfg)
                    continue
                got = [env.order_of(c) for c in coeffs]
                want = list(range(k + num))
                if env.violations:
                    what, detail, site = env.violations[0]
                    r3.fail(f"{construct} [{what}]", detail, site or JETEXP, cfg)
                    continue
                if env.untyped:
                    r3.unknown(construct, f"outside the typed fragment: {env.untyped[0][0]}", env.untyped[0][1] or JETEXP, cfg)
                    continue
                why = next((d for kind, d, _s in env.notes if kind == "garbage"), "")
                r3.require(got == want, construct, f"returns D0..D{k + num - 1}",
                           f"returns the derivative orders {['?' if g is None else g for g in got]}; expected {want}" + (f" (first inexact value: {why})" if None in got and why else ""), JETEXP, cfg)
        chk.sample({"rule": "R-C10-3", "routine": rname, "grid": "k in 1..3, num in 1..6"})


def run(chk, S: Session):
    _run_own(chk, S)
    residual_routine_rules(chk, S)
    from ..harness import borrow

    rb = chk.rule("R-C10-B", "clause of this statement decided by a rule of C11 (the residual-based routine differentiates through jet_lift: time is a differentiated input there)", floor=6)
    borrow(chk, S, rb, "C11", lambda r, c: r == "R-C11-2")
    # "the residual-based routine recovers the same coefficients for implicit problems": it solves with the Gauss-Newton routine, whose step must be the
    # Gauss-Newton step -- one Jacobian of the constraint at the current iterate (rule of C19)
    rb2 = chk.rule("R-C10-B2", "the residual-based routine's inner solver takes Gauss-Newton steps: Jacobian of the constraint at the current iterate, step formula, first step always taken (rules of C19)", floor=4)
    borrow(chk, S, rb2, "C19", lambda r, c: r == "R-C19-1" or (r == "R-C19-2" and "first step" in c))


def residual_routine_rules(chk, S):
    """The residual-based routine determines all requested coefficients through ONE constrained least-squares problem; its inner solve must not discard
    directions of that (unit lower-triangular, hence exactly solvable, but badly scaled) system."""
    import ast

    from ..harness import TPOINTS

    r4 = chk.rule("R-C10-4", "jetexpand_residual: the linear solve behind the default constrained least-squares solver keeps every direction of the triangular system (no rank cutoff)", floor=1)
    it = S.interp()
    try:
        mk = it.function_value(f"{JETEXP}.jetexpand_residual")
        alg = it.call(mk, [], {"num": 3}, "<harness>")
    except (AnalysisError, RaiseSignal) as e:
        r4.unknown("jetexpand_residual default solver", str(e), JETEXP)
        return
    # the closure's captured solver: re-evaluate the default expression of the parameter
    fn = S.p.module(JETEXP).functions["jetexpand_residual"]
    src = ast.unparse(fn)
    uses_default_gn = "lstsq_constrained_gauss_newton()" in src
    gn = S.p.find_class(TPOINTS + ".lstsq_constrained_gauss_newton")
    init = gn.methods.get("__init__") if gn else None
    default_lstsq = None
    if init is not None:
        for p_, d_ in zip(init.args.kwonlyargs, init.args.kw_defaults):
            if p_.arg == "lstsq" and d_ is not None:
                default_lstsq = ast.unparse(d_)
    if not uses_default_gn or default_lstsq is None:
        r4.unknown("jetexpand_residual default solver", f"default solver chain not recognised (default Gauss-Newton: {uses_default_gn}, default lstsq: {default_lstsq})", JETEXP)
        return
    # resolve the backend primitive and look at how it calls the library routine
    prim_name = default_lstsq.rsplit(".", 1)[-1]
    bm = S.p.module("probdiffeq.backend.linalg")
    bfn = bm.functions.get(prim_name)
    if bfn is None:
        r4.unknown("jetexpand_residual default solver", f"backend function {prim_name} not found", bm.relpath)
        return
    calls = [n for n in ast.walk(bfn) if isinstance(n, ast.Call) and ast.unparse(n.func).endswith("linalg.lstsq")]
    if not calls:
        r4.ok("jetexpand_residual inner solve", f"{default_lstsq} does not go through a rank-revealing lstsq", f"{bm.relpath}:{bfn.lineno}")
        return
    c = calls[0]
    rc = next((k.value for k in c.keywords if k.arg == "rcond"), None)
    keeps_all = rc is not None and isinstance(rc, ast.Constant) and rc.value in (0, 0.0)
    r4.require(keeps_all, "jetexpand_residual inner solve", f"{default_lstsq}: {ast.unparse(c)}",
               f"jetexpand_residual -> lstsq_constrained_gauss_newton() -> lstsq={default_lstsq} -> {ast.unparse(c)}: the default cutoff rcond = eps*max(M, N) discards the smallest singular direction of "
               "H = J L, which is unit lower-triangular (exactly solvable) but has sub-diagonal entries that grow like the Taylor coefficients; the low-order rows are then never enforced",
               f"{bm.relpath}:{c.lineno}")
