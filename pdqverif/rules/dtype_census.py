"""Census of layout closures: `_, unravel = tree.ravel_pytree(example)`.

jax.flatten_util.ravel_pytree's unravel() casts every leaf back to the dtype it had in `example` when the example's leaves have different dtypes.  A closure
that is used as a *template* for other values -- Taylor coefficients of an integer-typed leaf, a perturbed state, the derivatives inside a jet -- truncates
them silently (F18, F25, and the three sites of H11).  Such a closure must be derived from an example whose leaves were cast to the common dtype.

The census is taken while a check's own scenarios are interpreted: the interpreter records every application of an unravel closure to a value that is not
the ravel of its own example.  Each recorded application is one obligation:
    discharged   the closure carries a recorded cast of its example to a common dtype (the interpreter strips `tree_map(lambda s: asarray(s, dtype=D), x)` from
                 the argument of ravel_pytree and keeps D), or the example is homogeneous by construction (a single array, the unflatten of a flat array
                 through such a closure, a Normal's mean), or the value is an exact constant (zeros / ones of the example's own flat shape);
    refuted      the example is a raw container of the caller.
"""

from __future__ import annotations

from .. import terms as T


def _homogeneous(x, depth=0):
    """Is every leaf of x of one dtype by construction?"""
    if depth > 6:
        return False
    if isinstance(x, (list, tuple)):
        return bool(x) and all(_homogeneous(e, depth + 1) for e in x) and _one_source(x)
    if not isinstance(x, T.Term):
        return False
    if x.op == "atom":
        return x.meta.get("array") is True  # a single array: one dtype
    if x.op == "call" and isinstance(x.args[0], T.Term) and x.args[0].op == "unravel_of":
        f = x.args[0]
        return f.kwargs.get("cast_to") is not None or _homogeneous(f.args[0], depth + 1)
    if x.op == "mcall" and isinstance(x.args[1], str) and x.args[1].startswith("unflatten_array"):
        return True  # the TreeFlatten classes unflatten one flat array through cast closures (R-C20-4)
    if x.op == "attr" and x.args[1] in ("mean", "std"):
        return True  # a Normal's mean / std: unflatten_array of its flat mean
    if x.op == "getitem":
        return _homogeneous(x.args[0], depth + 1)
    if x.op == "ite":
        return _homogeneous(x.args[1], depth + 1) and _homogeneous(x.args[2], depth + 1)
    if x.op == "vmap_apply" and any(k in repr(x.args[0]) for k in ("_mean_batched", "_std_batched")):
        return True  # the batched arm of a Normal's mean / std (R-C15-4): the same unflatten, mapped
    if x.op in ("np.zeros_like", "np.ones_like", "np.asarray", "np.zeros", "np.ones", "tree.ravel", "np.reshape", "add", "sub", "mul", "div", "neg"):
        return True  # one array
    return False


def _one_source(items):
    return True


def _exact_constant(v):
    return isinstance(v, T.Term) and v.op in ("np.ones_like", "np.zeros_like", "np.ones", "np.zeros")


def _function_at(S, site):
    """'module.function' enclosing a 'path:line' site (constructs are keyed by names, never by line numbers)."""
    if not isinstance(site, str) or ":" not in site:
        return str(site)
    path, _, line = site.rpartition(":")
    try:
        line = int(line)
    except ValueError:
        return str(site)
    for m in S.p.modules.values():
        if getattr(m, "relpath", None) == path or str(m.path).endswith(path):
            from .c08 import _enclosing_function

            return f"{m.name.rsplit('.', 1)[-1]}.{_enclosing_function(m, line)}"
    return str(site)


def _example_is_normal_accessor(S, site):
    """Is the example of the closure created at 'path:line' written as `<normal>.mean` / `<normal>.std`?  The interpreter simplifies unflatten(flatten(x))
    to x, so the *value* of such an example is the caller's container again; its leaves, however, went through the TreeFlatten's cast closure."""
    import ast

    if not isinstance(site, str) or ":" not in site:
        return False
    path, _, line = site.rpartition(":")
    try:
        line = int(line)
    except ValueError:
        return False
    for m in S.p.modules.values():
        if getattr(m, "relpath", None) == path or str(m.path).endswith(path):
            for node in ast.walk(m.tree):
                if isinstance(node, ast.Call) and getattr(node, "lineno", None) == line and isinstance(node.func, ast.Attribute) and node.func.attr == "ravel_pytree" and node.args:
                    a = node.args[0]
                    return isinstance(a, ast.Attribute) and a.attr in ("mean", "std")
    return False


def census_rules(chk, S, rule):
    seen = set()
    n = 0
    for f, v, site in S.unravel_applied:
        where = getattr(f, "origin", None) or site
        construct = f"unravel closure of {_function_at(S, where)} applied in {_function_at(S, site)}"
        key = (construct, T.show(f.args[0], 2))
        if key in seen:
            continue
        seen.add(key)
        n += 1
        cast = f.kwargs.get("cast_to")
        ex = f.args[0]
        if cast is not None:
            rule.ok(construct, f"example cast to {T.show(cast, 3)} before ravel_pytree", where)
        elif _homogeneous(ex):
            rule.ok(construct, f"example {T.show(ex, 2)} has one dtype by construction", where)
        elif _example_is_normal_accessor(S, where):
            rule.ok(construct, "the example is the mean / std of a Normal: unflattened from one flat array through the TreeFlatten's cast closure (R-C20-4)", where)
        elif _exact_constant(v):
            rule.ok(construct, f"applied to the exact constant {T.show(v, 2)} only", where)
        else:
            rule.fail(construct, f"the closure of the raw container {T.show(ex, 3)} is applied to {T.show(v, 3)}: ravel_pytree's unravel() restores each leaf's own dtype, so for a container with "
                      "mixed dtypes (an integer-typed leaf next to float leaves, float32 next to float64) the new value is truncated / rounded leaf by leaf, silently", where)
    return n
