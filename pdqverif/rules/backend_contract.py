"""The linear-algebra primitives by their contract.

Every domain gives `probdiffeq.backend.linalg.*` a fixed meaning (qr_r(M) is the R factor of M, solve_triu(R, b) solves with the *upper* triangle and the
requested transposition, lstsq_svd is the minimum-norm least-squares solution with the library's precision-dependent rank cutoff, vector_norm honours its
order ...).  The wrappers are one-line forwards to jax; this module decides that each still forwards what the signature assumes: same callee, the wrapper's
parameters routed to the same arguments, the same constants.  Keyword arguments spelled out with the callee's documented default are ignored, local
variables are inlined and parameter names play no role, so the usual rewrites of a forwarder are silent.

Verdicts: same callee but different routing / constants -> refuted (the construct names the argument); a body that is no longer a forward of the expected
callee -> inconclusive (the primitive would have to be re-read, the check does not guess).
"""

from __future__ import annotations

import ast

from ..model import AnalysisError

MOD = "probdiffeq.backend.linalg"

# wrapper -> (expected forward written with positional placeholders p0, p1, ... and the wrapper's keyword-only names, meaning assumed by the domains)
CONTRACTS = {
    "qr_r": ('jnp.linalg.qr(p0, mode="r")', "R factor of a QR decomposition (R^T R = M^T M)"),
    "vector_norm": ("jnp.linalg.norm(p0, ord=order)", "vector norm of the requested order (Euclidean by default)"),
    "matrix_norm": ("jnp.linalg.norm(p0, ord=order)", "matrix norm of the requested order"),
    "solve_triu": ("jax.scipy.linalg.solve_triangular(p0, p1, trans=trans, lower=False)", "solve with the upper triangle, transposed as requested"),
    "solve_tril": ("jax.scipy.linalg.solve_triangular(p0, p1, trans=trans, lower=True)", "solve with the lower triangle, transposed as requested"),
    "solve_lu": ("jnp.linalg.solve(p0, p1)", "solution of a square regular system"),
    "lstsq_svd": ("jnp.linalg.lstsq(p0, p1)[0]", "minimum-norm least-squares solution; singular values below (machine epsilon of the input's dtype) x max(shape) x largest count as zero"),
    "inv": ("jnp.linalg.inv(p0)", "matrix inverse"),
    "pinv": ("jnp.linalg.pinv(p0)", "pseudo-inverse"),
    "vector_dot": ("jnp.dot(p0, p1)", "inner product"),
    "diagonal_along_axis": ("jnp.diagonal(p0, axis1=axis1, axis2=axis2)", "diagonal along the two named axes"),
    "diagonal": ("jnp.diagonal(p0, axis1=axis1, axis2=axis2)", "diagonal along the two named axes"),
    "trace": ("jnp.trace(p0, axis1=axis1, axis2=axis2)", "trace along the two named axes"),
    "diagonal_matrix": ("jnp.diag(p0, k=p1)", "matrix with the vector on the k-th diagonal"),
    "triu": ("jnp.triu(p0)", "upper triangle including the diagonal"),
    "expm": ("jax.scipy.linalg.expm(p0)", "matrix exponential"),
    "einsum": ("jnp.einsum(p0, *args)", "Einstein summation of the operands as given"),
}

# documented defaults of the callees: a keyword spelled out with its default is the same call
DEFAULTS = {
    "jnp.linalg.qr": {"mode": "reduced"},
    "jnp.linalg.norm": {"ord": None, "axis": None, "keepdims": False},
    "jax.scipy.linalg.solve_triangular": {"trans": 0, "lower": False, "unit_diagonal": False, "overwrite_b": False, "check_finite": True},
    "jnp.linalg.lstsq": {"rcond": None, "numpy_resid": False},
    "jnp.diagonal": {"offset": 0, "axis1": 0, "axis2": 1},
    "jnp.trace": {"offset": 0, "axis1": 0, "axis2": 1, "dtype": None, "out": None},
    "jnp.diag": {"k": 0},
    "jnp.triu": {"k": 0},
    "jnp.dot": {"precision": None, "preferred_element_type": None},
    "jnp.einsum": {"optimize": "optimal", "precision": None},
}
# positional spelling of a keyword of the callee (jnp.diag(arr, k) == jnp.diag(arr, k=k))
POSITIONAL = {"jnp.diag": ["v", "k"], "jnp.triu": ["m", "k"], "jnp.linalg.norm": ["x", "ord", "axis", "keepdims"], "jnp.linalg.qr": ["a", "mode"], "jnp.linalg.lstsq": ["a", "b", "rcond"],
              "jax.scipy.linalg.solve_triangular": ["a", "b", "trans", "lower"], "jnp.diagonal": ["a", "offset", "axis1", "axis2"], "jnp.trace": ["a", "offset", "axis1", "axis2"],
              "jnp.linalg.solve": ["a", "b"], "jnp.linalg.inv": ["a"], "jnp.linalg.pinv": ["a"], "jnp.dot": ["a", "b"], "jax.scipy.linalg.expm": ["A"], "jnp.einsum": ["subscripts"]}


def _dotted(node):
    parts = []
    while isinstance(node, ast.Attribute):
        parts.append(node.attr)
        node = node.value
    if isinstance(node, ast.Name):
        parts.append(node.id)
        return ".".join(reversed(parts))
    return None


class _Subst(ast.NodeTransformer):
    def __init__(self, mapping):
        self.mapping = mapping

    def visit_Name(self, node):
        if isinstance(node.ctx, ast.Load) and node.id in self.mapping:
            return self.mapping[node.id]
        return node


def _inline_body(fn: ast.FunctionDef):
    """The returned expression with straight-line local assignments inlined; None if the body has another shape."""
    env = {}
    ret = None
    for st in fn.body:
        if isinstance(st, ast.Expr) and isinstance(st.value, ast.Constant) and isinstance(st.value.value, str):
            continue  # docstring
        if isinstance(st, ast.Assign) and len(st.targets) == 1 and isinstance(st.targets[0], ast.Name) and ret is None:
            env[st.targets[0].id] = _Subst(dict(env)).visit(ast.parse(ast.unparse(st.value), mode="eval").body)
            continue
        if isinstance(st, ast.Return) and st.value is not None and ret is None:
            ret = _Subst(dict(env)).visit(ast.parse(ast.unparse(st.value), mode="eval").body)
            continue
        return None
    return ret


def _canon_params(fn: ast.FunctionDef):
    pos = [a.arg for a in fn.args.posonlyargs + fn.args.args]
    return {name: ast.Name(id=f"p{i}", ctx=ast.Load()) for i, name in enumerate(pos)}


def _split_call(expr):
    """(callee, {argument name or index: source}, trailing subscripts) of `callee(...)[i]...`."""
    subs = []
    while isinstance(expr, ast.Subscript):
        subs.append(ast.unparse(expr.slice))
        expr = expr.value
    if not isinstance(expr, ast.Call):
        return None
    callee = _dotted(expr.func)
    if callee is None:
        return None
    names = POSITIONAL.get(callee, [])
    args = {}
    for i, a in enumerate(expr.args):
        if isinstance(a, ast.Starred):
            args["*"] = ast.unparse(a.value)
        else:
            args[names[i] if i < len(names) else i] = ast.unparse(a)
    for kw in expr.keywords:
        if kw.arg is None:
            args["**"] = ast.unparse(kw.value)
        else:
            args[kw.arg] = ast.unparse(kw.value)
    for k, dflt in DEFAULTS.get(callee, {}).items():
        if k in args and args[k] == repr(dflt):
            del args[k]
    return callee, args, list(reversed(subs))


# defaults of the wrappers' own optional parameters, as the domains assume them
WRAPPER_DEFAULTS = {"vector_norm": {"order": None}, "matrix_norm": {"order": None}, "solve_triu": {"trans": 0}, "solve_tril": {"trans": 0}, "diagonal": {"axis1": 0, "axis2": 1},
                    "trace": {"axis1": 0, "axis2": 1}, "diagonal_matrix": {"k": 0}}


def _param_defaults(fn: ast.FunctionDef):
    """{parameter name: default source} of the wrapper as it is written now."""
    out = {}
    pos = fn.args.posonlyargs + fn.args.args
    for a, d in zip(pos[len(pos) - len(fn.args.defaults):], fn.args.defaults):
        out[a.arg] = ast.unparse(d)
    for a, d in zip(fn.args.kwonlyargs, fn.args.kw_defaults):
        if d is not None:
            out[a.arg] = ast.unparse(d)
    return out


def linalg_contract_rules(chk, S, rule, names, usage=None):
    """One obligation per named wrapper of backend.linalg.

    ``usage[name]`` = {(positional arguments, keywords)} of the calls the check's scenarios make, or None (strict: every argument counts).  An optional parameter the
    check never supplies is evaluated at its default on both sides: a wrapper that no longer forwards an option nobody in this property's code paths uses
    behaves the same for this property.
    """
    mi = S.p.module(MOD)
    where = mi.relpath
    fns = {st.name: st for st in mi.tree.body if isinstance(st, ast.FunctionDef)}
    for name in names:
        if name not in CONTRACTS:
            raise AnalysisError(f"no contract recorded for backend.linalg.{name}")
        want_src, meaning = CONTRACTS[name]
        fn = fns.get(name)
        construct = f"backend.linalg.{name} is what its signature assumes"
        if fn is None:
            rule.unknown(construct, f"backend.linalg.{name} not found (anchor vanished)", where)
            continue
        loc = f"{where}:{fn.lineno}"
        body = _inline_body(fn)
        if body is None:
            rule.unknown(construct, f"the body is no longer a straight-line forward; the signature '{meaning}' would have to be re-read", loc)
            continue
        canon = _canon_params(fn)
        want_expr = ast.parse(want_src, mode="eval").body
        use = (usage or {}).get(name)
        default_diffs = []
        if use is not None:
            # optional parameters: where every call of this check omits one, both sides are evaluated at the default (a wrapper that stops forwarding an
            # option nobody on this property's code paths uses behaves the same here); where some call omits it, the wrapper's own default must be the
            # assumed one
            pos_names = [a.arg for a in fn.args.posonlyargs + fn.args.args]
            now = _param_defaults(fn)
            for pname, dflt in WRAPPER_DEFAULTS.get(name, {}).items():
                def supplied(shape, _p=pname):
                    nargs, kws = shape
                    return _p in kws or (_p in pos_names and pos_names.index(_p) < nargs)

                ever_supplied = any(supplied(sh) for sh in use)
                ever_omitted = any(not supplied(sh) for sh in use)
                if ever_omitted and pname in now and now[pname] != repr(dflt):
                    default_diffs.append(f"default of {pname!r} is {now[pname]} (assumed: {dflt!r}), and this check's code paths call the primitive without it")
                if not ever_supplied:
                    cname = canon[pname].id if pname in canon else pname
                    want_expr = _Subst({cname: ast.Constant(dflt), pname: ast.Constant(dflt)}).visit(want_expr)
                    body = _Subst({pname: ast.Constant(dflt)}).visit(body)
        body = _Subst(canon).visit(body)
        got = _split_call(body)
        want = _split_call(ast.parse(ast.unparse(want_expr), mode="eval").body)
        if got is None or got[0] != want[0]:
            rule.unknown(construct, f"forwards to {got[0] if got else ast.unparse(body)[:80]} instead of {want[0]}; the signature '{meaning}' would have to be re-read", loc)
            continue
        diffs = list(default_diffs)
        for k in sorted(set(got[1]) | set(want[1]), key=str):
            g, w = got[1].get(k), want[1].get(k)
            if g != w:
                diffs.append(f"argument {k!r} is {g if g is not None else 'left at its default'} (assumed: {w if w is not None else 'the default'})")
        if got[2] != want[2]:
            diffs.append(f"result component {got[2] or 'whole result'} (assumed: {want[2] or 'whole result'})")
        rule.require(not diffs, construct, f"{want_src}: {meaning}", f"{ast.unparse(body)[:160]} -- " + "; ".join(diffs) + f" -- assumed meaning: {meaning}", loc, {"primitive": name})


# ---------------------------------------------------------------------------
# The other backend modules (np, flow, func, random, tree): ~150 wrappers, nearly all of the shape  def f(params): return <library>.f(params).
# Generic rule ("transparent forwarder"): the callee carries the wrapper's name (or is the tabled alias), every parameter of the wrapper reaches the call
# exactly once -- positionally in its own position or as the like-named (or tabled) keyword --, and nothing else is passed (constants only where tabled).
# Wrappers with a body of their own are tabled with their expected expression and compared as canonical syntax trees (parameters and lambda variables
# renamed by position, local variables and nested one-line functions inlined).
ALIASES = {
    "tree.tree_map": "jax.tree.map", "tree.Partial": "jax.tree_util.Partial", "func.partial": "functools.partial", "random.prng_key": "jax.random.PRNGKey",
    "random.logpdf_multivariate_normal": "jax.scipy.stats.multivariate_normal.logpdf", "np.block_diag": "jax.scipy.linalg.block_diag",
}
KEYWORD_RENAMES = {  # (primitive, wrapper parameter) -> keyword of the callee
    ("flow.while_loop", "cond_func"): "cond_fun", ("flow.while_loop", "body_func"): "body_fun", ("flow.while_loop", "init"): "init_val",
    ("np.eye", "m"): "M", ("np.reshape", "new_shape"): "shape",
}
CONSTANTS_OK = {  # (primitive, callee keyword): source of the constant the wrapper fixes
    ("np.save", "allow_pickle"): "True", ("np.load", "allow_pickle"): "True",
}
EXPRESSIONS = {  # wrappers with a body of their own: expected expression (p0, p1 ... positional parameters; keyword-only parameters by name)
    "np.factorial": ("jax.lax.exp(jax.lax.lgamma(p0 + 1.0))", "n! as Gamma(n + 1)"),
    "np.finfo_eps": ("jnp.finfo(p0).eps", "machine epsilon of the dtype"),
    "np.block_diag": ("jax.scipy.linalg.block_diag(*p0)", "block-diagonal matrix of the listed blocks"),
    "np.inf": ("jnp.inf", "+infinity"),
    "np.pi": ("jnp.pi", "pi"),
    "np.std": ("jnp.std(p0, ddof=ddof, axis=axis)", "standard deviation along the axis with the given degrees of freedom"),
    "func.jet": ("jax.experimental.jet.jet(p0, primals=p1, series=p2, factorial_scaled=not is_tcoeff)", "Taylor-mode propagation; derivatives (factorial-scaled series) unless is_tcoeff"),
    "func.jvp": ("jax.jvp(p0, p1, p2)", "Jacobian-vector product at the primals along the tangents"),
    "tree.tree_array_prepend": ("tree_array_concatenate([jax.tree.map(lambda l0: l0[None, ...], p0), p1])", "every leaf of y, with a new leading axis, in front of the leaves of X"),
    "tree.tree_array_append": ("tree_array_concatenate([p0, jax.tree.map(lambda l0: l0[None, ...], p1)])", "every leaf of y, with a new leading axis, behind the leaves of X"),
    "tree.tree_array_concatenate": ("jax.tree.map(jnp.concatenate, _tree_array_transpose(p0), is_leaf=lambda l0: isinstance(l0, list) and isinstance(l0[0], jax.Array))", "leafwise concatenation along the leading axis"),
    "tree.tree_array_stack": ("jax.tree.map(jnp.stack, _tree_array_transpose(p0), is_leaf=lambda l0: isinstance(l0, list) and isinstance(l0[0], jax.Array))", "leafwise stacking along a new leading axis"),
    "tree._tree_array_transpose": ("jax.tree.map(lambda *l0: list(l0), *p0)", "list of trees -> tree of lists, in list order"),
    "tree.tree_flatten_depth_one": ("jax.tree_util.tree_flatten(p0, is_leaf=lambda l0: tree_structure(l0) == tree_structure(p0[0]))", "flatten down to sub-trees shaped like the first entry"),
    "tree.tree_leaves_depth_one": ("jax.tree_util.tree_leaves(p0, is_leaf=lambda l0: tree_structure(l0) == tree_structure(p0[0]))", "leaves down to sub-trees shaped like the first entry"),
}
SKIP = {"np.save", "np.load"}  # I/O helpers of the benchmarks
# defaults of the wrappers' optional parameters as the interpreter's models assume them: the documented defaults of the like-named library routines
# (func.jet: the package's own convention -- derivatives unless told otherwise).  Compared only where a code path of the property calls the primitive
# without the option.
FORWARD_DEFAULTS = {
    "flow.scan": {"length": "None", "reverse": "False"}, "func.jet": {"is_tcoeff": "False"}, "func.jit": {"static_argnames": "None", "static_argnums": "None"},
    "func.vmap": {"in_axes": "0", "out_axes": "0"}, "np.arange": {"step": "1"}, "np.asarray": {"dtype": "None"}, "np.concatenate": {"axis": "0"}, "np.diff": {"axis": "-1"},
    "np.eye": {"dtype": "None", "m": "None"}, "np.flip": {"axis": "None"}, "np.linspace": {"endpoint": "True", "num": "50"}, "np.mean": {"axis": "None", "keepdims": "False"},
    "np.ones": {"dtype": "None"}, "np.reshape": {"order": "'C'"}, "np.stack": {"axis": "0"}, "np.std": {"axis": "None", "ddof": "0"}, "np.zeros": {"dtype": "None"},
    "random.normal": {"dtype": "None"},
}
DEPENDS = {  # tabled expressions that call other wrappers of the module: those are part of the primitive's meaning
    "tree.tree_array_prepend": ("tree.tree_array_concatenate",), "tree.tree_array_append": ("tree.tree_array_concatenate",),
    "tree.tree_array_concatenate": ("tree._tree_array_transpose",), "tree.tree_array_stack": ("tree._tree_array_transpose",),
    "tree.tree_flatten_depth_one": ("tree.tree_structure",), "tree.tree_leaves_depth_one": ("tree.tree_structure",),
}


class _LambdaCanon(ast.NodeTransformer):
    """Rename lambda variables by order of introduction (l0, l1, ...)."""

    def __init__(self):
        self.n = 0
        self.stack = []

    def visit_Lambda(self, node):
        mapping = {}
        for a in node.args.posonlyargs + node.args.args + ([node.args.vararg] if node.args.vararg else []) + node.args.kwonlyargs + ([node.args.kwarg] if node.args.kwarg else []):
            mapping[a.arg] = f"l{self.n}"
            self.n += 1
            a.arg = mapping[a.arg]
        self.stack.append(mapping)
        node.body = self.visit(node.body)
        self.stack.pop()
        return node

    def visit_Name(self, node):
        for m in reversed(self.stack):
            if node.id in m:
                return ast.Name(id=m[node.id], ctx=node.ctx)
        return node


def _inline_body2(fn: ast.FunctionDef):
    """Like _inline_body, and nested one-line functions become lambdas."""
    env = {}
    ret = None
    for st in fn.body:
        if isinstance(st, ast.Expr) and isinstance(st.value, ast.Constant) and isinstance(st.value.value, str):
            continue
        if isinstance(st, ast.FunctionDef) and ret is None and len([s for s in st.body if not (isinstance(s, ast.Expr) and isinstance(s.value, ast.Constant))]) == 1:
            inner = [s for s in st.body if not (isinstance(s, ast.Expr) and isinstance(s.value, ast.Constant))][0]
            if not (isinstance(inner, ast.Return) and inner.value is not None) or st.decorator_list:
                return None
            lam = ast.Lambda(args=st.args, body=_Subst({k: v for k, v in env.items() if k not in {a.arg for a in st.args.args + st.args.posonlyargs}}).visit(ast.parse(ast.unparse(inner.value), mode="eval").body))
            env[st.name] = ast.parse(ast.unparse(lam), mode="eval").body
            continue
        if isinstance(st, ast.Assign) and len(st.targets) == 1 and isinstance(st.targets[0], ast.Name) and ret is None:
            env[st.targets[0].id] = _Subst(dict(env)).visit(ast.parse(ast.unparse(st.value), mode="eval").body)
            continue
        if isinstance(st, ast.Return) and st.value is not None and ret is None:
            ret = _Subst(dict(env)).visit(ast.parse(ast.unparse(st.value), mode="eval").body)
            continue
        return None
    return ret


def _canon_src(expr, canon):
    e = ast.parse(ast.unparse(expr), mode="eval").body
    e = _Subst(canon).visit(e)
    e = _LambdaCanon().visit(ast.parse(ast.unparse(e), mode="eval").body)
    return ast.unparse(e)


def forward_contract_rules(chk, S, rule, prims, usage=None):
    """One obligation per met primitive of backend.{np, flow, func, random, tree} that is a function of that module."""
    n_done = 0
    prims = set(prims)
    todo = list(prims)
    while todo:
        for dep in DEPENDS.get(todo.pop(), ()):
            if dep not in prims:
                prims.add(dep)
                todo.append(dep)
    for prim in sorted(prims):
        short, _, name = prim.partition(".")
        if short not in ("np", "flow", "func", "random", "tree") or "." in name or prim in SKIP:
            continue
        try:
            mi = S.p.module(f"probdiffeq.backend.{short}")
        except AnalysisError:
            continue
        fn = next((st for st in mi.tree.body if isinstance(st, ast.FunctionDef) and st.name == name), None)
        if fn is None:
            continue  # a re-exported constant or type, not a wrapper
        n_done += 1
        construct = f"backend.{prim} is what its signature assumes"
        loc = f"{mi.relpath}:{fn.lineno}"
        body = _inline_body2(fn)
        if body is None:
            rule.unknown(construct, "the body is no longer a straight-line forward; the primitive would have to be re-read", loc)
            continue
        canon = _canon_params(fn)
        # the wrapper's own defaults, where this property's code paths rely on them
        use0 = (usage or {}).get(prim)
        now = _param_defaults(fn)
        pos0 = [a.arg for a in fn.args.posonlyargs + fn.args.args]
        bad_defaults = []
        for pname, dflt in FORWARD_DEFAULTS.get(prim, {}).items():
            omitted = use0 is None or any(not (pname in kws or (pname in pos0 and pos0.index(pname) < nargs)) for nargs, kws in use0)
            if omitted and pname in now and now[pname] != dflt:
                bad_defaults.append(f"default of {pname!r} is {now[pname]} (assumed: {dflt}), and code paths of this property call the primitive without it")
        if bad_defaults:
            rule.fail(construct, "; ".join(bad_defaults), loc, {"primitive": prim})
            continue
        if prim in EXPRESSIONS:
            want_src, meaning = EXPRESSIONS[prim]
            got_src = _canon_src(body, canon)
            want_c = ast.unparse(_LambdaCanon().visit(ast.parse(want_src, mode="eval").body))
            if got_src == want_c:
                rule.ok(construct, f"{want_src}: {meaning}", loc, {"primitive": prim})
                continue
            g, w = _split_call(ast.parse(got_src, mode="eval").body), _split_call(ast.parse(want_c, mode="eval").body)
            if g is not None and w is not None and g[0] == w[0]:
                # same callee: explicit library defaults aside, name the arguments that differ
                diffs = [f"argument {k!r} is {g[1].get(k, 'absent')} (assumed: {w[1].get(k, 'absent')})" for k in sorted(set(g[1]) | set(w[1]), key=str) if g[1].get(k) != w[1].get(k)]
                if g[2] != w[2]:
                    diffs.append(f"result component {g[2]} (assumed: {w[2]})")
                rule.require(not diffs, construct, f"{want_src}: {meaning}", f"{got_src[:200]} -- " + "; ".join(diffs) + f" -- assumed meaning: {meaning}", loc, {"primitive": prim})
            else:
                rule.unknown(construct, f"{got_src[:200]} is not the assumed {want_src}; the meaning '{meaning}' would have to be re-read", loc, {"primitive": prim})
            continue
        # generic transparent forwarder
        if not isinstance(body, ast.Call) or _dotted(body.func) is None:
            rule.unknown(construct, f"returns {ast.unparse(body)[:120]}: not a call of a library routine; the primitive would have to be re-read", loc, {"primitive": prim})
            continue
        callee = _dotted(body.func)
        if callee.rsplit(".", 1)[-1] != name and ALIASES.get(prim) != callee:
            rule.unknown(construct, f"forwards to {callee}, whose name differs from the wrapper's; the primitive would have to be re-read", loc, {"primitive": prim})
            continue
        pos = [a.arg for a in fn.args.posonlyargs + fn.args.args]
        kwonly = [a.arg for a in fn.args.kwonlyargs]
        use = (usage or {}).get(prim)

        def ever_supplied(p):
            if use is None:
                return True
            return any(p in kws or (p in pos and pos.index(p) < nargs) for nargs, kws in use)

        problems, unknowns = [], []
        seen_params = []
        for i, a in enumerate(body.args):
            if isinstance(a, ast.Starred):
                v = ast.unparse(a.value)
                if fn.args.vararg is not None and v == fn.args.vararg.arg:
                    seen_params.append("*" + v)
                elif v in pos:  # block_diag(*list_of_arrays)-style: tabled, not generic
                    problems.append(f"unpacks {v}")
                else:
                    problems.append(f"unpacks {v}, which is not the wrapper's variadic parameter")
                continue
            v = ast.unparse(a)
            if v in pos or v in kwonly:
                seen_params.append(v)
                if v in pos and pos.index(v) != i:
                    problems.append(f"parameter {v!r} (position {pos.index(v)}) is passed in position {i}")
            else:
                problems.append(f"positional argument {i} is {v}, not a parameter of the wrapper")
        for kw in body.keywords:
            if kw.arg is None:
                v = ast.unparse(kw.value)
                if fn.args.kwarg is not None and v == fn.args.kwarg.arg:
                    seen_params.append("**" + v)
                else:
                    problems.append(f"unpacks **{v}")
                continue
            v = ast.unparse(kw.value)
            if v in pos or v in kwonly:
                seen_params.append(v)
                if kw.arg != v and KEYWORD_RENAMES.get((prim, v)) != kw.arg:
                    if kw.arg in pos or kw.arg in kwonly:
                        problems.append(f"parameter {v!r} is passed as the keyword {kw.arg!r}, the name of another parameter")
                    else:
                        unknowns.append(f"parameter {v!r} is passed as the keyword {kw.arg!r}: whether that is the library's name for its place is not tabled")
            elif CONSTANTS_OK.get((prim, kw.arg)) == v:
                pass
            else:
                problems.append(f"keyword {kw.arg!r} is fixed to {v}")
        for p in pos + kwonly:
            c = seen_params.count(p)
            if c == 0:
                (problems if ever_supplied(p) else unknowns).append(f"parameter {p!r} is not forwarded" + ("" if ever_supplied(p) else " (no code path of this property supplies it; whether the library default equals the wrapper's is not decided)"))
            elif c > 1:
                problems.append(f"parameter {p!r} is forwarded {c} times")
        if fn.args.vararg is not None and "*" + fn.args.vararg.arg not in seen_params:
            problems.append(f"the variadic parameter *{fn.args.vararg.arg} is not forwarded")
        if problems:
            rule.fail(construct, f"{ast.unparse(body)[:160]} -- " + "; ".join(problems) + f" -- assumed: {callee}(...) with the wrapper's own arguments, each once, nothing else", loc, {"primitive": prim})
        elif unknowns:
            rule.unknown(construct, f"{ast.unparse(body)[:160]} -- " + "; ".join(unknowns), loc, {"primitive": prim})
        else:
            rule.ok(construct, f"transparent forward to {callee}", loc, {"primitive": prim})
    return n_done
