"""C04 -- output-scale calibration: estimator structure and scale-equivariance."""

from __future__ import annotations

from fractions import Fraction

from .. import nf
from .. import sdomain as SD
from .. import terms as T
from ..harness import EST, SOLVERS, A, Rec, Session, call, mcalls, method, rec_of_atoms, where_of
from ..interp import _MISSING
from ..model import AnalysisError
from ..tscen import MS, PS, STRATEGIES, make_solver

EXPLANATION = (
    "(1) Scale-equivariance by degree typing: every Gaussian object of the solver level carries the degree of its Cholesky factor in the prior's base "
    "scale sigma_b; with the interface signatures of the state-space layer (transition: 1 + deg(scale); marginalise/revert need equal degrees; whitened "
    "RMS: minus the degree; rescale: plus the factor's degree) init/step/userfriendly_output of every solver x strategy and both error estimators are typed: "
    "means degree 0; uncalibrated covariances degree 1; the MLE running and final scale and the dynamic per-step scale degree -1; calibrated covariances "
    "degree 0; the acceptance quantity degree 0 (so the accepted step sequence cannot depend on the base scale).  (2) Running RMS of the MLE solver in normal "
    "form: c_new^2 = n/(n+1) c^2 + b^2/(n+1), n counted from 0 (1 with an initial constraint).  (3) userfriendly_output wiring per solver (1/sqrt(N) correction "
    "exactly under its flag, the same scale passed to finalize and reported; dynamic: ones to finalize, per-step scales with the initial one prepended; "
    "uncalibrated: ones).  (4) Per-factorisation RMS normalisation and rescale_cholesky are typed in C08 (R-C08-3)."
)
TRUSTED_VALUE_PRIMITIVES = ("lstsq_svd",)  # the initial-constraint update (whose whitened residual enters the MLE scale) solves with linalg.lstsq_svd
LEVEL = "other"
TECHNIQUE = "abstract interpretation over the AST: scale-degree (units) typing of the solver level, value-numbering normal form for the running RMS, provenance of the reported scale"
LEVEL_TEXT = (
    "Equivariance under sigma_b -> c sigma_b for every c is a consequence of the degree typing (one derivation instead of a range of c); the estimator's algebra is an identity in normal form. "
    "The numerical value of the estimate against an independent implementation is not claimed."
)
LEVEL_NOTE = (
    "Assumes damp = 0 for the equivariance clause (observation damping is not scaled with sigma_b) and the level-1 signatures derived in C08/C09 "
    "(prior noise linear in base and calibrated scale: R-C09-4; whitened RMS / rescale: R-C08-3).  The typing is inductive over solver steps; its base case is an initial "
    "state whose covariance is zero (exact initial condition, the default) or is itself given in units of the base scale.  An absolute initial standard deviation "
    "(prior_wiener_integrated_diffuse(tcoeffs, std) with std > 0) is a second scale of the model that the factories do not multiply by the base scale: the equivariance "
    "clause does not hold for that input class (dense TS1, std = 0.1, c = 100: means differ by 9.6e-3), which the statement's quantifier does not list and this check does not cover."
)


def typed_state(it, env, strategy, prefix, deg):
    if strategy == "strategy_filter":
        sf = A(f"{prefix}.solution_full")
        env.declare(sf, deg)
    else:
        sf = rec_of_atoms(it, MS, f"{prefix}.solution_full", {"reverse": True})
        env.declare(sf.fields["marginal"], deg)
        env.declare(sf.fields["conditional"], deg)
    st = rec_of_atoms(it, PS, prefix, {"solution_full": sf})
    env.declare(st.fields["u"], deg)
    return st


def deg_of_posterior(env, sf):
    if isinstance(sf, Rec) and "marginal" in sf.fields:
        return env.of(sf.fields["marginal"]), env.of(sf.fields["conditional"])
    return env.of(sf), None


def _run_own(chk, S: Session):
    chk.assume("damp = 0 for the equivariance clause")
    chk.assume("initial covariance zero or scaled with the base scale (base case of the inductive typing)")
    chk.trust("interface signatures of sdomain.py (derived per factorisation in C08 / C09)")
    r1 = chk.rule("R-C04-1", "scale-degree typing: means 0, uncalibrated covariances 1, estimated scales -1, calibrated covariances 0, acceptance quantity 0", floor=40)
    r2 = chk.rule("R-C04-2", "MLE running RMS: c_new^2 = n/(n+1) c^2 + b^2/(n+1); counter; first term", floor=6)
    r3 = chk.rule("R-C04-3", "userfriendly_output wiring of the reported / applied scale per solver", floor=12)
    solvers = {c.name: c for c in S.p.subclasses(SOLVERS + ".ProbabilisticSolver")}
    if not {"solver", "solver_mle", "solver_dynamic"} <= set(solvers):
        raise AnalysisError(f"expected solver, solver_mle, solver_dynamic; found {sorted(solvers)}")
    # degrees of the state per solver: (posterior before finalize, reported scale during the run)
    state_deg = {"solver": Fraction(1), "solver_mle": Fraction(1), "solver_dynamic": Fraction(0)}
    for sname in sorted(solvers):
        for strategy in STRATEGIES:
            cfg = {"solver": sname, "strategy": strategy}
            it = S.interp()
            solver = make_solver(it, sname, strategy)
            env = SD.SEnv()
            d0 = state_deg.get(sname, Fraction(1))
            state = typed_state(it, env, strategy, "state", d0)
            if sname == "solver_mle":
                aux = (A("lin_state"), A("running"), A("num_data"))
                env.declare(aux[1], Fraction(-1))
                env.declare(aux[2], Fraction(0))
                state.fields["auxiliary"] = aux
            env.declare(state.fields["output_scale"], Fraction(0) if sname != "solver_dynamic" else Fraction(-1))
            out = call(it, method(it, solver, "step"), state=state, dt=A("dt"), damp=A("damp"))
            S.absorb(it)
            where = SOLVERS
            name = f"{sname}.step [{strategy}]"
            du = env.of(out.fields["u"])
            dm, dc = deg_of_posterior(env, out.fields["solution_full"])
            r1.require(True if du == d0 else (None if du is None else False), f"{name} posterior marginal degree", f"u : {SD.show(du)} (inductive)", f"new marginal has degree {SD.show(du)}; the state invariant is sigma^{d0}", where, cfg)
            r1.require(True if dm == d0 else (None if dm is None else False), f"{name} posterior degree", f"{SD.show(dm)}", f"posterior has degree {SD.show(dm)}; expected sigma^{d0}", where, cfg)
            if dc is not None or strategy != "strategy_filter":
                r1.require(True if dc in (d0, SD.POLY) else (None if dc is None else False), f"{name} backward model degree", f"{SD.show(dc)}", f"backward model has degree {SD.show(dc)}; expected sigma^{d0}", where, cfg)
            dos = env.of(out.fields["output_scale"])
            want_os = Fraction(-1) if sname == "solver_dynamic" else Fraction(0)
            r1.require(True if dos == want_os else (None if dos is None else False), f"{name} reported scale degree", f"{SD.show(dos)}", f"reported output scale has degree {SD.show(dos)}; expected sigma^{want_os}", where, cfg)
            if sname == "solver_mle":
                aux_o = out.fields["auxiliary"]
                dr = env.of(aux_o[1]) if isinstance(aux_o, tuple) and len(aux_o) == 3 else None
                r1.require(True if dr == -1 else (None if dr is None else False), f"{name} running scale degree", f"{SD.show(dr)} (inductive)", f"running MLE scale has degree {SD.show(dr)}; expected sigma^-1", where, cfg)
            for e in env.errors:
                r1.fail(f"{name} [{e.what}]", e.detail, getattr(e.term, "origin", None) or where, cfg)
            if len(chk.samples) < 4:
                chk.sample({"config": cfg, "u": SD.show(du), "posterior": SD.show(dm), "reported_scale": SD.show(dos)})
    # error estimators: acceptance quantity of degree 0 for every state degree the solvers produce
    for ci in S.p.subclasses(SOLVERS + ".ErrorEstimator"):
        params = [a.arg for a in ci.methods["__init__"].args.kwonlyargs] if "__init__" in ci.methods else []
        for d0 in (Fraction(1), Fraction(0)):
            for relin in (False, True):
                cfg = {"estimator": ci.name, "state_degree": str(d0), "re_linearize": relin}
                it = S.interp()
                kw = dict(constraint=A("constraint"), re_linearize_before_error=relin, error_norm=A("error_norm"))
                if "derivative_idx" in params:
                    kw["derivative_idx"] = 0
                est = it.instantiate(it.class_value(ci.qualname), [], kw, "<harness>")
                env = SD.SEnv()
                prev, prop = rec_of_atoms(it, PS, "prev"), rec_of_atoms(it, PS, "prop")
                for s_ in (prev, prop):
                    env.declare(s_.fields["u"], d0)
                for nm in ("dt", "atol", "rtol", "damp"):
                    env.declare(A(nm), Fraction(0))
                out = call(it, method(it, est, "estimate_error_norm"), A("estate"), prev, prop, dt=A("dt"), atol=A("atol"), rtol=A("rtol"), damp=A("damp"))
                S.absorb(it)
                power = out[0]
                norm_calls = [t for t in T.subterms(power) if t.op == "call" and t.args[0] is A("error_norm")]
                ok = len(norm_calls) == 1
                de = dr = None
                if ok:
                    de, dr = env.of(norm_calls[0].args[1]), env.of(norm_calls[0].args[2])
                r1.require(True if (ok and de == 0 and dr == 0) else (None if (de is None or dr is None) else False), f"{ci.name}.estimate_error_norm scale-invariance", f"error {SD.show(de)}, reference {SD.show(dr)}",
                           f"the scaled error has degree {SD.show(de)} and the reference {SD.show(dr)} in the base scale: the acceptance test (hence the step sequence) would depend on sigma_b", SOLVERS, cfg)
                for e in env.errors:
                    r1.fail(f"{ci.name}.estimate_error_norm [{e.what}]", e.detail, getattr(e.term, "origin", None) or SOLVERS, cfg)
    mle_rules(chk, S, r2)
    output_rules(chk, S, r1, r3)
    dynamic_zero_scale_rules(chk, S)
    singular_whitening_rules(chk, S)


def singular_whitening_rules(chk, S):
    """Contradicting beliefs about one matrix: a caller that hands a least-squares solve to `bayes_rule_and_residual_whitened_rms_*` states that the observed
    covariance may be singular; if the same composite whitens the residual with an exact triangular solve of that factor, the running MLE scale is 0/0 = NaN
    exactly when the caller's precaution matters (an initial constraint that the exact initial condition already satisfies)."""
    import ast as _ast

    from ..harness import API

    r5 = chk.rule("R-C04-5", "the whitened residual that enters the quasi-MLE scale follows the singular-update convention of the solve it is computed with "
                  "(no exact triangular whitening next to a least-squares update of the same observed factor)", floor=1)
    api = S.p.module(API)
    comp = None
    for ci in api.classes.values():
        for mname, fn in ci.methods.items():
            if mname.startswith("bayes_rule_and_residual_whitened_rms"):
                comp = (ci, fn)
    if comp is None:
        r5.unknown("bayes_rule_and_residual_whitened_rms composite", "not found (anchor changed)", api.relpath)
        return
    ci, fn = comp
    # does the composite hand its solve on to the whitening?
    carried = False
    for node in _ast.walk(fn):
        if isinstance(node, _ast.Call) and isinstance(node.func, _ast.Attribute) and node.func.attr.startswith("residual_whitened_rms"):
            srcs = [_ast.unparse(a) for a in node.args] + [_ast.unparse(k.value) for k in node.keywords]
            carried = carried or any("solve" in x or "lstsq" in x or "pinv" in x for x in srcs)
    sites = []
    for m in S.p.modules.values():
        for node in _ast.walk(m.tree):
            if isinstance(node, _ast.Call) and isinstance(node.func, _ast.Attribute) and node.func.attr.startswith("bayes_rule_and_residual_whitened_rms"):
                for k in node.keywords:
                    if k.arg == "solve_triu" and "lstsq" in _ast.unparse(k.value):
                        sites.append((m, node.lineno, _ast.unparse(k.value)))
    if not sites:
        r5.ok("least-squares call sites of the whitening composite", "none", api.relpath, nontrivial=False)
        return
    from .c08 import _enclosing_function

    for m, line, src in sorted(sites, key=lambda x: (x[0].relpath, x[1])):
        r5.require(carried, f"{m.name}.{_enclosing_function(m, line)} whitening of the residual of a least-squares update", "the composite whitens with the solve it was given",
                   f"{ci.name}.{fn.name}(..., solve_triu={src}) reverts with the least-squares solve but whitens with the Normal's exact triangular solve: for an observed factor that is exactly zero "
                   "(an initial constraint the exact initial condition already satisfies) the whitened residual is 0/0 and the reported MLE scale and all covariances are NaN "
                   "(the well-defined value is 0, which the library returns for damp = 1e-150)", f"{m.relpath}:{line}")


def dynamic_zero_scale_rules(chk, S):
    """Dynamic mode re-discretises the prior with the local estimate |L^-1 z| / sqrt(n) >= 0.  The estimate is exactly zero whenever the residual is
    (a start at an equilibrium, a constant component of a block-diagonal model, u' = 1 with a matching prior); for a state without covariance (exact
    initial condition) the predicted covariance is then exactly zero, and so is the observed factor the update solves with."""
    from .. import bounds as B

    r4 = chk.rule("R-C04-4", "dynamic mode with a vanishing local estimate: the scale handed to the second discretisation is bounded away from zero, or the update's solve accepts a zero observed factor "
                  "(returned covariances are then the unit-scale covariances times zero, not NaN)", floor=1)
    floors, solves, site = [], [], None
    for strategy in STRATEGIES:
        it = S.interp()
        solver = make_solver(it, "solver_dynamic", strategy)
        env = SD.SEnv()
        state = typed_state(it, env, strategy, "state", Fraction(0))
        out = call(it, method(it, solver, "step"), state=state, dt=A("dt"), damp=A("damp"))
        S.absorb(it)
        sub = [t for v in (out.fields["u"], out.fields["solution_full"]) for t in T.subterms(v) if isinstance(t, T.Term)]
        ests = {t.uid: t for t in sub if t.op == "mcall" and t.args[1] in ("residual_whitened_rms_tree", "residual_whitened_rms_flat")}
        trans = {t.uid: t for t in sub if t.op == "mcall" and t.args[1] == "transition" and any(e in list(T.subterms(t.kwargs.get("output_scale"))) for e in ests.values())}
        upd = {t.uid: t for t in sub if t.op == "mcall" and isinstance(t.args[1], str) and t.args[1].startswith("bayes_rule")}
        if not ests or not trans or not upd:
            r4.unknown("solver_dynamic.step vanishing local estimate", f"[{strategy}] local estimate / calibrated discretisation / update not found ({len(ests)}, {len(trans)}, {len(upd)}): anchor changed", SOLVERS)
            return
        benv = B.Env()
        for e in ests.values():
            benv.assume(e, B.Iv(0, B.INF, False, True))  # a norm divided by a positive number: >= 0, zero included
        bb = B.Bounds(benv)
        for t in trans.values():
            x = t.kwargs.get("output_scale")
            while isinstance(x, T.Term) and x.op == "func.stop_gradient":
                x = x.args[0]
            floors.append(bb.iv(x))
            site = site or getattr(t, "origin", None)
        for t in upd.values():
            y = t.kwargs.get("solve_triu")
            solves.append(getattr(y, "name", None) or repr(y))
    positive = all(iv.pos for iv in floors)
    tolerant = all("lstsq" in s_ or "pinv" in s_ for s_ in solves)
    tag = "" if (positive or tolerant) else f" [scale in {', '.join(sorted({str(iv) for iv in floors}))}; update solve {', '.join(sorted(set(solves)))}]"
    r4.require(positive or tolerant, "solver_dynamic.step vanishing local estimate" + tag, f"scale in {sorted({str(iv) for iv in floors})}, update solve {sorted(set(solves))} (all strategies)",
               f"the local estimate (>= 0, exactly 0 for a vanishing residual) is handed to prior.transition unchanged (interval {sorted({str(iv) for iv in floors})}) and the update solves with {sorted(set(solves))}: "
               "with an exact initial condition the predicted covariance and the observed factor are exactly zero and the triangular solve divides 0 by 0 -- means and covariances become NaN "
               "instead of 'unit-scale covariances times zero'", site or SOLVERS)


def mle_rules(chk, S, r2):
    it = S.interp()
    solver = make_solver(it, "solver_mle", "strategy_filter")
    state = rec_of_atoms(it, PS, "state")
    run_, n = A("running"), A("num_data")
    state.fields["auxiliary"] = (A("lin_state"), run_, n)
    out = call(it, method(it, solver, "step"), state=state, dt=A("dt"), damp=A("damp"))
    aux = out.fields["auxiliary"]
    ok = isinstance(aux, tuple) and len(aux) == 3
    r2.require(ok, "solver_mle.step auxiliary", "(constraint state, running scale, number of terms)", f"{T.show(aux, 2)}", SOLVERS)
    if ok:
        new, n1 = aux[1], aux[2]
        b = [t for t in T.subterms(new) if t.op == "getitem" and t.args[1] == 0 and isinstance(t.args[0], T.Term) and t.args[0].op == "mcall" and t.args[0].args[1] == "bayes_rule_and_residual_whitened_rms_tree"]
        okb = len(b) == 1
        r2.require(okb, "solver_mle.step new term", "whitened residual RMS of this step's Bayes update", f"{T.show(new, 4)}", SOLVERS)
        if okb:
            lhs = nf.norm(T.mk("pow", (new, 2)))
            rhs = nf.norm(T.mk("add", (T.mk("mul", (T.mk("div", (n, T.mk("add", (n, 1)))), T.mk("pow", (run_, 2)))), T.mk("mul", (T.mk("div", (1, T.mk("add", (n, 1)))), T.mk("pow", (b[0], 2)))))))
            r2.require(lhs == rhs, "solver_mle.step running RMS", "c_new^2 = n/(n+1) c^2 + 1/(n+1) b^2   (so c_n^2 = (sum b_i^2)/n)", f"c_new^2 = {nf.show(lhs)}", where_of(new, SOLVERS))
            chk.sample({"rule": "R-C04-2", "c_new_squared": nf.show(lhs)})
        r2.require(nf.norm(n1) == nf.add(nf.norm(n), nf.const(1)), "solver_mle.step counter", "n + 1", f"{T.show(n1)}", SOLVERS)
    # init: counter 0 and zero running value without an initial constraint; with one: its residual is the first term, counter 1
    for with_init in (False, True):
        it = S.interp()
        solver = make_solver(it, "solver_mle", "strategy_filter", **({"constraint_init": A("constraint_init")} if with_init else {}))
        o = call(it, method(it, solver, "init"), A("t0"), A("prior"), damp=A("damp"))
        aux = o.fields["auxiliary"]
        if with_init:
            b = [t for t in T.subterms(aux) if t.op == "mcall" and t.args[1] == "bayes_rule_and_residual_whitened_rms_tree"]
            ok = isinstance(aux, tuple) and len(aux) == 3 and aux[2] == 1.0 and len(b) == 1 and aux[1] is T.mk("getitem", (b[0], 0))
            r2.require(ok, "solver_mle.init with initial constraint", "first term = whitened residual of the initial constraint, n = 1", f"{T.show(aux, 3)}", SOLVERS)
        else:
            ok = isinstance(aux, tuple) and len(aux) == 3 and aux[2] == 0.0 and isinstance(aux[1], T.Term) and aux[1].op == "np.zeros_like"
            r2.require(ok, "solver_mle.init", "running value 0, n = 0", f"{T.show(aux, 3)}", SOLVERS)
        r2.require(isinstance(o.fields["output_scale"], T.Term) and o.fields["output_scale"].op == "np.ones_like", f"solver_mle.init output scale (constraint_init={with_init})", "reported scale during the run is 1", f"{T.show(o.fields['output_scale'], 2)}", SOLVERS)
    S.absorb(it)


def output_rules(chk, S, r1, r3):
    for sname in ("solver", "solver_mle", "solver_dynamic"):
        flags_list = [{}]
        if sname == "solver_mle":
            flags_list = [{"correct_asymptotic_underconfidence": True}, {"correct_asymptotic_underconfidence": False}]
        for flags in flags_list:
            cfg = {"solver": sname, **flags}
            it = S.interp()
            solver = make_solver(it, sname, "strategy_smoother_fixedpoint", **flags)
            got = {}

            def hook(itp, fn, a, kw, site, _g=got):
                _g["kw"] = kw
                return (A("estimate"), A("posterior"))

            it.method_hooks[EST + ".Smoother.finalize"] = hook
            sol0, sol, sol1 = (rec_of_atoms(it, PS, n_) for n_ in ("solution0", "solution", "solution1"))
            sol.fields["t"] = T.atom("solution.t", ndims={"": 1})
            sol.fields["t"].meta["ndim"] = 1
            if sname == "solver_mle":
                sol1.fields["auxiliary"] = (A("lin1"), A("running1"), A("n1"))
                sol.fields["auxiliary"] = (A("lin"), A("running_stack"), A("n_stack"))
            out = call(it, method(it, solver, "userfriendly_output"), solution0=sol0, solution=sol, solution1=sol1)
            S.absorb(it)
            name = f"{sname}.userfriendly_output"
            kw = got.get("kw")
            if kw is None or not isinstance(out, Rec):
                r3.fail(name, "finalize not reached", SOLVERS, cfg)
                continue
            r3.require(all(kw.get(k) is s_.fields["solution_full"] for k, s_ in (("posterior0", sol0), ("posterior", sol), ("posterior1", sol1))), f"{name} finalize inputs", "posterior0 / posterior / posterior1 from solution0 / solution / solution1", "", SOLVERS, cfg)
            scale = kw.get("output_scale")
            r3.require(out.fields["u"] is A("estimate") and out.fields["solution_full"] is A("posterior"), f"{name} result", "u and posterior from finalize", "", SOLVERS, cfg)
            ts = out.fields["t"]
            okt = isinstance(ts, T.Term) and ts.op == "np.concatenate" and isinstance(ts.args[0], list) and len(ts.args[0]) == 2 and ts.args[0][1] is sol.fields["t"] and T.atoms_of(ts.args[0][0]) == {"solution0.t"}
            r3.require(okt, f"{name} time axis", "t = [t0] + checkpoint times", f"{T.show(ts, 3)}", SOLVERS, cfg)
            if sname == "solver_mle":
                run1 = sol1.fields["auxiliary"][1]
                if flags.get("correct_asymptotic_underconfidence"):
                    last = T.mk("getitem", (sol.fields["num_steps"], -1))
                    want = T.mk("div", (run1, T.mk("np.sqrt", (last,))))
                    r3.require(nf.equal(scale, want), f"{name} calibrated scale", "running value of solution1 / sqrt(num_steps[-1])", f"scale = {T.show(scale, 4)}", SOLVERS, cfg)
                else:
                    r3.require(scale is run1, f"{name} calibrated scale", "running value of solution1 (no correction)", f"scale = {T.show(scale, 4)}", SOLVERS, cfg)
                rep = out.fields["output_scale"]
                okr = isinstance(rep, T.Term) and rep.op == "mul" and any(isinstance(x, T.Term) and x.op == "getitem" and x.args[0] is scale for x in rep.args) and any(isinstance(x, T.Term) and x.op == "np.ones_like" for x in rep.args)
                r3.require(okr, f"{name} reported scale", "the scale passed to finalize, broadcast over time", f"{T.show(rep, 4)}", SOLVERS, cfg)
                env = SD.SEnv()
                env.declare(run1, Fraction(-1))
                env.declare(sol.fields["num_steps"], Fraction(0))
                r1.require(env.of(scale) == -1, f"{name} final scale degree", "sigma^-1 (divides by c)", f"{SD.show(env.of(scale))}", SOLVERS, cfg)
            elif sname == "solver_dynamic":
                r3.require(isinstance(scale, T.Term) and not T.value_atoms(scale), f"{name} finalize scale", "ones (covariances are calibrated already)", f"scale = {T.show(scale, 3)}", SOLVERS, cfg)
                rep = out.fields["output_scale"]
                okr = isinstance(rep, T.Term) and rep.op == "np.concatenate" and isinstance(rep.args[0], list) and len(rep.args[0]) == 2 and rep.args[0][1] is sol.fields["output_scale"] and T.atoms_of(rep.args[0][0]) == {"solution0.output_scale"}
                r3.require(okr, f"{name} reported scale", "per-step scales with the initial one prepended", f"{T.show(rep, 3)}", SOLVERS, cfg)
            else:
                r3.require(isinstance(scale, T.Term) and not T.value_atoms(scale), f"{name} finalize scale", "ones", f"scale = {T.show(scale, 3)}", SOLVERS, cfg)
                rep = out.fields["output_scale"]
                r3.require(isinstance(rep, T.Term) and not T.value_atoms(rep), f"{name} reported scale", "ones", f"{T.show(rep, 3)}", SOLVERS, cfg)


def run(chk, S: Session):
    _run_own(chk, S)
    from ..harness import borrow

    rb = chk.rule("R-C04-B", "clauses of this statement decided by rules of C03 (calibrated covariances: every part of the returned posterior is rescaled)", floor=4)
    borrow(chk, S, rb, "C03", lambda r, c: r == "R-C03-3" or (r == "R-C03-1" and ("finalize" in c or "rescale" in c)))
    rb2 = chk.rule("R-C04-B2", "the base case of the equivariance argument decided by rules of C09: every prior's stored noise factor is linear in the base output scale (factories, transitions) and the "
                   "convenience constructors forward the caller's output_scale unchanged", floor=20)
    borrow(chk, S, rb2, "C09", lambda r, c: r in ("R-C09-4", "R-C09-8") or (r == "R-C09-5" and "forwards" in c))
    # an option passed to a constructor arrives in the attribute of its own name (the rules above read options through those attributes)
    from .ctor_wiring import ctor_wiring_rules

    rcw = chk.rule("R-C04-W", "constructor wiring of the calibrating solver classes: every attribute that carries a constructor parameter's name holds that parameter, not another one", floor=6)
    ctor_wiring_rules(chk, S, rcw, [SOLVERS + ".solver_mle", SOLVERS + ".solver_dynamic"])
