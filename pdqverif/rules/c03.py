"""C03 -- the backward Markov factorisation is built and consumed with consistent time indices."""

from __future__ import annotations

from .. import nf
from .. import tdomain as TD
from .. import terms as T
from ..harness import ADAPT, API, EST, FIXED, SOLVERS, A, Rec, Session, call, events, mcalls, method, rec_of_atoms, where_of
from ..interp import _MISSING
from ..model import AnalysisError
from ..tscen import MS, PS, STRATEGIES, make_solver, make_strategy, posterior_types, typed_solution
from .c06 import make_loop

EXPLANATION = (
    "Markov time typestate of the smoother code paths.  (1) Smoother.finalize under its contract (the resume state's backward model maps the "
    "resume time to the last reported time): the terminal variable seeds the backward pass at the last reported time, every part is rescaled by the "
    "same output scale; MarkovSequence.evaluate_marginals is an inductive reverse scan (conditional k applied to the variable at its source time); "
    "remove_filtering_distributions / from_grid / rescale_cholesky / rescale_noise index and type correctly.  (2) Every caller establishes the contract: "
    "solve_fixed_grid (scan invariant of the solver state + resume at the last grid point), and the adaptive loop's two reporting arms for both smoothers "
    "(resume backward model = C[T -> reported time] or the identity when the step landed on the checkpoint).  A terminal marginal taken at the wrong time "
    "is a type error independent of grid and problem."
)
LEVEL = "other"
TECHNIQUE = "Markov time typestate (symbolic time labels, inductive check of scan carries) over the abstract interpreter; provenance of rescaling factors"
LEVEL_TEXT = (
    "Time-index consistency of the backward factorisation on every routine x strategy path, decided symbolically (all grids, all ways the last step can end).  "
    "Not claimed: 'smoothed variances never exceed filtered ones', numerical agreement of fixed-interval and fixed-point smoothing, cross-covariance values."
)
LEVEL_NOTE = "Trusted: typing rules of tdomain.py; flow.scan(reverse=True) visits the stacked conditionals from last to first."


def _run_own(chk, S: Session):
    chk.trust("typing rules of tdomain.py", "flow.scan(reverse=True): last element first")
    r1 = chk.rule("R-C03-1", "finalize (under its contract), evaluate_marginals, remove_filtering_distributions, from_grid, rescale_*: time typing", floor=14)
    r2 = chk.rule("R-C03-2", "callers establish finalize's contract: fixed grid (scan invariant + resume), adaptive reporting arms for both smoothers", floor=20)
    r3 = chk.rule("R-C03-3", "calibration rescales marginals and backward models of posterior0 / posterior / posterior1 with the same output scale", floor=8)
    finalize_rules(chk, S, r1, r3)
    sequence_rules(chk, S, r1)
    fixed_grid_rules(chk, S, r2)
    adaptive_rules(chk, S, r2)


# ---------------------------------------------------------------------------
def finalize_rules(chk, S, r1, r3):
    smoothers = [c for c in S.p.subclasses(EST + ".Smoother")]
    if len(smoothers) < 2:
        raise AnalysisError("expected the two smoother strategies")
    for ci in smoothers:
        it = S.interp()
        st = make_strategy(it, ci.name)
        env = TD.TEnv()
        t_last, T1, scale = A("t_last"), A("T1"), A("scale")
        p0 = rec_of_atoms(it, MS, "p0", {"reverse": True})
        p = rec_of_atoms(it, MS, "p", {"reverse": True})
        p1 = rec_of_atoms(it, MS, "p1", {"reverse": True})
        env.declare(p1.fields["marginal"], ("N", T1))
        env.declare(p1.fields["conditional"], ("C", T1, t_last))  # the contract
        env.declare(p0.fields["marginal"], ("N", A("t_first")))
        env.declare(p.fields["marginal"], ("N", A("t_stacked")))
        captured = {}

        def hook(itp, fn, a, kw, site, _c=captured):
            _c["self"] = a[0]
            return A("marginals")

        it.method_hooks[EST + ".MarkovSequence.evaluate_marginals"] = hook
        out = call(it, method(it, st, "finalize"), posterior0=p0, posterior=p, posterior1=p1, output_scale=scale)
        S.absorb(it)
        name = f"{ci.name}.finalize"
        full = captured.get("self")
        if not isinstance(full, Rec):
            r1.fail(name, "evaluate_marginals not reached", EST)
            continue
        seed_t = env.of(full.fields["marginal"])
        r1.require(seed_t is not None and seed_t[0] == "N" and TD.same(seed_t[1], t_last) and not env.errors, f"{name} seed", f"backward pass seeded with {TD.show_type(seed_t)}",
                   f"the backward pass is seeded with {TD.show_type(seed_t)}; the stacked conditionals start at {T.show(t_last)}; errors {env.errors[:1]}", where_of(full.fields["marginal"], EST))
        cond_seq = full.fields["conditional"]
        ok = isinstance(cond_seq, T.Term) and cond_seq.op == "mcall" and cond_seq.args[1] == "rescale_noise" and cond_seq.args[0] is p.fields["conditional"]
        r1.require(ok, f"{name} conditionals", "the (rescaled) stacked conditionals of the reported solutions", f"{T.show(cond_seq, 3)}", EST)
        r1.require(full.fields["reverse"] is True, f"{name} direction", "reverse factorisation", "", EST)
        # rescaling: all six parts with the same factor
        parts = {"p0.marginal": (p0.fields["marginal"], "rescale_cholesky"), "p.marginal": (p.fields["marginal"], "rescale_cholesky"), "p1.marginal": (p1.fields["marginal"], "rescale_cholesky"),
                 "p.conditional": (p.fields["conditional"], "rescale_noise"), "p1.conditional": (p1.fields["conditional"], "rescale_noise")}
        everything = [out, full]
        for lbl, (atom, meth) in parts.items():
            uses = [x for x in T.subterms(everything) if x is atom]
            resc = [m for m in mcalls(everything, meth) if m.args[0] is atom]
            raw_uses = [x for x in T.subterms(everything) if any(a is atom for a in x.args) and not (x.op == "mcall" and x.args[1] == meth) and x.op != "attr"]
            okr = len(resc) >= 1 and all(len(m.args) == 3 and m.args[2] is scale for m in resc) and not raw_uses
            if not uses and lbl == "p0.marginal":
                continue  # the initial marginal is not part of this strategy's result: nothing to decide
            r3.require(okr, f"{name} rescales {lbl}", "every use goes through rescale with the calibrated scale",
                       f"{lbl}: rescale calls {[T.show(m, 2) for m in resc]}, unscaled uses {[T.show(x, 2) for x in raw_uses[:2]]}", EST)
        sol = out[1] if isinstance(out, (tuple, list)) and len(out) == 2 else None
        r1.require(isinstance(sol, Rec) and sol.fields.get("posterior") is full and out[0] is A("marginals"), f"{name} result", "(marginals, SmoothingSolution(posterior=full posterior, filtering=...))", f"{T.show(out, 2)}", EST)
        if isinstance(sol, Rec):
            filt = sol.fields.get("filtering")
            okf = "p0.marginal" in T.atoms_of(filt) and "p.marginal" in T.atoms_of(filt) and "p1.marginal" not in T.atoms_of(filt)
            r1.require(okf, f"{name} filtering stack", "initial + reported filtering marginals (nothing beyond t1)", f"{T.show(filt, 3)}", EST)
        chk.sample({"rule": "R-C03-1", "strategy": ci.name, "seed_type": TD.show_type(seed_t)})
    # filter: no backward pass; rescale p0 and p
    it = S.interp()
    st = make_strategy(it, "strategy_filter")
    p0, p, p1, scale = A("p0"), A("p"), A("p1"), A("scale")
    out = call(it, method(it, st, "finalize"), posterior0=p0, posterior=p, posterior1=p1, output_scale=scale)
    resc = mcalls(out, "rescale_cholesky")
    okf = {m.args[0] for m in resc} == {p0, p} and all(m.args[2] is scale for m in resc) and "p1" not in T.atoms_of(out)
    r3.require(okf, "strategy_filter.finalize rescaling", "posterior0 and posterior rescaled; posterior1 unused", f"{T.show(out, 3)}", EST)
    # rescale_noise of a conditional rescales its noise and keeps the rest (concrete method of the API layer)
    it = S.interp()
    cv = it.class_value(API + ".AbstractLatentCond")
    cond = Rec(cv)
    cond.fields = {"A": A("A"), "noise": A("noise"), "to_latent": A("tl"), "to_observed": A("to")}
    o = call(it, method(it, cond, "rescale_noise"), A("factor"))
    ok = isinstance(o, Rec) and o.fields.get("noise") is T.mk("mcall", (A("noise"), "rescale_cholesky", A("factor"))) and all(o.fields.get(k) is cond.fields[k] for k in ("A", "to_latent", "to_observed"))
    r3.require(ok, "AbstractLatentCond.rescale_noise", "noise -> noise.rescale_cholesky(factor); A and scalings unchanged", f"{T.show(o, 3)}", API)
    # MarkovSequence.rescale_cholesky
    ms = rec_of_atoms(it, MS, "ms", {"reverse": True})
    o = call(it, method(it, ms, "rescale_cholesky"), A("factor"))
    ok = isinstance(o, Rec) and o.fields["marginal"] is T.mk("mcall", (ms.fields["marginal"], "rescale_cholesky", A("factor"))) and o.fields["conditional"] is T.mk("mcall", (ms.fields["conditional"], "rescale_noise", A("factor"))) and o.fields["reverse"] is True
    r3.require(ok, "MarkovSequence.rescale_cholesky", "marginal and conditional rescaled with the same factor", f"{T.show(o, 3)}", EST)
    # ... and the direction of the sequence is the sequence's own: a forward sequence (a prior on a grid) stays a forward sequence
    for rev in (True, False):
        it_r = S.interp()
        ms_r = rec_of_atoms(it_r, EST + ".MarkovSequence", "msr", {"reverse": rev})
        o_r = call(it_r, method(it_r, ms_r, "rescale_cholesky"), A("factor"))
        S.absorb(it_r)
        r3.require(isinstance(o_r, Rec) and o_r.fields.get("reverse") is rev, f"MarkovSequence.rescale_cholesky keeps the direction (reverse={rev})", f"reverse = {rev}",
                   f"a sequence with reverse={rev} comes back with reverse={o_r.fields.get('reverse') if isinstance(o_r, Rec) else o_r}: its samples and marginals are then evaluated in the wrong direction", EST, {"reverse": rev})
    S.absorb(it)


def sequence_rules(chk, S, r1):
    """evaluate_marginals: inductive reverse scan; remove_filtering_distributions; from_grid."""
    for reverse in (True, False):
        it = S.interp()
        # one marginal, a stack of conditionals (declared ranks decide the "filtering marginals present?" test)
        ms = rec_of_atoms(it, MS, "ms", {"reverse": reverse, "marginal": T.atom("ms1.marginal", ndims={"mean_flat": 1}), "conditional": T.atom("ms1.conditional", ndims={"noise.mean_flat": 2})})
        res = call(it, method(it, ms, "evaluate_marginals"))
        scans = events(it, "scan")
        cfg = {"reverse": reverse}
        if not scans:
            r1.fail("MarkovSequence.evaluate_marginals scan", "no scan reached", EST, cfg)
            continue
        sc = scans[-1]
        ok = sc["init"] is ms.fields["marginal"] and sc["xs"] is ms.fields["conditional"] and sc["reverse"] is reverse
        r1.require(ok, "MarkovSequence.evaluate_marginals scan wiring", "scan(step, init=marginal, xs=conditional, reverse=self.reverse)", f"init {T.show(sc['init'], 2)}, xs {T.show(sc['xs'], 2)}, reverse {sc['reverse']}", sc["site"], cfg)
        env = TD.TEnv()
        src, dst = A("sigma_src"), A("sigma_dst")
        env.declare(sc["carry"], ("N", src))
        env.declare(sc["x"], ("C", src, dst))
        tn, ty = env.of(sc["new_carry"]), env.of(sc["y"])
        r1.require(tn is not None and TD.same(tn[1], dst) and ty is not None and TD.same(ty[1], dst) and not env.errors, "MarkovSequence.evaluate_marginals induction", "conditional k applied to the variable at its source, carries the target on",
                   f"carry {TD.show_type(tn)}, output {TD.show_type(ty)}, errors {env.errors[:1]}", sc["site"], cfg)
        # result: computed marginals + the seed at the proper end
        seed_last = reverse
        okc = isinstance(res, T.Term) and res.op == "tree_concat" and len(res.args) == 2
        if okc:
            a0, a1 = res.args
            lift_first = isinstance(a0, T.Term) and a0.op == "lift"
            lift_last = isinstance(a1, T.Term) and a1.op == "lift"
            okc = (lift_last and not lift_first and a1.args[0] is ms.fields["marginal"]) if seed_last else (lift_first and not lift_last and a0.args[0] is ms.fields["marginal"])
        r1.require(okc, "MarkovSequence.evaluate_marginals seed placement", "seed appended after (reverse) / prepended before (forward) the computed marginals", f"{T.show(res, 3)}", EST, cfg)
    # remove_filtering_distributions: keeps the marginal at index -1 iff reverse
    for reverse in (True, False):
        it = S.interp()
        ms = rec_of_atoms(it, MS, "ms", {"reverse": reverse, "marginal": T.atom("ms2.marginal", ndims={"mean_flat": 2}), "conditional": T.atom("ms2.conditional", ndims={"noise.mean_flat": 2})})
        res = call(it, method(it, ms, "remove_filtering_distributions"))
        recs = [res] if isinstance(res, Rec) else [x for x in (res.args[1:] if isinstance(res, T.Term) and res.op == "ite" else [])]
        want = -1 if reverse else 0
        found = False
        for t in T.subterms(res):
            if t.op == "tree.tree_map" and t.args[-1] is ms.fields["marginal"] and isinstance(t.args[0], T.Term) and t.args[0].op == "lam":
                b = t.args[0].args[1]
                if isinstance(b, T.Term) and b.op == "getitem":
                    i = b.args[1][0] if isinstance(b.args[1], tuple) else b.args[1]
                    found = (i == want)
        r1.require(found, "MarkovSequence.remove_filtering_distributions index", f"keeps marginal[{want}] for reverse={reverse}", f"{T.show(res, 4)}", EST, {"reverse": reverse})
        # the result keeps the conditionals and the direction
        r1.require(isinstance(res, Rec) and res.fields.get("conditional") is ms.fields["conditional"] and res.fields.get("reverse") is reverse, "MarkovSequence.remove_filtering_distributions keeps conditionals and direction",
                   "MarkovSequence(marginal[idx], self.conditional, reverse=self.reverse)", f"{T.show(res, 3)}", EST, {"reverse": reverse})
    # the other arm of both rank tests: a sequence that carries one marginal only is returned unchanged; a sequence that carries filtering marginals is
    # stripped before its marginals are evaluated
    for reverse in (True, False):
        it = S.interp()
        ms = rec_of_atoms(it, MS, "ms", {"reverse": reverse, "marginal": T.atom("ms3.marginal", ndims={"mean_flat": 1}), "conditional": T.atom("ms3.conditional", ndims={"noise.mean_flat": 2})})
        res = call(it, method(it, ms, "remove_filtering_distributions"))
        r1.require(res is ms, "MarkovSequence.remove_filtering_distributions without filtering marginals", "returns the sequence unchanged", f"{T.show(res, 3)}", EST, {"reverse": reverse})
        it = S.interp()
        ms = rec_of_atoms(it, MS, "ms", {"reverse": reverse, "marginal": T.atom("ms4.marginal", ndims={"mean_flat": 2}), "conditional": T.atom("ms4.conditional", ndims={"noise.mean_flat": 2})})
        got = []

        def em_hook(itp, fn, a, kw, site, _g=got):
            from ..interp import _MISSING

            _g.append(a[0])
            if len(_g) > 1:
                return A("marginals_of_the_stripped_sequence")
            return _MISSING

        it.method_hooks[EST + ".MarkovSequence.evaluate_marginals"] = em_hook
        res = call(it, method(it, ms, "evaluate_marginals"))
        ok = len(got) == 2 and isinstance(got[1], Rec) and got[1].fields["conditional"] is ms.fields["conditional"] and got[1].fields["marginal"] is not ms.fields["marginal"] and res is A("marginals_of_the_stripped_sequence")
        r1.require(ok, "MarkovSequence.evaluate_marginals with filtering marginals", "delegates to remove_filtering_distributions().evaluate_marginals() and returns its result", f"{len(got)} calls, result {T.show(res, 3)}", EST, {"reverse": reverse})
    # from_grid: conditionals from np.diff(grid)
    it = S.interp()
    cv = it.class_value(MS)
    prior, grid = A("prior"), A("grid")
    res = it.call(it.getattr(cv, "from_grid", None), [prior], {"grid": grid, "reverse": False}, "<harness>")
    vm = [e for e in it.events if e["kind"] == "vmap"]
    ok = isinstance(res, Rec) and res.fields["marginal"] is T.mk("attr", (prior, "init")) and len(vm) == 1 and vm[0]["args"][0] is T.mk("np.diff", (grid,)) and vm[0]["opts"].get("in_axes") == (0, None)
    if ok:
        dt, sc_ = A("dt_k"), A("scale")
        one = it.call(vm[0]["fn"], [dt, sc_], {}, "<harness>")
        ok = one is T.mk("mcall", (prior, "transition"), {"dt": dt, "output_scale": sc_})
    r1.require(ok, "MarkovSequence.from_grid", "conditional k = prior.transition(dt=diff(grid)[k]) (batched over steps only), marginal = prior.init", f"{T.show(res, 3)}", EST)
    S.absorb(it)


# ---------------------------------------------------------------------------
def fixed_grid_rules(chk, S, r2):
    solvers = [c.name for c in S.p.subclasses(SOLVERS + ".ProbabilisticSolver")]
    for sname in solvers:
        for strategy in STRATEGIES:
            cfg = {"routine": "solve_fixed_grid", "solver": sname, "strategy": strategy}
            it = S.interp()
            solver = make_solver(it, sname, strategy)
            captured = {}

            def hook(itp, fn, a, kw, site, _c=captured):
                _c["kw"] = kw
                return (A("marginals"), A("posterior"))

            for sq in ("Smoother", "strategy_filter"):
                it.method_hooks[f"{EST}.{sq}.finalize"] = hook
            mk = it.function_value(FIXED + ".solve_fixed_grid")
            try:
                solve = it.call(mk, [], {"solver": solver}, "<harness>")
                it.call(solve, [A("prior")], {"grid": A("grid"), "damp": A("damp")}, "<harness>")
            except AnalysisError as e:
                r2.unknown(f"solve_fixed_grid [{sname} x {strategy}]", str(e), config=cfg)
                continue
            S.absorb(it)
            scans = events(it, "scan")
            if len(scans) != 1 or "kw" not in captured:
                r2.fail(f"solve_fixed_grid [{sname} x {strategy}]", f"{len(scans)} scans, finalize reached: {'kw' in captured}", FIXED, cfg)
                continue
            sc = scans[0]
            name = f"solve_fixed_grid [{sname} x {strategy}]"
            r2.require(sc["y"] is sc["new_carry"] and sc["xs"] is T.mk("np.diff", (A("grid"),)) and sc["reverse"] is False, f"{name} scan", "steps over diff(grid) in order; every state is reported", "", sc["site"], cfg)
            carry, new = sc["carry"], sc["new_carry"]
            if not (isinstance(carry, Rec) and isinstance(new, Rec)):
                r2.fail(f"{name} carry", "not a solution record", FIXED, cfg)
                continue
            env = TD.TEnv()
            t = carry.fields["t"]
            sf = carry.fields["solution_full"]
            env.declare(carry.fields["u"], ("N", t))
            if isinstance(sf, Rec):
                env.declare(sf.fields["marginal"], ("N", t))
                env.declare(sf.fields["conditional"], ("C", t, A("older")))
            else:
                env.declare(sf, ("N", t))
            dtk = sc["x"]
            r2.require(nf.equal(new.fields["t"], T.mk("add", (t, dtk))), f"{name} time", "t_{k+1} = t_k + diff(grid)[k]", f"{T.show(new.fields['t'])}", FIXED, cfg)
            mt, ct = posterior_types(env, new.fields["solution_full"])
            oki = mt is not None and TD.same(mt[1], new.fields["t"]) and not env.errors
            if isinstance(sf, Rec):
                oki = oki and ct is not None and ct[0] == "C" and TD.same(ct[1], new.fields["t"])
            r2.require(oki, f"{name} invariant", f"state after a step: marginal {TD.show_type(mt)}, backward {TD.show_type(ct)}", f"state invariant broken: marginal {TD.show_type(mt)}, backward {TD.show_type(ct)}, errors {env.errors[:1]}", FIXED, cfg)
            if strategy.endswith("fixedinterval"):
                r2.require(ct is not None and ct[0] == "C" and TD.same(ct[2], t), f"{name} stacked conditionals", "element k maps t_{k+1} -> t_k", f"{TD.show_type(ct)}", FIXED, cfg)
            # finalize's contract
            kw = captured["kw"]
            p1 = kw.get("posterior1")
            fin = sc["final"]
            T_fin = fin.fields["t"]
            env2 = TD.TEnv()
            fsf = fin.fields["solution_full"]
            if isinstance(fsf, Rec):
                env2.declare(fsf.fields["marginal"], ("N", T_fin))
                env2.declare(fsf.fields["conditional"], ("C", T_fin, A("t_before_last")))
            else:
                env2.declare(fsf, ("N", T_fin))
            m1, c1 = posterior_types(env2, p1)
            if strategy == "strategy_filter":
                pass  # filters do not use posterior1: nothing to decide
            else:
                okc = m1 is not None and TD.same(m1[1], T_fin) and c1 is not None and (c1[0] == "CI" or (c1[0] == "C" and TD.same(c1[1], T_fin) and TD.same(c1[2], T_fin)))
                r2.require(okc, f"{name} contract", f"resume state at the last grid point: marginal {TD.show_type(m1)}, backward {TD.show_type(c1)}",
                           f"finalize receives a resume state with marginal {TD.show_type(m1)} and backward model {TD.show_type(c1)}; the last reported time is {T.show(T_fin)}: the terminal marginal would be taken at the wrong time",
                           FIXED, cfg)
            r2.require(kw.get("posterior") is (sc["ys"].fields["solution_full"] if isinstance(sc["ys"], Rec) else None) or _same_struct(kw.get("posterior"), sc["ys"].fields["solution_full"] if isinstance(sc["ys"], Rec) else None), f"{name} reported posteriors", "posterior = stacked step results", "", FIXED, cfg)
            if len(chk.samples) < 8:
                chk.sample({"config": cfg, "resume_marginal": TD.show_type(m1), "resume_backward": TD.show_type(c1)})


def _same_struct(a, b):
    if isinstance(a, Rec) and isinstance(b, Rec):
        return a.fields.keys() == b.fields.keys() and all(_same_struct(a.fields[k], b.fields[k]) for k in a.fields)
    return a is b or a == b


def adaptive_rules(chk, S, r2):
    """The two reporting arms of the rejection loop leave a resume state that satisfies finalize's contract."""
    for strategy in ("strategy_smoother_fixedpoint", "strategy_smoother_fixedinterval"):
        for sname in ("solver", "solver_mle", "solver_dynamic"):
            cfg = {"routine": "adaptive (save_at / save-every-step)", "solver": sname, "strategy": strategy}
            it = S.interp()
            solver = make_solver(it, sname, strategy)
            loop = make_loop(it, False, solver=solver)
            env = TD.TEnv()
            anchor = A("anchor")
            sfrom = typed_solution(it, env, strategy, "step_from", anchor=anchor if strategy.endswith("fixedpoint") else A("interp_from.t"))
            ifrom = typed_solution(it, env, strategy, "interp_from", anchor=anchor if strategy.endswith("fixedpoint") else A("prev"))
            state = rec_of_atoms(it, ADAPT + ".TimeStepState", "s", {"step_from": sfrom, "interp_from": ifrom})
            t_chk = A("t_chk")
            for arm in ("interp_beyond_t1", "interp_at_t1"):
                sol, ns = call(it, method(it, loop, arm), (state, t_chk))
                rep_m, _ = posterior_types(env, sol.fields["solution_full"])
                m1, c1 = posterior_types(env, ns.fields["step_from"].fields["solution_full"])
                ok = rep_m is not None and m1 is not None and c1 is not None
                if ok:
                    t_rep = rep_m[1]
                    ok = c1[0] == "CI" and TD.same(m1[1], t_rep) or (c1[0] == "C" and TD.same(c1[1], m1[1]) and TD.same(c1[2], t_rep))
                r2.require(ok and not env.errors, f"RejectionLoop.{arm} establishes finalize's contract [{sname} x {strategy}]", f"reported {TD.show_type(rep_m)}; resume {TD.show_type(m1)} with {TD.show_type(c1)}",
                           f"after {arm} the report is {TD.show_type(rep_m)} but the resume state is {TD.show_type(m1)} with backward model {TD.show_type(c1)}: finalize would seed the backward pass at the wrong time; errors {env.errors[:1]}",
                           ADAPT, {**cfg, "arm": arm})
                env.errors.clear()
            S.absorb(it)


def run(chk, S: Session):
    _run_own(chk, S)
    from ..harness import borrow

    rb = chk.rule("R-C03-B", "clauses of this statement decided by rules of C05 (what the adaptive routines report when a step ends exactly at, or beyond, a checkpoint)", floor=10)
    borrow(chk, S, rb, "C05", lambda r, c: r == "R-C05-2")
    rb2 = chk.rule("R-C03-B2", "the returned backward factorisation is consumed with consistent indices by the log-likelihood pass (rule of C12: conditional k is paired with the datum and the observation model of its own time point)", floor=2)
    borrow(chk, S, rb2, "C12", lambda r, c: r == "R-C12-1")
