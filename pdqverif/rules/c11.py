"""C11 -- jet lifting and constraint constructors."""

from __future__ import annotations

from .. import nf
from .. import terms as T
from .. import xdomain
from ..harness import API, BLOCK, DENSE, ISO, MATFREE, PROBLEMS, A, Rec, Session, call, mcalls, method, where_of
from ..interp import BoundMethod, Closure, HarnessFn, RaiseSignal, WrappedFn
from ..model import AnalysisError

EXPLANATION = (
    "Abstract interpretation of JetAbstract.lift / JetOde.jet_lift / jet_lift_max / JetResidual.jet_lift*, residual_from_ode, "
    "residual_from_stack, constraint_ode_ts1 and every factorisation's TS0 and residual linearize(): lift_by range/type guards "
    "raise before the jet call (enumerated over a grid of coefficient counts and lift orders), time is a differentiated input of the "
    "lift with series (1,0,...), output-index bookkeeping of lifted ODEs/residuals, TS1 == residual constraint of u^(k) - f, stacked "
    "residuals evaluate each part on its own coefficients, and the linearisation point handed to the Jacobian handler is the point "
    "contracted with the Jacobian in the offset f(xi) - J xi (dense: Taylor point; isotropic: trace / d; block-diagonal: per-dimension blocks).  "
    "The nine problem constructors (ode*, ode_autonomous*, residual_position/velocity/acceleration) are cross-checked as siblings: coefficients in order, "
    "the caller's time, arity = declared inputs, output index = arity, handler passed through / documented default."
)
LEVEL = "other"
TECHNIQUE = "abstract interpretation over the AST: differentiation-coverage analysis, concrete evaluation of trace-time statics over a finite grid, provenance/value-number identity of linearisation points, class-hierarchy analysis"
LEVEL_TEXT = (
    "Index bookkeeping and guards are enumerated over all (num_tcoeffs_in_args, lift_by, available coefficients) in a finite grid that covers "
    "admissible and inadmissible cases; the linearisation-point clause is an identity on the source for every residual and state."
)
LEVEL_NOTE = (
    "Trusted: jax.experimental.jet computes the Taylor propagation it is asked for; Jacobian handlers return (f(x), J(x), state) (their own layout is C17). "
    "The slice arithmetic of args_autonomous_and_jet_compatible is evaluated concretely on the grid (statics), not proven for all lengths."
)


def _layout_or_squeeze(idx):
    items = idx if isinstance(idx, tuple) else (idx,)
    return all(i is None or i is Ellipsis or i == 0 or (isinstance(i, slice) and i.start is None and i.stop is None and i.step is None) for i in items)


def strip_layout(t):
    while isinstance(t, T.Term):
        if t.op in ("np.reshape", "np.asarray", "np.transpose") and t.args:
            t = t.args[0]
        elif t.op == "getitem" and _layout_or_squeeze(t.args[1]) and not isinstance(t.args[1], int):
            t = t.args[0]
        elif t.op == "attr" and t.args[1] == "T":
            t = t.args[0]
        elif t.op == "mcall" and t.args[1] == "reshape":
            t = t.args[0]
        else:
            break
    return t


def consumer_shapes(name, h, rv, offset_term):
    """Shape-check the offset f - J*m with the handler's documented block layout (domain A).

    Handlers work on (n, d) arrays: fx is (n_out, d); the dense block is (n_out, d, n_in, d), the trace block (n_out, n_in),
    the diagonal block (d, n_out, n_in).  The mean is (n.d,) / (n, d) / (d, n) for dense / isotropic / block-diagonal."""
    from .. import adomain as AD

    env = AD.AEnv()
    n_in, n_out, d = AD.dim("n_in"), AD.dim("n_out"), AD.dim("d")
    fx, J = T.mk("getitem", (h, 0)), T.mk("getitem", (h, 1))
    mf = T.mk("attr", (rv, "mean_flat"))
    if "Isotropic" in name:
        env.declare(fx, AD.AT([AD.axis(n_out), AD.axis(d)]))
        env.declare(J, AD.AT([AD.axis(n_out), AD.axis(n_in)]))
        env.declare(mf, AD.AT([AD.axis(n_in), AD.axis(d)]))
        want = [n_out, d]
    elif "BlockDiag" in name:
        env.declare(fx, AD.AT([AD.axis(n_out), AD.axis(d)]))
        env.declare(J, AD.AT([AD.axis(d), AD.axis(n_out), AD.axis(n_in)]))
        env.declare(mf, AD.AT([AD.axis(d), AD.axis(n_in)]))
        want = [d, n_out]
    else:
        return True, "dense: materialised Jacobian reshaped to a matrix (layout checked in C17)"
    t = env.of(offset_term)
    if t is None:
        return None, f"offset {T.show(offset_term, 4)} could not be shape-typed ({[u[1] for u in env.unknown[:2]]})"
    if env.errors:
        return False, f"offset {T.show(offset_term, 4)}: {env.errors[0]}"
    ok = [ax.size for ax in t.axes] == want
    return ok, f"offset f - J*m : {AD.show(t)}"


def first_rec(v):
    """A record out of a possibly ite-joined value."""
    if isinstance(v, Rec):
        return v
    if isinstance(v, T.Term) and v.op == "ite":
        for x in v.args[1:]:
            r = first_rec(x)
            if r is not None:
                return r
    return None


def _run_own(chk, S: Session):
    chk.trust("jax.experimental.jet", "Jacobian handlers return (fx, J, state)")
    r1 = chk.rule("R-C11-1", "lift_by range / type guards raise before the jet call; already-lifted ODEs are rejected", floor=30)
    r2 = chk.rule("R-C11-2", "in lift(), time is a differentiated input with series (1, 0, ...)", floor=6)
    r3 = chk.rule("R-C11-3", "index bookkeeping of jet_lift / jet_lift_max (ODE and residual)", floor=20)
    r4 = chk.rule("R-C11-4", "constraint_ode_ts1 == constraint_residual(residual_from_ode(ode)); residual_from_ode / residual_from_stack structure", floor=8)
    r5 = chk.rule("R-C11-5", "linearisation-point consistency of every linearize(); TS0 selects output rows and evaluates f at the mean", floor=14)

    r6 = chk.rule("R-C11-6", "every problem constructor hands the coefficients to the user function in order, with the caller's time, and declares the "
                  "matching arity / output index / Jacobian handler (sibling agreement of the nine constructors)", floor=40)

    lift_rules(chk, S, r1, r2, r3)
    residual_rules(chk, S, r4)
    linearize_rules(chk, S, r5)
    constructor_rules(chk, S, r6)


# ---------------------------------------------------------------------------
def mk_ode(it, num, out=None, vfield=None):
    return it.instantiate(it.class_value(PROBLEMS + ".JetOde"), [vfield if vfield is not None else A("vfield")], dict(jacobian=A("jac"), num_tcoeffs_in_args=num, tcoeff_indices_output=out if out is not None else [num]), "<harness>")


def mk_res(it, num, rfun=None, jac=None):
    return it.instantiate(it.class_value(PROBLEMS + ".JetResidual"), [rfun if rfun is not None else A("rfun")], dict(jacobian=jac if jac is not None else A("jac"), num_tcoeffs_in_args=num), "<harness>")


def lift_rules(chk, S, r1, r2, r3):
    grid = 0
    for kind in ("residual", "ode"):
        for num in (1, 2, 3):
            for n_avail in range(num, num + 4):
                for lift_by in range(-1, n_avail - num + 2):
                    grid += 1
                    cfg = {"kind": kind, "num_tcoeffs_in_args": num, "available": n_avail, "lift_by": lift_by}
                    it = S.interp()
                    xdomain.install(it)
                    obj = mk_res(it, num) if kind == "residual" else mk_ode(it, num)
                    admissible = 0 <= lift_by <= n_avail - num
                    try:
                        lifted = call(it, method(it, obj, "jet_lift"), lift_by=lift_by)
                    except RaiseSignal as e:
                        r1.fail(f"{kind}.jet_lift(lift_by={lift_by})", f"raises {e.exc} at construction for an int lift order", e.site, cfg)
                        continue
                    fn = lifted.fields["residual_function" if kind == "residual" else "vector_field"]
                    coords = [T.atom(f"c{i}", array=True) for i in range(n_avail)]
                    tt = A("t")
                    try:
                        out = it.call(fn, [], {"jet_coords": coords, "t": tt}, "<harness>")
                        raised = None
                    except RaiseSignal as e:
                        out, raised = None, e
                    S.absorb(it)
                    name = f"lift[{kind},num={num},avail={n_avail},lift_by={lift_by}]"
                    if not admissible:
                        ok = raised is not None and getattr(raised.exc, "cls_name", "") == "ValueError" and not it.diff_events
                        r1.require(ok, f"JetAbstract.lift range guard {cfg}", "ValueError before the jet call",
                                   f"inadmissible lift order: {'raises ' + str(raised.exc) if raised else 'no exception'}; jet calls before: {len(it.diff_events)}", raised.site if raised else PROBLEMS, cfg)
                        continue
                    if raised is not None:
                        r1.fail(f"JetAbstract.lift range guard {cfg}", f"admissible lift order rejected: {raised.exc}", raised.site, cfg)
                        continue
                    r1.ok(f"JetAbstract.lift range guard {cfg}", "admissible lift order accepted", config=cfg, nontrivial=False)
                    # number of outputs = lift_by + 1
                    r3.require(isinstance(out, list) and (len(out) == lift_by + 1 or (lift_by >= 1 and len(out) == 2 and isinstance(out[1], T.Term))), f"{name} outputs", f"{lift_by + 1} Taylor coefficients of the output",
                               f"{len(out) if isinstance(out, list) else out} outputs", PROBLEMS, cfg)
                    # bookkeeping of the lifted object
                    want_num = num + lift_by
                    r3.require(lifted.fields.get("num_tcoeffs_in_args") == want_num, f"{name} num_tcoeffs_in_args", f"= {want_num}", f"= {lifted.fields.get('num_tcoeffs_in_args')}", PROBLEMS, cfg)
                    if kind == "ode":
                        want_idx = [num + ell for ell in range(lift_by + 1)]
                        r3.require(lifted.fields.get("tcoeff_indices_output") == want_idx, f"{name} tcoeff_indices_output", f"= {want_idx}", f"= {lifted.fields.get('tcoeff_indices_output')}", PROBLEMS, cfg)
                    # X-domain: time differentiated
                    evs = list(it.diff_events)
                    it.diff_events = []
                    if lift_by == 0:
                        # direct call: fun(jet_coords=first num coords, t=t)
                        target = A("rfun") if kind == "residual" else A("vfield")
                        cs = [t for t in T.subterms(out) if t.op == "call" and t.args[0] is target]
                        ok = len(cs) >= 1 and all(c.kwargs.get("t") is tt for c in cs)
                        r2.require(ok, f"{name} direct call", "f(jet_coords[:num], t=t)", f"{[T.show(c, 3) for c in cs]}", PROBLEMS, cfg)
                        continue
                    target = A("rfun") if kind == "residual" else A("vfield")
                    if len(evs) != 1:
                        r2.fail(f"{name} jet call", f"{len(evs)} jet calls", PROBLEMS, cfg)
                        continue
                    ev = evs[0]
                    for ok, construct, detail in xdomain.check_event(it, ev, lambda t, tg=target: t.op == "call" and t.args[0] is tg, tt):
                        r2.require(ok, f"{name} time differentiated", detail, detail, ev["site"], cfg)
                    # the lifted function returns *derivatives* (what the constraints compare with the state's Taylor derivatives): jet must use the
                    # derivative convention, is_tcoeff=False; with normalised coefficients output k would be off by k! from k = 2 on
                    r2.require(ev.get("is_tcoeff", False) is False, f"{name} derivative convention", "func.jet(..., is_tcoeff=False)", f"is_tcoeff={ev.get('is_tcoeff')}", ev["site"], cfg)
                    # primals are the first num coefficients (raveled) followed by t; series k = coefficients k+1 .. k+lift_by
                    ps, ss = ev["primals"], ev["series"]
                    rav = [T.mk("tree.ravel", (c,)) for c in coords]
                    okp = isinstance(ps, list) and ps[:-1] == rav[:num] and ps[-1] is tt
                    oks = isinstance(ss, list) and len(ss) == num + 1 and all(ss[k] == rav[k + 1 : k + 1 + lift_by] for k in range(num))
                    # the time series is (1, 0, ..., 0) with exactly as many entries as the state series (jet needs equal lengths)
                    oks = oks and isinstance(ss[num], list) and len(ss[num]) == lift_by and (lift_by == 0 or (ss[num][0] == 1.0 and all(v == 0.0 for v in ss[num][1:])))
                    r2.require(okp and oks, f"{name} primals/series", "primals = (c_0..c_{num-1}, t); series_k = (c_{k+1}, ..., c_{k+lift_by}); series_t = (1, 0, ..., 0) of the same length",
                               f"primals {T.show(ps, 2)}, series {T.show(ss, 2)}", ev["site"], cfg)
    chk.extra["lift_grid"] = grid
    # the same lifting with *pytree* coefficients (not arrays): nothing is asked of the values here -- the scenario exists so that the closure census of
    # the driver (rule R-C11-D) sees every layout closure that lifting applies to new values, inside the differentiated callable too
    for kind in ("residual", "ode"):
        it = S.interp()
        xdomain.install(it)
        obj = mk_res(it, 1) if kind == "residual" else mk_ode(it, 1)
        lifted = call(it, method(it, obj, "jet_lift"), lift_by=2)
        fn = lifted.fields["residual_function" if kind == "residual" else "vector_field"]
        coords = [T.atom(f"pytree_c{i}", array=False) for i in range(3)]
        try:
            it.call(fn, [], {"jet_coords": coords, "t": A("t")}, "<harness>")
            target = A("rfun") if kind == "residual" else A("vfield")
            for ev in list(it.diff_events):
                xdomain.check_event(it, ev, lambda t, tg=target: t.op == "call" and t.args[0] is tg, A("t"))
        except (AnalysisError, RaiseSignal) as e:
            r3.unknown(f"lift[{kind}] with pytree coefficients", f"not analysed: {e}", PROBLEMS)
        S.absorb(it)
    # type guards and lifted ODEs
    it = S.interp()
    for kind, obj in (("ode", mk_ode(it, 1)), ("residual", mk_res(it, 1))):
        try:
            call(it, method(it, obj, "jet_lift"), lift_by=1.0)
            r1.fail(f"{kind}.jet_lift type guard", "float lift order accepted", PROBLEMS)
        except RaiseSignal as e:
            r1.require(getattr(e.exc, "cls_name", "") == "TypeError", f"{kind}.jet_lift type guard", "TypeError for non-int", f"raises {e.exc}", e.site)
    lifted_ode = mk_ode(it, 1, out=[1, 2])
    for m, kw in (("jet_lift", {"lift_by": 1}), ("jet_lift_max", {"num_tcoeffs": 4})):
        try:
            call(it, method(it, lifted_ode, m), **kw)
            r1.fail(f"JetOde.{m} on a lifted ODE", "accepted", PROBLEMS)
        except RaiseSignal as e:
            r1.require(getattr(e.exc, "cls_name", "") in ("NotImplementedError", "ValueError"), f"JetOde.{m} on a lifted ODE", "rejected", f"raises {e.exc}", e.site)
    try:
        call(it, lifted_ode, A("u"), t=A("t")) if False else it.call(BoundMethod(it.method_closure(*it.find_method_node(lifted_ode.cls, "__call__")), lifted_ode), [A("u")], {"t": A("t")}, "<harness>")
        r1.fail("JetOde.__call__ on a lifted ODE", "accepted", PROBLEMS)
    except RaiseSignal as e:
        r1.require(getattr(e.exc, "cls_name", "") == "ValueError", "JetOde.__call__ on a lifted ODE", "ValueError", f"raises {e.exc}", e.site)
    # jet_lift_max bookkeeping
    for num in (1, 2, 3):
        for n in range(num + 1, num + 5):
            o = call(it, method(it, mk_ode(it, num), "jet_lift_max"), num_tcoeffs=n)
            idx = o.fields["tcoeff_indices_output"]
            r3.require(idx[-1] == n - 1 and idx[0] == num and o.fields["num_tcoeffs_in_args"] == n - 1, f"JetOde.jet_lift_max(num={num}, num_tcoeffs={n})", f"observes coefficients {num}..{n - 1}",
                       f"indices {idx}, inputs {o.fields['num_tcoeffs_in_args']}", PROBLEMS)
            o = call(it, method(it, mk_res(it, num), "jet_lift_max"), num_tcoeffs=n)
            r3.require(o.fields["num_tcoeffs_in_args"] == n, f"JetResidual.jet_lift_max(num={num}, num_tcoeffs={n})", f"uses all {n} coefficients", f"inputs {o.fields['num_tcoeffs_in_args']}", PROBLEMS)
    S.absorb(it)


# ---------------------------------------------------------------------------
def residual_rules(chk, S, r4):
    it = S.interp()
    for k in (1, 2, 3):
        ode = mk_ode(it, k)
        f = it.function_value(PROBLEMS + ".residual_from_ode")
        res = it.call(f, [ode], {}, "<harness>")
        ok = isinstance(res, Rec) and res.cls.info.name == "JetResidual" and res.fields.get("num_tcoeffs_in_args") == k + 1 and res.fields.get("jacobian") is A("jac")
        r4.require(ok, f"residual_from_ode(order {k}) record", f"JetResidual with {k + 1} inputs and the ODE's Jacobian handler", f"{T.show(res, 2)}", PROBLEMS)
        coords = [A(f"c{i}") for i in range(k + 1)]
        val = it.call(res.fields["residual_function"], [], {"jet_coords": coords, "t": A("t")}, "<harness>")
        vf = T.mk("call", (A("vfield"),), {"jet_coords": coords[:k], "t": A("t")})
        want = [T.mk("sub", (coords[k], T.mk("getitem", (vf, 0))))]
        r4.require(val == want or (isinstance(val, list) and len(val) == 1 and nf.equal(val[0], want[0])), f"residual_from_ode(order {k}) value", "u^(k) - f(u, ..., u^(k-1), t)", f"{T.show(val, 4)}", PROBLEMS)
    f = it.function_value(PROBLEMS + ".residual_from_stack")
    ra, rb = mk_res(it, 1, A("r1"), A("jac1")), mk_res(it, 3, A("r2"), A("jac2"))
    st = it.call(f, [ra, rb], {}, "<harness>")
    coords = [A(f"c{i}") for i in range(3)]
    val = it.call(st.fields["residual_function"], [], {"jet_coords": coords, "t": A("t")}, "<harness>")
    want = [T.mk("call", (A("r1"),), {"jet_coords": coords[:1], "t": A("t")}), T.mk("call", (A("r2"),), {"jet_coords": coords[:3], "t": A("t")})]
    r4.require(val == want, "residual_from_stack value", "each part on its own coefficients, same t", f"{T.show(val, 3)}", PROBLEMS)
    r4.require(st.fields.get("num_tcoeffs_in_args") == 3 and st.fields.get("jacobian") is A("jac1"), "residual_from_stack record", "max of the parts' inputs, first part's handler", f"{T.show(st, 2)}", PROBLEMS)
    # TS1 is the residual constraint of residual_from_ode, in the base class only
    overriders = [c.qualname for c in S.p.subclasses(API + ".StateSpaceModel") if "constraint_ode_ts1" in c.methods]
    r4.require(not overriders, "constraint_ode_ts1 not overridden", "all factorisations share the base definition", f"overridden in {overriders}", API)
    for ci in S.p.subclasses(API + ".StateSpaceModel"):
        it2 = S.interp()
        init_node = ci.methods.get("__init__")
        kwinit = {a.arg: A(f"ssm.{a.arg}") for a in (init_node.args.kwonlyargs if init_node else [])}
        ssm = it2.instantiate(it2.class_value(ci.qualname), [], kwinit, "<harness>")
        got = []

        def hook(itp, fn, a, kw, site, _g=got):
            _g.append((a, kw))
            return T.atom("constraint")

        it2.method_hooks[f"{ci.qualname}.constraint_residual"] = hook
        ode = mk_ode(it2, 2)
        tp = None if ci.qualname != DENSE + ".state_space_model_dense" else A("tp")
        out = call(it2, method(it2, ssm, "constraint_ode_ts1"), ode, **({"taylor_point": tp} if tp is not None else {}))
        ok = len(got) == 1 and out is T.atom("constraint")
        if ok:
            (a, kw) = got[0]
            res = a[1]
            ok = isinstance(res, Rec) and res.cls.info.name == "JetResidual" and res.fields.get("num_tcoeffs_in_args") == 3 and kw.get("taylor_point") is tp
            if ok:
                coords = [A(f"c{i}") for i in range(3)]
                v = it2.call(res.fields["residual_function"], [], {"jet_coords": coords, "t": A("t")}, "<harness>")
                vf = T.mk("call", (A("vfield"),), {"jet_coords": coords[:2], "t": A("t")})
                ok = isinstance(v, list) and len(v) == 1 and nf.equal(v[0], T.mk("sub", (coords[2], T.mk("getitem", (vf, 0)))))
        r4.require(ok, f"{ci.name}.constraint_ode_ts1", "constraint_residual(residual_from_ode(ode), taylor_point=...)", f"{T.show(got, 2)}", API)
        S.absorb(it2)
    S.absorb(it)


# ---------------------------------------------------------------------------
CONSTRUCTORS = [
    # name, kind, arity (None: keyword num_tcoeffs_in_args), time-dependent
    ("ode", "JetOde", 1, True),
    ("ode_order_two", "JetOde", 2, True),
    ("ode_order_arbitrary", "JetOde", None, True),
    ("ode_autonomous", "JetOdeAutonomous", 1, False),
    ("ode_autonomous_order_two", "JetOdeAutonomous", 2, False),
    ("ode_autonomous_order_arbitrary", "JetOdeAutonomous", None, False),
    ("residual_position", "JetResidual", 1, True),
    ("residual_velocity", "JetResidual", 2, True),
    ("residual_acceleration", "JetResidual", 3, True),
]


def constructor_rules(chk, S, r6):
    m = S.p.module(PROBLEMS)
    exported = set(m.all_names or []) if hasattr(m, "all_names") else set()
    known = {c[0] for c in CONSTRUCTORS} | {"residual_from_ode", "residual_from_stack"}
    # a constructor added later must be added to the table (never silently unchecked)
    cands = [n for n in m.functions if (n.startswith("ode") or n.startswith("residual_")) and "." not in n]
    for n in cands:
        if n not in known:
            r6.unknown(f"constructor {n}", "public problem constructor not in the checker's table", PROBLEMS)
    for name, cls, arity, timed in CONSTRUCTORS:
        if name not in m.functions:
            raise AnalysisError(f"{PROBLEMS}.{name} not found (anchor vanished)")
        for k in ([arity] if arity is not None else [1, 2, 3, 4]):
            for jac in (A("jac"), None):
                it = S.interp()
                f = it.function_value(f"{PROBLEMS}.{name}")
                kw = {}
                if jac is not None:
                    kw["jacobian"] = jac
                if arity is None:
                    kw["num_tcoeffs_in_args"] = k
                cfg = {"constructor": name, "arity": k, "jacobian": "given" if jac is not None else "default"}
                try:
                    obj = it.call(f, [A("userfn")], kw, "<harness>")
                except (RaiseSignal, AnalysisError) as e:
                    r6.fail(f"{name} construct", f"construction failed: {e}", PROBLEMS, cfg)
                    continue
                ok = isinstance(obj, Rec) and obj.cls.info.name == cls and obj.fields.get("num_tcoeffs_in_args") == k
                r6.require(ok, f"{name} record", f"{cls} with {k} inputs", f"{T.show(obj, 2)}", PROBLEMS, cfg)
                if not ok:
                    continue
                if cls != "JetResidual":
                    r6.require(obj.fields.get("tcoeff_indices_output") == [k], f"{name} output index", f"constrains coefficient {k}", f"tcoeff_indices_output = {obj.fields.get('tcoeff_indices_output')}", PROBLEMS, cfg)
                j = obj.fields.get("jacobian")
                if jac is not None:
                    r6.require(j is jac, f"{name} handler", "the caller's Jacobian handler", f"{T.show(j, 2)}", PROBLEMS, cfg)
                else:
                    r6.require(isinstance(j, Rec) and j.cls.info.name == "jacobian_monte_carlo_rev", f"{name} default handler", "jacobian_monte_carlo_rev()", f"{T.show(j, 2)}", PROBLEMS, cfg)
                    continue
                coords = [A(f"c{i}") for i in range(k)]
                fn = obj.fields["residual_function"] if cls == "JetResidual" else obj.fields["vector_field"]
                try:
                    val = it.call(fn, [], {"jet_coords": coords, "t": A("t")}, "<harness>")
                except (RaiseSignal, AnalysisError) as e:
                    r6.fail(f"{name} evaluation", f"evaluation failed: {e}", PROBLEMS, cfg)
                    continue
                want = T.mk("call", (A("userfn"), *coords), {"t": A("t")} if timed else {})
                if cls == "JetOdeAutonomous":
                    good = val is want or (isinstance(val, list) and len(val) == 1 and val[0] is want)
                else:
                    good = isinstance(val, list) and len(val) == 1 and val[0] is want
                r6.require(good, f"{name} evaluation", "user function on (c0, ..., c_{k-1})" + (" at the caller's t" if timed else ""), f"evaluates {T.show(val, 3)}; expected [{T.show(want, 3)}]", PROBLEMS, cfg)
                # more coefficients than the arity: fixed-arity wrappers must reject them, arbitrary-order wrappers use the first k
                more = [*coords, A("extra")]
                try:
                    val2 = it.call(fn, [], {"jet_coords": more, "t": A("t")}, "<harness>")
                    good2 = (val2 is want) or (isinstance(val2, list) and len(val2) == 1 and val2[0] is want)
                    r6.require(good2, f"{name} surplus coefficients", "uses the first k coefficients", f"{k + 1} coefficients evaluate {T.show(val2, 3)}", PROBLEMS, cfg)
                except RaiseSignal:
                    r6.require(arity is not None, f"{name} surplus coefficients", "rejected (unpacking error)", "arbitrary-order wrapper rejects surplus coefficients", PROBLEMS, cfg)
                S.absorb(it)


def _rfun_list():
    """A residual function with the documented output structure: a list holding one array."""
    return HarnessFn("rfun", lambda it, a, kw, site: [T.mk("call", (A("rfun"), *a), kw, meta={"array": True})])


def _vfield_list():
    return HarnessFn("vfield", lambda it, a, kw, site: [T.mk("call", (A("vfield"), *a), kw, meta={"array": True})])



def damping_obligation(r5, name, cond, where):
    """The observation noise of the linearised model is a Dirac at the offset, regularised by the caller's damping -- and by nothing else."""
    noise = cond.fields.get("noise") if isinstance(cond, Rec) else None
    chol = noise.fields.get("cholesky_flat") if isinstance(noise, Rec) else None
    mean = noise.fields.get("mean_flat") if isinstance(noise, Rec) else None
    if chol is None:
        r5.unknown(f"{name}.linearize damping", "noise record not found", where)
        return
    va = T.value_atoms(chol)
    r5.require("damp" in va and va <= {"damp"}, f"{name}.linearize damping", "noise Cholesky factor = damp * identity (depends on damp only)",
               f"noise Cholesky factor depends by value on {sorted(va)}: {T.show(chol, 4)}; expected the caller's damp only", where_of(chol, where))
    from ..hdomain import Hom

    hom = Hom({A("damp"): 1}, default_atom_degree=0)
    d = hom.deg(chol)
    r5.require(True if d == 1 else (None if d is None else False), f"{name}.linearize damping is linear", "noise Cholesky factor homogeneous of degree 1 in damp",
               f"noise Cholesky factor has degree {d} in damp ({[m for _t, m in hom.errors][:1] or hom.unknown[:2]}): {T.show(chol, 4)}", where_of(chol, where))
    r5.require("damp" not in T.value_atoms(mean), f"{name}.linearize offset undamped", "the offset does not depend on damp", f"offset depends on damp: {T.show(mean, 4)}", where)


def linearize_rules(chk, S, r5):
    tt, damp, state = A("t"), A("damp"), A("lin_state")
    # --- residual linearisations
    specs = [
        (DENSE + ".DenseResidual", "materialize_dense", {"taylor_point": A("tp")}, "taylor"),
        (ISO + ".IsotropicResidual", "calculate_trace_along_d", {}, "mean"),
        (BLOCK + ".BlockDiagResidual", "calculate_diagonal_along_d", {}, "mean"),
    ]
    for qual, handler, extra, point_kind in specs:
        it = S.interp()
        res = mk_res(it, 2, rfun=_rfun_list())
        lin = it.instantiate(it.class_value(qual), [res], extra, "<harness>")
        rv = A("rv")
        out = call(it, method(it, lin, "linearize"), rv, state, damp=damp, t=tt)
        S.absorb(it)
        name = qual.rsplit(".", 1)[1]
        where = qual
        hs = mcalls(out, handler, A("jac"))
        r5.require(len(hs) == 1, f"{name}.linearize handler call", f"one call of jacobian.{handler}", f"{len(hs)} calls; other handler calls: {[t.args[1] for t in T.subterms(out) if t.op == 'mcall' and t.args[0] is A('jac')]}", where)
        if len(hs) != 1:
            continue
        h = hs[0]
        point = strip_layout(h.args[3]) if len(h.args) > 3 else None
        mf = T.mk("attr", (rv, "mean_flat"))
        if point_kind == "taylor":
            want_point = next((t for t in T.subterms(out) if t.op == "call" and t.args[0] is A("tp")), None)
            okp = want_point is not None and point is want_point and want_point.args[2] is rv and want_point.kwargs.get("t") is tt
            r5.require(okp, f"{name}.linearize point", "Jacobian evaluated at the Taylor point taylor_point(constraint_flat, rv, t=t)", f"point = {T.show(point, 3)}", where_of(h, where))
        else:
            want_point = mf
            r5.require(point is mf, f"{name}.linearize point", "Jacobian evaluated at rv.mean_flat", f"point = {T.show(point, 3)}", where_of(h, where))
        r5.require(len(h.args) > 4 and h.args[4] is state and (isinstance(out, (tuple, list)) and out[1] is T.mk("getitem", (h, 2))), f"{name}.linearize handler state", "handler state threaded through", "", where)
        cond = first_rec(out[0]) if isinstance(out, (tuple, list)) else None
        if cond is None:
            r5.fail(f"{name}.linearize result", f"no conditional record: {T.show(out, 2)}", where)
            continue
        damping_obligation(r5, name, cond, where)
        bias = cond.fields["noise"].fields["mean_flat"]
        J = T.mk("getitem", (h, 1))
        fx = T.mk("getitem", (h, 0))
        # offset: find  fx' - contract(J', P)
        subs = [t for t in T.subterms(bias) if t.op == "sub"]
        found = None
        for s_ in subs:
            lhs, rhs = s_.args
            if fx not in list(T.subterms(lhs)):
                continue
            rhs = strip_layout(rhs)
            if not isinstance(rhs, T.Term):
                continue
            if rhs.op == "matmul":
                Jp, P = rhs.args
            elif rhs.op in ("np.einsum", "linalg.einsum") and len(rhs.args) == 3:
                Jp, P = rhs.args[1], rhs.args[2]
            else:
                continue
            found = (s_, Jp, P, rhs)
        if found is None:
            r5.fail(f"{name}.linearize offset", f"offset is not f(xi) - J xi: {T.show(bias, 5)}", where_of(bias, where))
            continue
        s_, Jp, P, rhs = found
        r5.require(strip_layout(P) is want_point, f"{name}.linearize offset point", "the point contracted with J equals the linearisation point", f"J is evaluated at {T.show(want_point, 3)} but the offset subtracts J @ {T.show(strip_layout(P), 3)}", where_of(s_, where))
        r5.require(J in list(T.subterms(Jp)) and A("jac") in list(T.subterms(Jp)), f"{name}.linearize offset Jacobian", "the same Jacobian in the offset and in the linear map", f"offset uses {T.show(Jp, 3)}", where_of(s_, where))
        A_lin = cond.fields["A"]
        r5.require(strip_layout(A_lin) is strip_layout(Jp), f"{name}.linearize linear map", "A is the Jacobian used in the offset", f"A = {T.show(A_lin, 3)} vs offset Jacobian {T.show(Jp, 3)}", where)
        if "Isotropic" in name:
            d = T.mk("getitem", (T.mk("attr", (mf, "shape")), 1))
            r5.require(Jp is T.mk("div", (J, d)), f"{name}.linearize trace / d", "trace-averaged Jacobian: trace divided by the state dimension d", f"linop = {T.show(Jp, 4)}", where_of(Jp, where))
        okc, detc = consumer_shapes(name, h, rv, s_)
        r5.require(okc, f"{name}.linearize consumer layout", detc, detc, where_of(s_, where))
        # the function handed to the handler evaluates the residual on the first num coefficients at t
        fn = h.args[2]
        probe = A("probe")
        try:
            fv = it.call(fn, [probe], {}, "<harness>")
            cs = [t for t in T.subterms(fv) if t.op == "call" and t.args[0] is A("rfun")]
            okf = len(cs) == 1 and cs[0].kwargs.get("t") is tt
            if okf:
                jc = cs[0].kwargs.get("jet_coords")
                okf = isinstance(jc, T.Term) and jc.op == "getitem" and jc.args[1] == slice(None, 2, None) and "probe" in T.atoms_of(jc)
            r5.require(okf, f"{name}.linearize constraint function", "residual(jet_coords=coefficients[:num], t=t) of the handler's argument", f"{[T.show(c, 4) for c in cs]}", where)
        except (AnalysisError, RaiseSignal) as e:
            r5.unknown(f"{name}.linearize constraint function", str(e), where)
        chk.sample({"rule": "R-C11-5", "linearisation": name, "point": T.show(want_point, 3), "offset": T.show(s_, 4)})
    # --- TS0
    for qual in (DENSE + ".DenseOdeTs0", ISO + ".IsotropicOdeTs0", BLOCK + ".BlockDiagOdeTs0"):
        it = S.interp()
        ode = mk_ode(it, 2, vfield=_vfield_list())
        lin = it.instantiate(it.class_value(qual), [], {"ode": ode}, "<harness>")
        rv = A("rv")
        out = call(it, method(it, lin, "linearize"), rv, state, damp=damp, t=tt)
        S.absorb(it)
        name = qual.rsplit(".", 1)[1]
        cs = [t for t in T.subterms(out) if t.op == "call" and t.args[0] is A("vfield")]
        mean = T.mk("attr", (rv, "mean"))
        ok = len(cs) == 1 and cs[0].kwargs.get("t") is tt
        if ok:
            jc = cs[0].kwargs.get("jet_coords")
            ok = jc == [T.mk("getitem", (mean, 0)), T.mk("getitem", (mean, 1))] or jc is T.mk("getitem", (mean, slice(None, 2, None)))
        r5.require(ok, f"{name}.linearize evaluates f at the mean", "f(mean[:num], t=t), once", f"{[T.show(c, 4) for c in cs]}", qual)
        r5.require("jac" not in T.atoms_of(out), f"{name}.linearize uses no Jacobian", "zeroth order: no Jacobian handler", "Jacobian handler used in TS0", qual)
        cond = first_rec(out[0]) if isinstance(out, (tuple, list)) else None
        if cond is None:
            r5.fail(f"{name}.linearize result", f"{T.show(out, 2)}", qual)
            continue
        damping_obligation(r5, name, cond, qual)
        # bias = -f
        def unlayout(v):
            while True:
                if isinstance(v, (list, tuple)) and len(v) == 1:
                    v = v[0]
                elif isinstance(v, T.Term) and v.op in ("tree.ravel", "np.stack", "np.asarray", "np.reshape") and v.args:
                    v = v.args[0]
                elif isinstance(v, T.Term) and v.op == "attr" and v.args[1] == "T":
                    v = v.args[0]
                else:
                    return v

        bias = unlayout(cond.fields["noise"].fields["mean_flat"])
        okb = bool(cs) and (bias is T.mk("neg", (cs[0],)) or nf.equal(bias, T.mk("neg", (cs[0],))))
        r5.require(okb, f"{name}.linearize bias", "bias = -f(mean)", f"bias = {T.show(bias, 4)}", qual)
        # the selector picks exactly tcoeff_indices_output
        sel = [t for t in T.subterms(cond.fields["A"]) if isinstance(t, T.Term) and t.op in ("jac_apply", "vmap_apply")]
        wf = None
        for t in sel:
            w = t.args[0]
            while isinstance(w, WrappedFn) and isinstance(w.fn, WrappedFn):
                w = w.fn
            if isinstance(w, WrappedFn):
                wf = w.fn
        oks = False
        detail = "selector not found"
        if wf is not None:
            probe = A("probe")
            try:
                sv = it.call(wf, [probe], {}, "<harness>")
                idx_terms = [t for t in T.subterms(sv) if t.op == "getitem"]
                statics = []
                for t in idx_terms:
                    i = t.args[1]
                    if isinstance(i, int):
                        statics.append(i)
                    elif isinstance(i, T.Term) and i.op == "np.asarray":
                        statics += list(i.args[0])
                    elif isinstance(i, tuple) and i and isinstance(i[0], T.Term) and i[0].op == "np.asarray":
                        statics += list(i[0].args[0])
                oks = sorted(set(statics)) == [2] and "probe" in T.atoms_of(sv)
                detail = f"selector({T.show(probe)}) = {T.show(sv, 4)}"
            except (AnalysisError, RaiseSignal) as e:
                detail = str(e)
        r5.require(oks, f"{name}.linearize selector", "selects exactly tcoeff_indices_output", detail, qual)


def run(chk, S: Session):
    _run_own(chk, S)
    from ..harness import borrow

    rb = chk.rule("R-C11-B", "clause of this statement decided by a rule of C17 (the full / per-dimension / trace-averaged Jacobian blocks the linearisations consume)", floor=9)
    borrow(chk, S, rb, "C17", lambda r, c: r == "R-C17-1")
    rb2 = chk.rule("R-C11-B2", "'...and reject lift orders that the supplied coefficients cannot support': guard-table rows of C20 for the lifting API and for constraints built on a state with too few Taylor coefficients", floor=9)
    borrow(chk, S, rb2, "C20", lambda r, c: r == "R-C20-1" and ("too few Taylor coefficients" in c or "lift order" in c or "jet_lift" in c))
    # an option passed to a constructor arrives in the attribute of its own name (the rules above read options through those attributes)
    from .ctor_wiring import ctor_wiring_rules

    rcw = chk.rule("R-C11-W", "constructor wiring of the problem descriptions: every attribute that carries a constructor parameter's name holds that parameter, not another one", floor=10)
    ctor_wiring_rules(chk, S, rcw, [PROBLEMS + ".JetAbstract", PROBLEMS + "._JetOdeCommon", PROBLEMS + ".JetOdeAutonomous", PROBLEMS + ".JetResidual"])
