"""C09 -- prior transitions: Pade/Legendre tables, degree bookkeeping, scaling & squaring, transitions."""

from __future__ import annotations

import ast
from fractions import Fraction
from math import comb, factorial

from .. import nf
from .. import terms as T
from ..harness import API, BLOCK, DENSE, GRAM, ISO, UTIL, A, Rec, Session, call, events, method, where_of
from ..interp import _MISSING, Closure
from ..model import AnalysisError

EXPLANATION = (
    "(1) Exact rational comparison of every literal in the five pade_and_legendre_q tables with closed forms (Pade "
    "coefficients, Legendre norms, Legendre/Pade convolution coefficients), exhaustively.  (2) Abstract interpretation of "
    "each init(A, B) into a matrix polynomial {power of A -> coefficient} per block of the Gramian right-hand side and of U, V: "
    "the power of A multiplying table entry C[r,c] must be c, every non-zero entry must occur exactly once, in block r, scaled by "
    "1/sqrt(2r+1).  (3) Scaling-and-squaring order (A/2^s with B/sqrt(2^s); doubling stacks with the pre-update exponential).  "
    "(4) Structure of the Wiener/exponential transitions (sqrt|dt|, calibrated and base scale each once; reciprocal preconditioner; "
    "to_latent = p_inv, to_observed = p).  (5) Matern / Ornstein-Uhlenbeck drift coefficients and agreement of the *_diffuse twins.  "
    "(6) The Cholesky factor of the Hilbert matrix: every fori_loop of cholesky_hilbert is interpreted once on a symbolic index and carry and matched against Kahan's recurrence "
    "(write index, read index = previous write, ratio identity as rational functions of the index and the shift, first value, bounds, final scaling and transposition): by induction the "
    "loops compute the closed form for every n, and the closed form is re-proved to be the Cholesky factor exactly for n <= 8.  (7) The integrated Wiener process: entry (i, j) of the "
    "transition derived through the index semantics of arange / None-indexing / vmap(in_axes, out_axes) / flip equals (q-i)!/((j-i)!(q-j)!), the Taylor transition in the preconditioner's "
    "coordinates; the noise factor reaches the Hilbert factor of size q+1 through Gram-preserving steps and one row flip, so its Gram matrix is 1/(2q+1-i-j); all three factories build "
    "both tables and the preconditioner for len(tcoeffs)-1 derivatives."
)
TRUSTED_VALUE_PRIMITIVES = ("solve_lu",)  # default solve of the Pade / Legendre initialisers
LEVEL = "other"
TECHNIQUE = "constant folding of the source tables with exact rational arithmetic against closed forms; abstract interpretation with a polynomial-degree domain; value-numbering normal form; loop-invariant (recurrence) matching with rational-function identities; symbolic index semantics of vmap/flip/broadcasting"
LEVEL_TEXT = (
    "The tables are finite and are enumerated completely (exact arithmetic, no tolerance); the degree/coefficient bookkeeping of the "
    "initialisers is decided symbolically for all matrices A, B.  Numerical agreement with expm / closed-form Gramians is not claimed."
)
LEVEL_NOTE = (
    "Trusted: the closed forms themselves (derived in DESIGN.md 5/C09; reproduce all five tables), linalg.vector_dot/@ as matrix product, "
    "solve(M, R) = M^-1 R, qr_r as triangularisation.  Kahan's closed form of the Hilbert Cholesky factor (re-proved exactly for n <= 8, K <= 3 on every run); fori_loop(lo, hi, body, init) runs body for lo..hi-1; vmap(in_axes, out_axes) index semantics.  "
    "Not decided: eta thresholds, rounding (the Hilbert factor loses accuracy for n >~ 15 in float64, as its docstring says).  "
    "Composition over h1 then h2 is a consequence of exactness per step (semigroup property of the SDE solution) and is not checked separately."
)

# --------------------------------------------------------------------------- closed forms
def pade_closed(q):
    return [Fraction(factorial(2 * q - k) * factorial(q), factorial(2 * q) * factorial(k) * factorial(q - k)) for k in range(q + 1)]


def pade_normalised(q):
    b = pade_closed(q)
    return [x / b[q] for x in b]


def shifted_legendre(i):
    return [Fraction((-1) ** (i + k) * comb(i, k) * comb(i + k, k)) for k in range(i + 1)]


def legendre_closed(q):
    b = pade_normalised(q)
    d = [b[k] * (-1) ** k for k in range(q + 1)]
    table = []
    for i in range(q + 1):
        c = shifted_legendre(i)
        I = [sum(c[k] / (factorial(m) * (k + m + 1)) for k in range(i + 1)) for m in range(q + 1)]
        row = []
        for j in range(q + 1):
            row.append((2 * i + 1) * sum(d[k] * I[j - k] for k in range(j + 1)))
        table.append(row)
    return table


# --------------------------------------------------------------------------- exact constant folding of table terms
class Arr:
    def __init__(self, shape, data):
        self.shape = tuple(shape)
        self.data = data  # dict index tuple -> Fraction scalar pair (r, s): value r*sqrt(s)


def _sc(x):
    if isinstance(x, bool):
        return None
    if isinstance(x, int):
        return (Fraction(x), Fraction(1))
    if isinstance(x, float):
        return (Fraction(repr(x)), Fraction(1))
    if isinstance(x, Fraction):
        return (x, Fraction(1))
    return None


def s_mul(a, b):
    r, s = a[0] * b[0], a[1] * b[1]
    return _s_norm(r, s)


def _s_norm(r, s):
    """Canonical form r*sqrt(s) with s a square-free positive integer."""
    if s == 0 or r == 0:
        return (Fraction(0), Fraction(1))
    n, d = s.numerator, s.denominator
    r = Fraction(r) / d
    m = n * d  # sqrt(n/d) = sqrt(n*d)/d
    k, f = 1, 2
    while f * f <= m:
        while m % (f * f) == 0:
            m //= f * f
            k *= f
        f += 1
    return (r * k, Fraction(m))


def s_inv(a):
    if a[0] == 0:
        return None
    return _s_norm(1 / a[0] / a[1], a[1])  # 1/(r sqrt s) = sqrt(s)/(r s)


def s_add(a, b):
    if a[0] == 0:
        return b
    if b[0] == 0:
        return a
    if a[1] == b[1]:
        return (a[0] + b[0], a[1])
    return None


def s_sqrt(a):
    if a[1] != 1 or a[0] < 0:
        return None
    return _s_norm(Fraction(1), a[0])


def fold(t):
    """Exact value of a constant table expression: scalar pair or Arr; None if not constant."""
    sc = _sc(t)
    if sc is not None:
        return sc
    if isinstance(t, (list, tuple)):
        items = [fold(e) for e in t]
        if any(i is None for i in items):
            return None
        if all(isinstance(i, tuple) for i in items):
            return Arr((len(items),), {(k,): v for k, v in enumerate(items)})
        if all(isinstance(i, Arr) for i in items) and len({i.shape for i in items}) == 1:
            data = {}
            for k, i in enumerate(items):
                for idx, v in i.data.items():
                    data[(k, *idx)] = v
            return Arr((len(items), *items[0].shape), data)
        return None
    if not isinstance(t, T.Term):
        return None
    op, a = t.op, t.args
    if op == "np.asarray":
        return fold(a[0])
    if op == "np.sqrt":
        x = fold(a[0])
        return _map1(x, s_sqrt)
    if op in ("mul", "div"):
        x, y = fold(a[0]), fold(a[1])
        if x is None or y is None:
            return None
        if op == "div":
            y = _map1(y, s_inv)
            if y is None:
                return None
        return _bcast(x, y, s_mul)
    if op == "getitem":
        x = fold(a[0])
        if not isinstance(x, Arr):
            return None
        idx = a[1] if isinstance(a[1], tuple) else (a[1],)
        return _index(x, idx)
    return None


def _map1(x, f):
    if x is None:
        return None
    if isinstance(x, tuple):
        return f(x)
    data = {}
    for k, v in x.data.items():
        r = f(v)
        if r is None:
            return None
        data[k] = r
    return Arr(x.shape, data)


def _bcast(x, y, f):
    if isinstance(x, tuple) and isinstance(y, tuple):
        return f(x, y)
    if isinstance(x, tuple):
        return _map1(y, lambda v: f(x, v))
    if isinstance(y, tuple):
        return _map1(x, lambda v: f(v, y))
    nd = max(len(x.shape), len(y.shape))
    xs = (1,) * (nd - len(x.shape)) + x.shape
    ys = (1,) * (nd - len(y.shape)) + y.shape
    shape = []
    for p, q in zip(xs, ys):
        if p != q and 1 not in (p, q):
            return None
        shape.append(max(p, q))
    data = {}
    import itertools

    for idx in itertools.product(*[range(n) for n in shape]):
        xi = tuple(0 if xs[k] == 1 else idx[k] for k in range(nd))[nd - len(x.shape) :]
        yi = tuple(0 if ys[k] == 1 else idx[k] for k in range(nd))[nd - len(y.shape) :]
        r = f(x.data[xi], y.data[yi])
        if r is None:
            return None
        data[idx] = r
    return Arr(shape, data)


def _index(x: Arr, idx):
    # supports ints, full slices and None
    dims = []  # per output dim: ('new',) or ('keep', src_dim)
    fixed = {}
    src = 0
    for i in idx:
        if i is None:
            dims.append(("new",))
        elif isinstance(i, int):
            if src >= len(x.shape):
                return None
            fixed[src] = i % x.shape[src]
            src += 1
        elif isinstance(i, slice) and i.start is None and i.stop is None and i.step is None:
            dims.append(("keep", src))
            src += 1
        else:
            return None
    while src < len(x.shape):
        dims.append(("keep", src))
        src += 1
    if not dims:
        key = tuple(fixed[k] for k in range(len(x.shape)))
        return x.data.get(key)
    import itertools

    shape = [1 if d[0] == "new" else x.shape[d[1]] for d in dims]
    data = {}
    for out in itertools.product(*[range(n) for n in shape]):
        key = [None] * len(x.shape)
        for k, v in fixed.items():
            key[k] = v
        for o, d in zip(out, dims):
            if d[0] == "keep":
                key[d[1]] = o
        data[out] = x.data[tuple(key)]
    return Arr(shape, data)


# --------------------------------------------------------------------------- matrix polynomials in A (times B)
class NotPoly(Exception):
    pass


def mp(t, Aat, Bat):
    """{(deg_A, n_B): scalar pair} for a matrix expression in A, B, identity."""
    if isinstance(t, T.Term):
        if t is Aat:
            return {(1, 0): (Fraction(1), Fraction(1))}
        if t is Bat:
            return {(0, 1): (Fraction(1), Fraction(1))}
        op, a = t.op, t.args
        if op == "np.eye":
            return {(0, 0): (Fraction(1), Fraction(1))}
        if op == "np.zeros_like":
            return {}
        if op in ("matmul", "linalg.vector_dot"):
            x, y = mp(a[0], Aat, Bat), mp(a[1], Aat, Bat)
            if any(k[1] for k in x):
                raise NotPoly(f"B is not the right-most factor in {T.show(t, 3)}")
            out = {}
            for (d1, b1), c1 in x.items():
                for (d2, b2), c2 in y.items():
                    _acc(out, (d1 + d2, b1 + b2), s_mul(c1, c2))
            return out
        if op in ("add", "sub"):
            x, y = mp(a[0], Aat, Bat), mp(a[1], Aat, Bat)
            out = dict(x)
            for k, c in y.items():
                _acc(out, k, c if op == "add" else (-c[0], c[1]))
            return out
        if op == "neg":
            return {k: (-c[0], c[1]) for k, c in mp(a[0], Aat, Bat).items()}
        if op in ("mul", "div"):
            for mat, sca in ((a[0], a[1]), (a[1], a[0])):
                s = fold(sca)
                if isinstance(s, tuple):
                    if op == "div":
                        if mat is not a[0]:
                            continue
                        s = s_inv(s)
                        if s is None:
                            raise NotPoly("division by zero constant")
                    return {k: s_mul(c, s) for k, c in mp(mat, Aat, Bat).items() if s_mul(c, s)[0] != 0}
            raise NotPoly(f"non-constant scalar in {T.show(t, 3)}")
    raise NotPoly(f"not a matrix polynomial: {T.show(t, 3)}")


def _acc(out, k, c):
    cur = out.get(k)
    if cur is None:
        if c[0] != 0:
            out[k] = c
        return
    s = s_add(cur, c)
    if s is None:
        raise NotPoly("incommensurable coefficients")
    if s[0] == 0:
        out.pop(k)
    else:
        out[k] = s


def show_mp(p):
    return {f"A^{d}{'B' if b else ''}": (str(c[0]) + (f"*sqrt({c[1]})" if c[1] != 1 else "")) for (d, b), c in sorted(p.items())}


# --------------------------------------------------------------------------- rules
def literal_tables(fn: ast.FunctionDef):
    out = {}
    for st in fn.body:
        if isinstance(st, ast.Assign) and len(st.targets) == 1 and isinstance(st.targets[0], ast.Name) and st.targets[0].id in ("pade_coeffs", "legendre_coeffs", "legendre_norms"):
            try:
                out[st.targets[0].id] = ast.literal_eval(st.value)
            except Exception:
                pass
    return out


def run(chk, S: Session):
    _run_main(chk, S)
    preconditioner_range_rules(chk, S)


def _run_main(chk, S: Session):
    chk.trust("closed forms of DESIGN.md 5/C09", "linalg.vector_dot / @ : matrix product", "solve(M, R) = M^-1 R", "np.concatenate(..., axis=-1) places blocks left to right")
    r1 = chk.rule("R-C09-1", "every literal of the Pade/Legendre tables equals its closed form (exact rational arithmetic, exhaustive)", floor=400)
    r2 = chk.rule("R-C09-2", "initialisers: power of A multiplying C[r,c] is c, complete, in block r, scaled 1/sqrt(2r+1); U/V hold b_k A^k (odd/even)", floor=60)
    r3 = chk.rule("R-C09-3", "scaling and squaring: A/2^s with B/sqrt(2^s); doubling stacks (U, eA U) with the pre-update eA, then squares; loop while i < s", floor=6)
    r4 = chk.rule("R-C09-4", "transitions: sqrt|dt| and the scales enter the noise factor once; reciprocal Taylor preconditioner; to_latent=p_inv, to_observed=p", floor=12)
    r5 = chk.rule("R-C09-5", "Matern / OU drifts: binomial coefficients, z = sqrt(2(D-1/2))/l, number of coefficients; *_diffuse twins agree", floor=6)

    gm = S.p.module(GRAM)
    fns = sorted(n for n in gm.functions if n.startswith("pade_and_legendre_"))
    if len(fns) < 5:
        raise AnalysisError(f"expected 5 pade_and_legendre_* constructors, found {fns}")
    n_entries = 0
    for fname in fns:
        try:
            q = int(fname.rsplit("_", 1)[1])
        except ValueError:
            continue
        node = gm.functions[fname]
        where = f"{gm.relpath}:{node.lineno}"
        # the literal tables are found by their *role* in the initialiser (not by variable name):
        # the flat table feeding eA = solve(V-U, V+U) is the Pade table, the nested one the Legendre table, the other flat one the norms
        it0 = S.interp()
        pl0 = it0.call(it0.function_value(f"{GRAM}.{fname}"), [], {}, "<harness>")
        if not isinstance(pl0, Rec) or "init" not in pl0.fields:
            raise AnalysisError(f"{fname} does not return a PadeLegendre record")
        eA0, chol0 = it0.call(pl0.fields["init"], [A("A"), A("B")], {"solve": A("solve")}, "<harness>")
        def static_tables(v):
            out = []
            for t_ in T.subterms(v):
                if t_.op == "np.asarray" and isinstance(t_.args[0], (list, tuple)) and not any(isinstance(x, T.Term) for x in T.subterms(list(t_.args[0]))):
                    out.append(t_.args[0])
            return out
        flat_e = [x for x in static_tables(eA0) if not isinstance(x[0], (list, tuple))]
        all_c = static_tables(chol0)
        nested = [x for x in all_c if isinstance(x[0], (list, tuple))]
        flat_c = [x for x in all_c if not isinstance(x[0], (list, tuple)) and x not in flat_e]
        if len(flat_e) != 1 or len(nested) != 1 or len(flat_c) != 1:
            raise AnalysisError(f"{fname}: literal tables not identified by role (pade {len(flat_e)}, legendre {len(nested)}, norms {len(flat_c)})")
        tabs = {"pade_coeffs": list(flat_e[0]), "legendre_coeffs": [list(r) for r in nested[0]], "legendre_norms": list(flat_c[0])}
        pc, lc, ln = tabs["pade_coeffs"], tabs["legendre_coeffs"], tabs["legendre_norms"]
        bn = pade_normalised(q)
        r1.require(len(pc) == q + 1 and len(lc) == q + 1 and all(len(r) == q + 1 for r in lc) and len(ln) == q + 1, f"{fname} table sizes", f"(q+1) = {q + 1} everywhere", f"sizes {len(pc)}, {len(lc)}x{[len(r) for r in lc]}, {len(ln)}", where)
        if not (len(pc) == q + 1 and len(lc) == q + 1 and all(len(r) == q + 1 for r in lc) and len(ln) == q + 1):
            continue
        for k in range(q + 1):
            n_entries += 1
            r1.require(Fraction(repr(pc[k])) == bn[k] if isinstance(pc[k], float) else Fraction(pc[k]) == bn[k], f"{fname} pade_coeffs[{k}]", f"= {bn[k]}", f"literal {pc[k]} != closed form {bn[k]}", where)
            n_entries += 1
            r1.require(Fraction(ln[k]) == 2 * k + 1, f"{fname} legendre_norms[{k}]", f"= {2 * k + 1}", f"literal {ln[k]} != {2 * k + 1}", where)
        closed = legendre_closed(q)
        for i in range(q + 1):
            for j in range(q + 1):
                n_entries += 1
                lit = lc[i][j]
                litf = Fraction(repr(lit)) if isinstance(lit, float) else Fraction(lit)
                r1.require(litf == closed[i][j], f"{fname} legendre_coeffs[{i}][{j}]", f"= {closed[i][j]}", f"literal {lit} != closed form {closed[i][j]}", where)
        # ---------------- initialiser structure
        it = S.interp()
        ctor = it.function_value(f"{GRAM}.{fname}")
        pl = it.call(ctor, [], {}, "<harness>")
        if not isinstance(pl, Rec) or "init" not in pl.fields:
            raise AnalysisError(f"{fname} does not return a PadeLegendre record")
        r1.require(pl.fields.get("q") == q, f"{fname} q field", f"q = {q}", f"PadeLegendre.q = {pl.fields.get('q')}", where)
        Aat, Bat, solve = A("A"), A("B"), A("solve")
        out = it.call(pl.fields["init"], [Aat, Bat], {"solve": solve}, "<harness>")
        S.absorb(it)
        if not (isinstance(out, (tuple, list)) and len(out) == 2):
            raise AnalysisError(f"{fname}.init does not return (eA, cholesky)")
        eA, chol = out
        ok_e = isinstance(eA, T.Term) and eA.op == "call" and eA.args[0] is solve and len(eA.args) == 3
        r2.require(ok_e, f"{fname}.init eA = solve(V-U, V+U)", "", f"eA = {T.show(eA, 3)}", where)
        if ok_e:
            try:
                den, num = mp(eA.args[1], Aat, Bat), mp(eA.args[2], Aat, Bat)
                want_den = {(k, 0): (bn[k] * (-1) ** k, Fraction(1)) for k in range(q + 1)}
                want_num = {(k, 0): (bn[k], Fraction(1)) for k in range(q + 1)}
                r2.require(den == want_den, f"{fname}.init V-U", "sum_k b_k (-A)^k", f"V-U = {show_mp(den)}", where_of(eA, where))
                r2.require(num == want_num, f"{fname}.init V+U", "sum_k b_k A^k", f"V+U = {show_mp(num)}", where_of(eA, where))
            except NotPoly as e:
                r2.unknown(f"{fname}.init U/V", str(e), where)
        rhs = [t for t in T.subterms(chol) if t.op == "np.concatenate"]
        sol = [t for t in T.subterms(chol) if t.op == "call" and t.args[0] is solve and t is not eA]
        ok = len(rhs) == 1 and len(sol) == 1 and sol[0].args[2] is rhs[0] and ok_e and sol[0].args[1] is eA.args[1] and rhs[0].kwargs.get("axis") == -1
        r2.require(ok, f"{fname}.init L = solve(V-U, concatenate(blocks, axis=-1))", "", f"{[T.show(t, 2) for t in sol]}", where)
        # orientation of the triangularisation: the wide factor L (n x (q+1) m) has the Gramian L L^T; qr_r(L^T)^T is the lower factor with the same
        # Gram matrix, qr_r(L^T) (untransposed) or qr_r(L) are not.  The result is written into the leading block of a zero matrix of A's shape.
        if len(sol) == 1:
            okq = False
            det = T.show(chol, 4)
            st_ = chol
            if isinstance(st_, T.Term) and st_.op == "at_set" and len(st_.args) == 3:
                base, where_, val = st_.args
                okpad = isinstance(base, T.Term) and base.op == "np.zeros_like" and base.args[0] is Aat and isinstance(where_, tuple) and len(where_) == 2
                okq = okpad and isinstance(val, T.Term) and val.op == "attr" and val.args[1] == "T" and isinstance(val.args[0], T.Term) and val.args[0].op == "linalg.qr_r" \
                    and isinstance(val.args[0].args[0], T.Term) and val.args[0].args[0].op == "attr" and val.args[0].args[0].args[1] == "T" and val.args[0].args[0].args[0] is sol[0]
                det = f"factor {T.show(val, 4)} written at {T.show(where_, 3)} of {T.show(base, 2)}"
            r2.require(okq, f"{fname}.init triangularisation", "cholesky = qr_r(L^T)^T (Gram L L^T kept), zero-padded to the shape of A", det, where_of(chol, where))
        if len(rhs) != 1 or not isinstance(rhs[0].args[0], (list, tuple)):
            continue
        blocks = list(rhs[0].args[0])
        r2.require(len(blocks) == q + 1, f"{fname}.init number of blocks", f"{q + 1} Legendre blocks", f"{len(blocks)} blocks", where)
        for r, blk in enumerate(blocks[: q + 1]):
            try:
                p = mp(blk, Aat, Bat)
            except NotPoly as e:
                r2.unknown(f"{fname}.init block {r}", str(e), where_of(blk, where))
                continue
            want = {(c, 1): _s_norm(closed[r][c], Fraction(1, 2 * r + 1)) for c in range(q + 1) if closed[r][c] != 0}
            # compare as r*sqrt(s) pairs in canonical form
            wantn = {k: _s_norm(v[0], v[1]) for k, v in want.items()}
            gotn = {k: _s_norm(v[0], v[1]) for k, v in p.items()}
            r2.require(gotn == wantn, f"{fname}.init block {r}", f"sum_c C[{r},c]/sqrt({2 * r + 1}) A^c B over non-zero columns",
                       f"block {r} is {show_mp(p)}; expected {show_mp(want)}", where_of(blk, where))
        if q == 5:
            chk.sample({"rule": "R-C09-2", "function": fname, "block0": show_mp(mp(blocks[0], Aat, Bat)) if blocks else None})
    chk.extra["table_entries_checked"] = n_entries
    chk.exhaustive = True
    scaling_rules(chk, S, r3)
    transition_rules(chk, S, r4)
    drift_rules(chk, S, r5)
    from . import c09_iwp

    c09_iwp.hilbert_rules(chk, S)
    c09_iwp.iwp_rules(chk, S)
    c09_iwp.factory_rules(chk, S)
    from ..harness import borrow

    rb = chk.rule("R-C09-B", "clause of this statement decided by a rule of C20 (the drift of an exponential prior is differentiated with respect to every leaf of the state, whatever its dtype)", floor=1)
    borrow(chk, S, rb, "C20", lambda r, c: r == "R-C20-4" and "drift Jacobian" in c)


def tail_rules(chk, S, r3):
    """exp_gram_cholesky.compute: after the doubling loop the factor's columns are multiplied by unit signs (Gram unchanged); nothing else."""
    from .c09_iwp import _factors, _idx_kind, _is_unit_sign

    it = S.interp()
    pl = it.instantiate(it.class_value(GRAM + ".PadeLegendre"), [], dict(q=A("q"), eta_fp64=A("eta64"), eta_fp32=A("eta32"), init=A("pl_init")), "<harness>")
    compute = it.call(it.function_value(f"{GRAM}.exp_gram_cholesky"), [], {"pade_legendre": pl, "solve": A("solve")}, "<harness>")
    out = it.call(compute, [A("A"), A("B")], {}, "<harness>")
    S.absorb(it)
    ws = events(it, "while")
    if not (isinstance(out, (tuple, list)) and len(out) == 2 and len(ws) == 1):
        r3.unknown("exp_gram_cholesky.compute tail", f"returns {T.show(out, 2)}; {len(ws)} while-loops", GRAM)
        return
    eA, U = out
    fin = ws[0]["final"]
    fin_eA, fin_U = (fin[1][0], fin[1][1]) if isinstance(fin, (tuple, list)) and len(fin) == 2 and isinstance(fin[1], (tuple, list)) and len(fin[1]) == 2 else (None, None)
    r3.require(eA is fin_eA and fin_eA is not None, "exp_gram_cholesky.compute returns the doubled exponential", "eA of the doubling loop", f"{T.show(eA, 3)}", GRAM)
    fs = _factors(U)
    sc = [x for x in fs if isinstance(x, T.Term) and x.op == "getitem" and _idx_kind(x.args[1]) in ("rows", "cols")]
    ok = len(fs) == 2 and len(sc) == 1 and any(x is fin_U for x in fs) and _idx_kind(sc[0].args[1]) == "cols" and _is_unit_sign(sc[0].args[0]) is True
    r3.require(ok, "exp_gram_cholesky.compute sign normalisation", "U * signs[None, :]: columns scaled by unit signs, Gram matrix unchanged",
               f"returned factor {T.show(U, 5)}: only a column scaling by a vector of +-1 keeps U U^T", where_of(U, GRAM))


def scaling_rules(chk, S, r3):
    tail_rules(chk, S, r3)
    it = S.interp()
    f = it.function_value(f"{GRAM}._exp_gram_cholesky_init")
    Aat, Bat = A("A"), A("B")
    pl = it.instantiate(it.class_value(GRAM + ".PadeLegendre"), [], dict(q=A("q"), eta_fp64=A("eta64"), eta_fp32=A("eta32"), init=A("pl_init")), "<harness>")
    out = it.call(f, [Aat, Bat], {"pade_legendre": pl, "solve": A("solve")}, "<harness>")
    where = GRAM
    calls = [t for t in T.subterms(out) if t.op == "call" and t.args[0] is A("pl_init")]
    ok = len(calls) >= 1 and all(len(c.args) == 3 for c in calls)
    r3.require(ok, "_exp_gram_cholesky_init calls init(A_scaled, B_scaled)", "", f"{[T.show(c, 3) for c in calls]}", where)
    if ok:
        c = calls[0]
        pa, pb = nf.norm(c.args[1]), nf.norm(c.args[2])
        num = out[2] if isinstance(out, (tuple, list)) and len(out) == 3 else None

        def exps(p, root):
            if len(p) != 1:
                return None
            (mono, coef), = p.items()
            if coef != 1:
                return None
            d = {t: e for t, e in mono}
            if d.get(root) != 1:
                return None
            rest = {t: e for t, e in d.items() if t is not root}
            return rest

        ea, eb = exps(pa, Aat), exps(pb, Bat)
        ok2 = ea is not None and eb is not None and len(ea) == 1 and len(eb) == 1 and list(ea) == list(eb) and list(ea.values())[0] == -1 and list(eb.values())[0] == Fraction(-1, 2)
        base = list(ea)[0] if ok2 else None
        ok2 = ok2 and base.op == "pow" and nf.norm(base.args[0]) == nf.const(2) and num is not None and nf.canon(num) is base.args[1]
        r3.require(ok2, "_exp_gram_cholesky_init scaling", "A / 2^s and B / sqrt(2^s) with the returned s", f"A_scaled = {nf.show(pa)}, B_scaled = {nf.show(pb)}, s = {T.show(num, 3)}", where_of(c, where))
        r3.require(isinstance(out, (tuple, list)) and T.mk("getitem", (c, 0)) is out[0] and T.mk("getitem", (c, 1)) is out[1], "_exp_gram_cholesky_init returns init's (eA, S)", "", f"{T.show(out, 3)}", where)
        # the number of doublings is clamped at zero: a negative s would scale A, B *up* and the loop `i < s` never undoes it
        from .. import bounds as Bd
        r3.require(num is not None and Bd.Bounds().prove_le(0, num), "_exp_gram_cholesky_init s >= 0", "number of doublings has the lower bound 0",
                   f"s = {T.show(num, 5)} has no proven lower bound 0 (for small matrices log2(norm/eta) is negative)", where_of(num, where))
        # scaling-and-squaring: after s halvings the norm of A is below the order's threshold, i.e. s >= log2(|A|_1 / eta)
        # (structural: s is a maximum / ceiling over terms one of which is exactly log2(|A|_1 / eta) for the eta selected by the dtype)
        def lower_terms(t):
            t_ = t
            while isinstance(t_, T.Term) and t_.op in ("np.asarray", "np.astype") and t_.args:
                t_ = t_.args[0]
            if isinstance(t_, T.Term) and t_.op in ("np.maximum",):
                return lower_terms(t_.args[0]) + lower_terms(t_.args[1])
            if isinstance(t_, T.Term) and t_.op in ("np.ceil",):
                return lower_terms(t_.args[0])
            if isinstance(t_, T.Term) and t_.op in ("ite", "np.where"):
                a_, b_ = lower_terms(t_.args[1]), lower_terms(t_.args[2])
                return [x for x in a_ if any(x is y for y in b_)] or (a_ + b_ if False else [])
            return [t_]

        leaves = lower_terms(num) if num is not None else []
        logs = [x for x in leaves if isinstance(x, T.Term) and x.op == "np.log2"]
        norm1 = [x for x in T.subterms(num) if isinstance(x, T.Term) and x.op == "linalg.matrix_norm" and x.args and x.args[0] is Aat and x.kwargs.get("order") == 1] if num is not None else []
        ok_s = False
        detail_s = f"s = {T.show(num, 6)}"
        if norm1:
            for lg in logs:
                arg = nf.norm(lg.args[0])
                # arg == |A|_1 / eta  <=>  arg * eta == |A|_1  for an eta that does not depend on A (the dtype-selected threshold)
                quot = nf.mul(arg, nf.power(nf.norm(norm1[0]), -1))
                bases = {b for mono in quot for b, _e in mono}
                if quot and all("A" not in T.atoms_of(b) or b.op == "ite" for b in bases) and len(quot) == 1:
                    (mono, coef), = quot.items()
                    if coef == 1 and len(mono) == 1 and mono[0][1] == -1 and any(k in T.show(mono[0][0], 6) for k in ("eta",)):
                        ok_s = True
        r3.require(ok_s, "_exp_gram_cholesky_init s >= log2(|A|_1 / eta)", "s is a ceiling / maximum over log2(|A|_1 / eta): the scaled matrix has 1-norm at most eta",
                   f"no lower bound log2(|A|_1 / eta) found: {detail_s} -- the Pade / Legendre approximations are only accurate for |A / 2^s|_1 <= eta", where_of(num, where) if num is not None else where)
    # doubling step
    g = it.function_value(f"{GRAM}._exp_gram_cholesky_double")
    i, eA, U = A("i"), A("eA"), A("U")
    o = it.call(g, [(i, (eA, U))], {}, "<harness>")
    ok = isinstance(o, (tuple, list)) and len(o) == 2 and isinstance(o[1], (tuple, list)) and len(o[1]) == 2
    r3.require(ok, "_exp_gram_cholesky_double shape", "returns (i+1, (eA', U'))", f"{T.show(o, 3)}", where)
    if ok:
        r3.require(nf.norm(o[0]) == nf.add(nf.norm(i), nf.const(1)), "_exp_gram_cholesky_double counter", "i + 1", f"{T.show(o[0])}", where)
        r3.require(o[1][0] is T.mk("matmul", (eA, eA)), "_exp_gram_cholesky_double squares eA", "eA' = eA @ eA", f"eA' = {T.show(o[1][0], 3)}", where_of(o[1][0], where))
        cat = [t for t in T.subterms(o[1][1]) if t.op == "np.concatenate"]
        okc = len(cat) == 1 and isinstance(cat[0].args[0], (tuple, list)) and len(cat[0].args[0]) == 2 and cat[0].args[0][0] is U and cat[0].args[0][1] is T.mk("matmul", (eA, U)) and cat[0].kwargs.get("axis") == -1
        r3.require(okc, "_exp_gram_cholesky_double stack", "U' from (U, eA @ U) with the pre-update eA", f"stack = {[T.show(t, 4) for t in cat]}", where_of(o[1][1], where))
        okq = isinstance(o[1][1], T.Term) and o[1][1].op == "attr" and o[1][1].args[1] == "T" and isinstance(o[1][1].args[0], T.Term) and o[1][1].args[0].op == "linalg.qr_r"
        r3.require(okq, "_exp_gram_cholesky_double triangularises", "U' = qr_r(stack.T).T", f"U' = {T.show(o[1][1], 3)}", where)
    # the driver loop
    mkf = it.function_value(f"{GRAM}.exp_gram_cholesky")
    pl2 = it.instantiate(it.class_value(GRAM + ".PadeLegendre"), [], dict(q=A("q"), eta_fp64=A("eta64"), eta_fp32=A("eta32"), init=A("pl_init")), "<harness>")
    comp = it.call(mkf, [], {"pade_legendre": pl2, "solve": A("solve")}, "<harness>")
    it.call(comp, [Aat, Bat], {}, "<harness>")
    ws = events(it, "while")
    if len(ws) != 1:
        raise AnalysisError(f"exp_gram_cholesky: expected one while loop, found {len(ws)}")
    w = ws[0]
    st = w["state"]
    from .c06 import pred_form
    inits = [t for t in T.subterms(w["init"]) if t.op == "call" and t.args[0] is A("pl_init")]
    num_t = None
    if inits:
        den = nf.norm(T.mk("div", (Aat, inits[0].args[1])))
        if len(den) == 1:
            (mono, _c), = den.items()
            if len(mono) == 1 and mono[0][0].op == "pow":
                num_t = mono[0][0].args[1]
    fcond = pred_form(w["cond"])
    okw = fcond is not None and num_t is not None and fcond == (nf.add(nf.norm(st[0]), nf.norm(num_t), -1), "<")
    r3.require(okw, "exp_gram_cholesky doubling loop condition", "while i < s (the same s that scaled A and B)", f"cond = {T.show(w['cond'], 3)}", w["site"])
    r3.require(isinstance(w["init"], (tuple, list)) and w["init"][0] == 0 and not isinstance(w["init"][0], bool), "exp_gram_cholesky loop starts at 0", "", f"init = {T.show(w['init'], 2)}", w["site"])
    S.absorb(it)


def flat_factors(t, sign=1, acc=None):
    """Multiplicative factors (base -> exponent) looking through broadcasting-only subscripts."""
    acc = {} if acc is None else acc
    if isinstance(t, T.Term):
        if t.op == "mul":
            flat_factors(t.args[0], sign, acc)
            flat_factors(t.args[1], sign, acc)
            return acc
        if t.op == "div":
            flat_factors(t.args[0], sign, acc)
            flat_factors(t.args[1], -sign, acc)
            return acc
        if t.op == "np.sqrt":
            sub = flat_factors(t.args[0], 1, {})
            for k, v in sub.items():
                acc[k] = acc.get(k, 0) + Fraction(sign, 2) * v
            return acc
        if t.op == "getitem" and _layout_index(t.args[1]):
            return flat_factors(t.args[0], sign, acc)
        if t.op in ("np.asarray",):
            return flat_factors(t.args[0], sign, acc)
        if t.op == "np.ones":
            return acc
    if isinstance(t, (int, float)) and t == 1:
        return acc
    acc[t] = acc.get(t, 0) + sign
    return acc


def _layout_index(idx):
    items = idx if isinstance(idx, tuple) else (idx,)
    return all(i is None or i is Ellipsis or (isinstance(i, slice) and i.start is None and i.stop is None and i.step is None) for i in items)


def transition_rules(chk, S, r4):
    # Taylor preconditioner
    it = S.interp()
    f = it.function_value(f"{UTIL}.preconditioner_taylor")
    n = A("num_derivatives")
    precon = it.call(f, [n], {}, "<harness>")
    dt = A("dt")
    out = it.call(precon, [dt], {}, "<harness>")
    ok = isinstance(out, (tuple, list)) and len(out) == 2
    r4.require(ok, "preconditioner_taylor returns (p, p_inv)", "", f"{T.show(out, 3)}", UTIL)
    if ok:
        p, pinv = out
        r4.require(nf.norm(T.mk("mul", (p, pinv))) == nf.const(1), "preconditioner_taylor reciprocal", "p * p_inv == 1 in normal form", f"p*p_inv = {nf.show(nf.norm(T.mk('mul', (p, pinv))))}", where_of(p, UTIL))
        powers = [t for t in T.subterms(p) if t.op == "np.arange"]
        okp = len(powers) == 1 and powers[0].args[0] is n and nf.norm(powers[0].args[1]) == nf.const(-1) and nf.norm(powers[0].kwargs.get("step")) == nf.const(-1)
        r4.require(okp, "preconditioner_taylor powers", "powers = q, q-1, ..., 0", f"{[T.show(t) for t in powers]}", UTIL)
        pp = nf.norm(p)
        okf = False
        if len(pp) == 1 and powers:
            (mono, c), = pp.items()
            d = {t.op: (t, e) for t, e in mono}
            okf = c == 1 and set(d) == {"pow", "np.factorial"} and d["pow"][1] == 1 and d["np.factorial"][1] == -1 and d["pow"][0].args[0] is dt and d["pow"][0].args[1] is nf.canon(powers[0]) and d["np.factorial"][0].args[0] is nf.canon(powers[0])
        r4.require(okf, "preconditioner_taylor scaling", "p = dt^powers / powers!", f"p = {nf.show(pp)}", UTIL)
    S.absorb(it)

    specs = [
        (DENSE + ".DenseWienerIntegrated", dict(d=A("d"), A=A("self.A"), Q=A("self.Q"), q0=A("q0"), tree_flatten=A("tf"), precon_fun=A("precon")), {"self.Q"}, "repeat"),
        (ISO + ".IsotropicWienerIntegrated", dict(A=A("self.A"), q_sqrtm=A("self.q_sqrtm"), q0=A("q0"), tree_flatten=A("tf"), precon_fun=A("precon")), {"self.q_sqrtm", "self.output_scale"}, "plain"),
        (BLOCK + ".BlockDiagWienerIntegrated", dict(a=A("self.a"), q_sqrtm=A("self.q_sqrtm"), q0=A("q0"), tree_flatten=A("tf"), precon_fun=A("precon")), {"self.q_sqrtm", "self.output_scale"}, "batch"),
    ]
    dt, osc = A("dt"), A("output_scale")
    for qual, kw, noise_atoms, pkind in specs:
        it = S.interp()
        cv = it.class_value(qual)
        prior = it.instantiate(cv, [A("init"), A("self.output_scale")], kw, "<harness>")
        cond = call(it, method(it, prior, "transition"), dt=dt, output_scale=osc)
        S.absorb(it)
        name = qual.rsplit(".", 1)[1]
        where = qual
        if not (isinstance(cond, Rec) and isinstance(cond.fields.get("noise"), Rec)):
            r4.fail(f"{name}.transition", f"does not return a conditional record: {T.show(cond, 2)}", where)
            continue
        L = cond.fields["noise"].fields["cholesky_flat"]
        fac = flat_factors(L)
        sq = {k: v for k, v in fac.items() if isinstance(k, T.Term) and k.op == "np.abs" and k.args[0] is dt}
        r4.require(list(sq.values()) == [Fraction(1, 2)], f"{name}.transition sqrt|dt|", "noise factor carries sqrt(|dt|) exactly once", f"factors {{{', '.join(f'{T.show(k, 2)}^{v}' for k, v in fac.items())}}}", where_of(L, where))
        names = {T.atom_name(k): v for k, v in fac.items() if T.is_atom(k)}
        inner = {}
        for k, v in fac.items():
            if isinstance(k, T.Term) and not T.is_atom(k) and k.op != "np.abs":
                inner[T.show(k, 2)] = v
        want_atoms = {"output_scale"} | noise_atoms
        got_atoms = {a for a in T.atoms_of(L)} - {"dt"}
        r4.require(all(names.get(a) == 1 for a in want_atoms) and got_atoms == want_atoms, f"{name}.transition scales", f"calibrated scale and {sorted(noise_atoms)} each enter linearly",
                   f"noise factor = {T.show(L, 5)}", where_of(L, where))
        pc = T.mk("call", (A("precon"), dt))
        p_raw, pinv_raw = T.mk("getitem", (pc, 0)), T.mk("getitem", (pc, 1))
        tl, to = cond.fields["to_latent"], cond.fields["to_observed"]
        def derived(x, raw, other):
            return raw in list(T.subterms(x)) and other not in list(T.subterms(x))
        r4.require(derived(tl, pinv_raw, p_raw) and derived(to, p_raw, pinv_raw), f"{name}.transition preconditioner wiring", "to_latent from p_inv, to_observed from p", f"to_latent = {T.show(tl, 3)}, to_observed = {T.show(to, 3)}", where)
        if pkind == "repeat":
            okr = isinstance(tl, T.Term) and tl.op == "np.repeat" and isinstance(to, T.Term) and to.op == "np.repeat" and tl.args[1] is A("d") and to.args[1] is A("d")
            r4.require(okr, f"{name}.transition repeat per coefficient", "np.repeat(p, d): coefficient-major", f"to_observed = {T.show(to, 3)}", where)
        chk.sample({"rule": "R-C09-4", "prior": name, "noise_cholesky": T.show(L, 5)})
    # exponential prior
    it = S.interp()
    cv = it.class_value(DENSE + ".DenseExponential")
    prior = it.instantiate(cv, [A("init"), A("self.output_scale"), A("self.A"), A("self.B")], dict(d=A("d"), q0=A("q0"), tree_flatten=A("tf"), precon_fun=A("precon"), exp_gram=A("exp_gram")), "<harness>")
    cond = call(it, method(it, prior, "transition"), dt=dt, output_scale=osc)
    S.absorb(it)
    eg = [t for t in T.subterms(cond) if t.op == "call" and t.args[0] is A("exp_gram")]
    if len(eg) != 1 or len(eg[0].args) != 3:
        r4.fail("DenseExponential.transition exp_gram call", f"{len(eg)} calls", DENSE)
    else:
        Ap, Bp = eg[0].args[1], eg[0].args[2]
        fa, fb = flat_factors(Ap), flat_factors(Bp)
        pc = T.mk("call", (A("precon"), dt))
        p_r = T.mk("np.repeat", (T.mk("getitem", (pc, 0)), A("d")))
        pi_r = T.mk("np.repeat", (T.mk("getitem", (pc, 1)), A("d")))
        r4.require(fa == {dt: 1, pi_r: 1, A("self.A"): 1, p_r: 1}, "DenseExponential.transition drift", "A_p = dt * p_inv * A * p", f"A_p = {T.show(Ap, 4)}", where_of(Ap, DENSE))
        okp = isinstance(Ap, T.Term) and "getitem" in {t.op for t in T.subterms(Ap)}
        # row/column placement of the preconditioner: p_inv scales rows ([:, None]), p scales columns ([None, :])
        rows = [t for t in T.subterms(Ap) if t.op == "getitem" and t.args[0] is pi_r]
        cols = [t for t in T.subterms(Ap) if t.op == "getitem" and t.args[0] is p_r]
        full = slice(None, None, None)
        r4.require(okp and len(rows) == 1 and rows[0].args[1] == (full, None) and len(cols) == 1 and cols[0].args[1] == (None, full), "DenseExponential.transition p_inv rows / p columns", "p_inv[:, None] * A * p[None, :]", f"A_p = {T.show(Ap, 4)}", where_of(Ap, DENSE))
        want_b = {T.mk("np.abs", (dt,)): Fraction(1, 2), T.mk("np.abs", (T.mk("getitem", (pi_r, (full, None))),)): 1, A("self.B"): 1}
        r4.require(fb == want_b, "DenseExponential.transition dispersion", "B_p = sqrt|dt| * |p_inv| * B", f"B_p = {T.show(Bp, 4)}", where_of(Bp, DENSE))
        L = cond.fields["noise"].fields["cholesky_flat"] if isinstance(cond, Rec) else None
        r4.require(isinstance(L, T.Term) and flat_factors(L) == {osc: 1, T.mk("getitem", (eg[0], 1)): 1}, "DenseExponential.transition noise", "noise = output_scale * L", f"{T.show(L, 3)}", DENSE)
        r4.require(cond.fields["A"] is T.mk("getitem", (eg[0], 0)) and cond.fields["to_latent"] is pi_r and cond.fields["to_observed"] is p_r, "DenseExponential.transition conditional", "(eA, noise, to_latent=p_inv, to_observed=p)", "", DENSE)


def drift_rules(chk, S, r5):
    # capture the ODE handed to prior_exponential[_diffuse] by the Matern / OU constructors
    for base_name, args_plain, args_diff in (
        ("prior_matern", [A("length_scale"), [A("c0"), A("c1"), A("c2")]], [A("length_scale"), [A("c0"), A("c1"), A("c2")], [A("s0"), A("s1"), A("s2")]]),
        ("prior_ornstein_uhlenbeck_integrated", [A("linop"), [A("c0"), A("c1"), A("c2")]], [A("linop"), [A("c0"), A("c1"), A("c2")], [A("s0"), A("s1"), A("s2")]]),
    ):
        odes = {}
        for variant, args in (("", args_plain), ("_diffuse", args_diff)):
            for diffuse in (0, 2):
                it = S.interp()
                cv = it.class_value(DENSE + ".state_space_model_dense")
                ssm = it.instantiate(cv, [], {}, "<harness>")
                got = []

                got_kw = []

                def hook(itp, fn, a, kw, site, _g=got, _k=got_kw):
                    _g.append(a[1])
                    _k.append((a[2:], kw))
                    return T.atom("prior")

                it.method_hooks[DENSE + ".state_space_model_dense.prior_exponential"] = hook
                it.method_hooks[DENSE + ".state_space_model_dense.prior_exponential_diffuse"] = hook
                user_kw = {"diffuse_eps": A("user_diffuse_eps"), "output_scale": A("user_output_scale")}
                if not variant:
                    user_kw.update(is_exact=A("user_is_exact"), inexact_eps=A("user_inexact_eps"))
                call(it, method(it, ssm, base_name + variant), *args, diffuse_derivatives=diffuse, **user_kw)
                S.absorb(it)
                if len(got) != 1 or not isinstance(got[0], Rec):
                    raise AnalysisError(f"{base_name}{variant}: ODE handed to prior_exponential not captured")
                # the constructor only adds the drift: coefficients and every option of the caller reach the exponential prior unchanged
                pos, kw_ = got_kw[0]
                okf = list(pos) == list(args[1:]) and kw_.get("diffuse_derivatives") == diffuse and all(kw_.get(k_) is v_ for k_, v_ in user_kw.items())
                r5.require(okf, f"{base_name}{variant} forwards the caller's coefficients and options (diffuse={diffuse})", "tcoeffs[, std], is_exact, inexact_eps, diffuse_derivatives, diffuse_eps, output_scale unchanged",
                           f"prior_exponential{variant} receives {T.show(pos, 2)} and {{{', '.join(f'{k_}: {T.show(v_, 2)}' for k_, v_ in kw_.items())}}}; a dropped output_scale makes the prior ignore the base scale", API, {"constructor": base_name + variant, "diffuse_derivatives": diffuse})
                ode = got[0]
                odes[(variant, diffuse)] = (ode, it)
                k = 3 + diffuse
                r5.require(ode.fields.get("num_tcoeffs_in_args") == k, f"{base_name}{variant} num_tcoeffs_in_args (diffuse={diffuse})", f"= len(tcoeffs) + diffuse = {k}", f"= {ode.fields.get('num_tcoeffs_in_args')}", API)
        # drift formula, for every variant and every number of diffuse derivatives: the order D is the number of coefficients the state actually carries
        val = None
        for (variant_, diffuse_), (ode, it) in sorted(odes.items()):
            D = 3 + diffuse_
            xs = [A(f"x{i}") for i in range(D)]
            val_ = it.call(ode.fields["autonomous"], [], {"jet_coords": xs}, "<harness>")
            cfg_ = {"constructor": base_name + variant_, "diffuse_derivatives": diffuse_}
            if base_name == "prior_matern":
                z = T.mk("div", (T.mk("np.sqrt", (2 * (D - 0.5),)), A("length_scale")))
                want = 0
                for i, x in enumerate(xs):
                    want = T.mk("add", (want, T.mk("mul", (T.mk("mul", (comb(D, i), T.mk("pow", (z, D - i)))), x)))) if i else T.mk("mul", (T.mk("mul", (comb(D, i), T.mk("pow", (z, D - i)))), x))
                want = T.mk("neg", (want,))
                okv = isinstance(val_, (list, tuple)) and len(val_) == 1 and nf.equal(val_[0], want)
                r5.require(okv, f"prior_matern{variant_} drift (D = {D})", "-(sum_i C(D,i) z^(D-i) x_i), z = sqrt(2(D-1/2))/l with D = number of coefficients of the state",
                           f"drift = {nf.show(nf.norm(val_[0])) if isinstance(val_, (list, tuple)) and val_ else val_}; expected {nf.show(nf.norm(want))}", API, cfg_)
                if (variant_, diffuse_) == ("", 0):
                    chk.sample({"rule": "R-C09-5", "matern_drift": nf.show(nf.norm(val_[0])) if isinstance(val_, (list, tuple)) and val_ else str(val_)})
            else:
                okv = isinstance(val_, (list, tuple)) and len(val_) == 1 and val_[0] is T.mk("call", (A("linop"), xs[-1]))
                r5.require(okv, f"prior_ornstein_uhlenbeck_integrated{variant_} drift (D = {D})", "linop applied to the highest coefficient", f"drift = {T.show(val_, 3)}", API, cfg_)
            if (variant_, diffuse_) == ("", 0):
                val = val_
        xs = [A("x0"), A("x1"), A("x2")]
        # twins agree
        ode_d, it_d = odes[("_diffuse", 0)]
        val_d = it_d.call(ode_d.fields["autonomous"], [], {"jet_coords": xs}, "<harness>")
        same = isinstance(val_d, (list, tuple)) and isinstance(val, (list, tuple)) and len(val) == len(val_d) and all(nf.equal(a, b) for a, b in zip(val, val_d))
        r5.require(same, f"{base_name} twins", "the *_diffuse constructor defines the same drift", f"{T.show(val, 3)} vs {T.show(val_d, 3)}", API)


# ---------------------------------------------------------------------------
# R-C09-9: magnitude of the Taylor preconditioner over the box the statement quantifies over.
# The preconditioner vectors are closed forms in (dt, k): p_k = dt^k / k!, p_k^-1 = dt^-k k!, k = 0..q.  For fixed k both are monotone in dt > 0, so their
# extreme magnitudes over  dt in [h_min, h_max], q <= q_max  are attained at the corners: an interval evaluation of the two expressions the source computes.
# Removing the preconditioner multiplies p_k * (...) * p_j^-1: if p^-1 overflows the working precision (and p underflows) the product is 0 * inf.
BOX = {"h_min": 1e-6, "h_max": 1e2, "q_max": 10}  # "all h in [1e-6, 1e2] ..., orders q = 0..10" (quantifier of C09)
FLOATS = {"float64": (1.7976931348623157e308, 2.2250738585072014e-308), "float32": (3.4028234663852886e38, 1.1754943508222875e-38)}


def _ival_eval(t, dt_iv):
    """Interval evaluation of a term built from dt, np.arange, np.factorial, np.power, neg, mul, div: returns a list of (lo, hi) of magnitudes, one per entry."""
    import math

    if isinstance(t, (int, float)) and not isinstance(t, bool):
        return [(float(t), float(t))]
    if not isinstance(t, T.Term):
        raise AnalysisError(f"preconditioner range: cannot evaluate {t!r}")
    if t.op == "atom":
        return [dt_iv]
    if t.op == "np.arange":
        start = float(t.args[0])
        stop = float(t.args[1])
        step = float(t.kwargs.get("step", t.args[2] if len(t.args) > 2 else 1))
        out, x = [], start
        while (step > 0 and x < stop) or (step < 0 and x > stop):
            out.append((x, x))
            x += step
        return out
    if t.op == "neg":
        return [(-hi, -lo) for lo, hi in _ival_eval(t.args[0], dt_iv)]
    if t.op == "np.factorial":
        return [(math.gamma(lo + 1), math.gamma(hi + 1)) for lo, hi in _ival_eval(t.args[0], dt_iv)]
    if t.op in ("np.power", "pow"):
        base, exps = _ival_eval(t.args[0], dt_iv), _ival_eval(t.args[1], dt_iv)
        if len(base) != 1:
            raise AnalysisError("preconditioner range: vector base")
        (blo, bhi) = base[0]
        out = []
        for elo, ehi in exps:
            if elo != ehi:
                raise AnalysisError("preconditioner range: interval exponent")
            vals = [blo ** elo, bhi ** elo]
            out.append((min(vals), max(vals)))
        return out
    if t.op in ("mul", "div"):
        a, b = _ival_eval(t.args[0], dt_iv), _ival_eval(t.args[1], dt_iv)
        if len(a) == 1:
            a = a * len(b)
        if len(b) == 1:
            b = b * len(a)
        if len(a) != len(b):
            raise AnalysisError("preconditioner range: shapes")
        out = []
        for (alo, ahi), (blo, bhi) in zip(a, b):
            vals = [x * y if t.op == "mul" else x / y for x in (alo, ahi) for y in (blo, bhi)]
            out.append((min(vals), max(vals)))
        return out
    raise AnalysisError(f"preconditioner range: operator {t.op} not in the closed-form fragment")


def preconditioner_range_rules(chk, S):
    r9 = chk.rule("R-C09-9", "over the box of the statement (h in [1e-6, 1e2], q <= 10) both vectors of the Taylor preconditioner stay finite and normal in the working precision "
                  "(interval evaluation of the closed forms the source computes); otherwise removing the preconditioner is 0 * inf", floor=2)
    where = "probdiffeq/_probdiffeq/utilities.py"
    it = S.interp()
    try:
        pre = it.call(it.function_value(UTIL + ".preconditioner_taylor"), [BOX["q_max"]], {}, "<harness>")
        out = it.call(pre, [A("dt")], {}, "<harness>")
    except AnalysisError as e:
        r9.unknown("preconditioner_taylor", f"not analysed: {e}", where)
        return
    S.absorb(it)
    if not (isinstance(out, (tuple, list)) and len(out) == 2):
        r9.unknown("preconditioner_taylor", f"returns {T.show(out, 3)}", where)
        return
    try:
        ivs = [_ival_eval(o, (BOX["h_min"], BOX["h_max"])) for o in out]
    except (AnalysisError, OverflowError, ZeroDivisionError) as e:
        r9.unknown("preconditioner_taylor range", f"{e}", where)
        return
    # the exponents are floating-point numbers: with an integer exponent array, a step that happens to be integer-typed (h = 2, the difference of an integer
    # grid) makes dt ** -k an *integer* power with a negative exponent, which is 0 or wrapped garbage, silently
    ar = [t for o in out for t in T.subterms(o) if t.op == "np.arange"]
    inexact = bool(ar) and all(any(isinstance(x, float) for x in list(t.args) + list(t.kwargs.values())) or "float" in str(t.kwargs.get("dtype", "")) for t in ar)
    r9.require(inexact if ar else None, "Taylor preconditioner exponents are floating-point numbers", "arange(q, -1.0, step=-1.0): inexact exponents, so dt ** -k is a floating power for every step type",
               f"exponents {[T.show(t, 3) for t in ar]} are integers: for an integer-typed step the inverse preconditioner dt ** -k is computed in integer arithmetic (0 or garbage for |dt| > 1)", where)
    biggest = max(hi for iv in ivs for _lo, hi in iv)
    smallest = min(lo for iv in ivs for lo, _hi in iv)
    # the entry where the precision is first exceeded, for the message
    for name, (fmax, ftiny) in FLOATS.items():
        ok = biggest < fmax and smallest > ftiny
        worst = ""
        if not ok:
            ks = [k for k, (lo, hi) in enumerate(ivs[1]) if hi >= fmax]
            worst = f"; p^-1 exceeds {fmax:.3g} from entry {min(ks)} of {len(ivs[1])} on" if ks else ""
        r9.require(ok, f"Taylor preconditioner within the range of {name} over the stated box", f"magnitudes in [{smallest:.3g}, {biggest:.3g}]",
                   f"magnitudes reach [{smallest:.3g}, {biggest:.3g}] (dt = {BOX['h_min']:g}, q = {BOX['q_max']}){worst}: in {name} p^-1 = dt^-k k! overflows to inf while p = dt^k / k! underflows, and removing the "
                   "preconditioner computes 0 * inf = NaN", where, {"precision": name})
