"""C07 -- the acceptance quantity equals the documented local error estimate."""

from __future__ import annotations

from .. import bounds as B
from .. import nf
from .. import terms as T
from ..harness import SOLVERS, A, Rec, Session, call, mcalls, method, named, rec_of_atoms, where_of
from ..model import AnalysisError

EXPLANATION = (
    "Abstract interpretation of every ErrorEstimator subclass's estimate_error_norm (x cached / re-linearised x "
    "per-unit-step on/off) and of both error-norm factories with opaque constraint / prior / linearisation objects: "
    "provenance of the extrapolated variable, which linearisation is used and which estimator state is returned, the "
    "algebraic normal form of error_abs = error * dt^n / n! and error_power = norm^(-1/rate), the reference "
    "max(|u_prev|, |u_new|) at the same coefficient, the two norm formulas, and the shape guard on the residual path."
)
LEVEL = "other"
TECHNIQUE = "abstract interpretation over the AST: provenance dataflow, value-numbering with algebraic normal form, symbolic-bound analysis, must-pass-through guard tracking"
LEVEL_TEXT = (
    "The formula of the acceptance quantity is decided as an identity of normal forms for every configuration of both "
    "estimators and both norms (finite product enumerated completely), so it holds for every state, step size and tolerance."
)
LEVEL_NOTE = (
    "Trusted: interface methods of the state-space layer (transition, apply_flat, marginalise, rescale_cholesky, std, "
    "residual_whitened_rms_tree, bayes_rule_and_residual_whitened_rms_tree) are opaque here -- their algebra is C08; "
    "invariance under the prior's base scale is decided in C04 (unit polymorphism).  linalg.vector_norm / np.* as named."
)

PS = SOLVERS + ".ProbabilisticSolution"


def strip(t, ops=("tree.ravel", "np.asarray")):
    while isinstance(t, T.Term) and t.op in ops and t.args:
        t = t.args[0]
    if isinstance(t, T.Term) and t.op == "getitem" and t.args[1] == 0 and isinstance(t.args[0], T.Term) and t.args[0].op == "tree.ravel_pair":
        return strip(t.args[0].args[0])
    return t


def flatten_factors(t):
    """Multiplicative factors of an error expression, looking through ravel / asarray wrappers."""
    t = strip(t)
    if isinstance(t, T.Term) and t.op == "mul":
        return flatten_factors(t.args[0]) + flatten_factors(t.args[1])
    if isinstance(t, T.Term) and t.op == "nf.poly" and len(t.args) == 1 and t.args[0][0] == "1" and all(e == "1" for _b, e in t.args[0][1]):
        out = []
        for b, _e in t.args[0][1]:
            out += flatten_factors(b)
        return out
    return [t]


def _run_own(chk, S: Session):
    chk.trust("opaque interface methods of AbstractLatentCond / AbstractTreeNormal / AbstractPrior / AbstractLinearization",
              "linalg.vector_norm(x, order=None) is the 2-norm", "tree.ravel_pytree flattens without reordering values of one leaf")
    r1 = chk.rule("R-C07-1", "the extrapolated variable depends only on previous.u.mean_flat, previous.prior and dt (unit output scale)", floor=8)
    r2 = chk.rule("R-C07-2", "re-linearised exactly when configured (at the extrapolation, at proposed.t), else the cached linearisation; estimator state returned accordingly", floor=8)
    r3 = chk.rule("R-C07-3", "error_abs = error * dt^n / n!, error_power = norm^(-1/rate), error = locally calibrated std", floor=16)
    r4 = chk.rule("R-C07-4", "reference = max(|u_prev|, |u_new|) at the same coefficient index", floor=8)
    r5 = chk.rule("R-C07-5", "norm formulas: scale-then-rms and rms-then-scale", floor=2)
    r7 = chk.rule("R-C07-7", "shape guard error.shape in {(1,), reference.shape} passed before the residual estimate is used", floor=4)

    ests = S.p.subclasses(SOLVERS + ".ErrorEstimator")
    if len(ests) < 2:
        raise AnalysisError("expected >= 2 ErrorEstimator subclasses")
    configs = 0
    for ci in ests:
        is_state = "derivative_idx" in _init_params(S, ci)
        for relin in (False, True):
            for unit in (False, True):
                configs += 1
                cfg = {"estimator": ci.name, "re_linearize": relin, "per_unit_step": unit}
                it = S.interp()
                cv = it.class_value(ci.qualname)
                kw = dict(constraint=A("constraint"), re_linearize_before_error=relin, error_per_unit_step=unit, error_norm=A("error_norm"))
                if is_state:
                    kw["derivative_idx"] = A("derivative_idx")
                est = it.instantiate(cv, [], kw, "<harness>")
                prev, prop = rec_of_atoms(it, PS, "prev"), rec_of_atoms(it, PS, "prop")
                estate = A("estate")
                dt = A("dt")
                out = call(it, method(it, est, "estimate_error_norm"), estate, prev, prop, dt=dt, atol=A("atol"), rtol=A("rtol"), damp=A("damp"))
                S.absorb(it)
                name = f"{ci.name}.estimate_error_norm"
                if not (isinstance(out, (tuple, list)) and len(out) == 2):
                    r3.fail(name, f"does not return (error_power, state): {T.show(out, 3)}", config=cfg)
                    continue
                power, new_state = out
                where = where_of(power, ci.module.relpath)
                # ---- R1: extrapolation
                rvs = [t for t in mcalls(out, "apply_flat")]
                rv = rvs[0] if len(rvs) == 1 else None
                ok = (
                    rv is not None and len(rv.args) == 3 and rv.args[2] is T.mk("attr", (prev.fields["u"], "mean_flat"))
                    and isinstance(rv.args[0], T.Term) and rv.args[0].op == "mcall" and rv.args[0].args[1] == "transition"
                    and rv.args[0].args[0] is prev.fields["prior"] and rv.args[0].kwargs.get("dt") is dt
                )
                r1.require(ok, f"{name} extrapolation", "rv = previous.prior.transition(dt).apply_flat(previous.u.mean_flat)",
                           f"extrapolated variable(s): {[T.show(t, 4) for t in rvs]}", where, cfg)
                if rv is not None:
                    va = T.value_atoms(rv)
                    r1.require(va <= {"prev.u", "prev.prior", "dt"}, f"{name} extrapolation provenance", f"depends by value only on {sorted(va)}",
                               f"extrapolation depends by value on {sorted(va)}; expected a subset of previous.u, previous.prior, dt", where, cfg)
                    os_ = rv.args[0].kwargs.get("output_scale")
                    r1.require(isinstance(os_, T.Term) and os_.op == "np.ones_like" and not T.value_atoms(os_), f"{name} unit output scale", "transition uses a unit output scale",
                               f"output scale of the extrapolation is {T.show(os_, 3)}", where, cfg)
                # ---- R2: which linearisation
                lins = mcalls(out, "linearize", A("constraint"))
                users = mcalls(out, "bayes_rule_and_residual_whitened_rms_tree") if is_state else mcalls(out, "marginalise")
                if len(users) != 1:
                    r2.fail(f"{name} linearisation use", f"expected one use of the linearisation, found {len(users)}", where, cfg)
                    continue
                lin = users[0].args[0]
                if relin:
                    ok = len(lins) == 1 and lin is T.mk("getitem", (lins[0], 0)) and rv is not None and named(lins[0], "rv") is rv and named(lins[0], "t") is prop.fields["t"] and named(lins[0], "state") is estate
                    r2.require(ok, f"{name} re-linearise", "linearize(rv, state, t=proposed.t)[0] is used", f"linearisation used: {T.show(lin, 4)}; linearize calls: {[T.show(t, 3) for t in lins]}", where, cfg)
                    r2.require(len(lins) == 1 and new_state is T.mk("getitem", (lins[0], 1)), f"{name} returned state (re-linearised)", "returns the new estimator state",
                               f"returned state {T.show(new_state, 3)}", where, cfg)
                else:
                    r2.require(not lins and lin is prop.fields["fun_evals"], f"{name} cached", "proposed.fun_evals is used, no new linearisation",
                               f"linearisation used: {T.show(lin, 4)}; linearize calls: {len(lins)}", where, cfg)
                    r2.require(new_state is estate, f"{name} returned state (cached)", "returns the incoming estimator state", f"returned state {T.show(new_state, 3)}", where, cfg)
                user_rv = users[0].args[3] if is_state and len(users[0].args) > 3 else (users[0].args[2] if not is_state and len(users[0].args) > 2 else None)
                r2.require(rv is not None and user_rv is rv, f"{name} linearisation applied to the extrapolation", "marginalise / bayes_rule on the extrapolated variable",
                           f"applied to {T.show(user_rv, 3)}", where, cfg)
                # ---- R3: formula
                pp = nf.norm(power)
                pw = None
                if len(pp) == 1 and list(pp.values())[0] == 1:
                    (mono,) = pp.keys()
                    if len(mono) == 1 and mono[0][0].op == "pow":
                        pw = mono[0]
                if pw is None:
                    r3.fail(f"{name} error_power", f"error_power is {T.show(power, 3)}, not norm ** exponent", where, cfg)
                    continue
                base_c, expo_c = pw[0].args
                outer = pw[1]
                base = next((t for t in T.subterms(power) if t.op == "call" and t.args[0] is A("error_norm") and nf.canon(t) is base_c), None)
                rates = [T.mk("len", (T.mk("tree.tree_leaves_depth_one", (T.mk("attr", (x.fields["u"], "mean")),)),)) for x in (prev, prop)]
                ok = any(nf.mul(nf.norm(expo_c), nf.const(outer)) == nf.norm(T.mk("div", (-1.0, rt))) for rt in rates)
                r3.require(ok, f"{name} contraction rate", "exponent = -1 / (number of Taylor coefficients)", f"error_power = {nf.show(pp)}", where, cfg)
                ok = isinstance(base, T.Term) and base.op == "call" and base.args[0] is A("error_norm") and len(base.args) == 3 and base.kwargs.get("atol") is A("atol") and base.kwargs.get("rtol") is A("rtol")
                r3.require(ok, f"{name} norm call", "error_norm(error_abs, reference, atol=atol, rtol=rtol)", f"norm is {T.show(base, 3)}", where, cfg)
                if not ok:
                    continue
                error_abs, reference = base.args[1], base.args[2]
                if is_state:
                    n0 = A("derivative_idx")
                else:
                    n0 = T.mk("sub", (T.mk("attr", (A("constraint"), "residual_order")), 1))
                n = T.mk("add", (n0, 1)) if unit else n0
                # E = error_abs * n! / dt^n  must not depend on dt's power / factorial any more
                poly = nf.norm(T.mk("div", (T.mk("mul", (error_abs, T.mk("np.factorial", (n,)))), T.mk("pow", (dt, n)))))
                single = len(poly) == 1 and list(poly.values())[0] == 1
                bases = [t for m in poly for t, _e in m]
                bad = [t for t in T.subterms(bases) if t.op in ("pow", "np.factorial", "np.power") and ("dt" in T.atoms_of(t) or t.op == "np.factorial")]
                bad += [t for t in bases if t is dt]
                r3.require(single and not bad, f"{name} dt^n/n!", f"error_abs = error * dt^n / n! with n = {T.show(n)}",
                           f"error_abs = {T.show(error_abs, 4)} is not error * dt**n / factorial(n) with n = {T.show(n)}", where_of(error_abs, where), cfg)
                # the error itself
                mono = list(poly.keys())[0] if single else ()
                factors = [f for t, e in mono if e == 1 for f in flatten_factors(t)]
                if is_state:
                    bay = users[0]
                    scale, cond = T.mk("getitem", (bay, 0)), T.mk("getitem", (bay, 1))
                    std_n = T.mk("getitem", (T.mk("attr", (cond, "std")), A("derivative_idx")))
                    ok = len(factors) == 2 and {f.uid for f in factors if isinstance(f, T.Term)} == {scale.uid, std_n.uid}
                    r3.require(ok and not bad, f"{name} error", "error = local whitened-RMS scale * std[derivative_idx] of the conditioned state",
                               f"error factors: {[T.show(f, 4) for f in factors]}", where, cfg)
                    zeros = bay.args[2] if len(bay.args) > 2 else None
                    r3.require(isinstance(zeros, T.Term) and not T.value_atoms(zeros), f"{name} zero data", "Bayes rule on zero data", f"data is {T.show(zeros, 3)}", where, cfg)
                else:
                    marg = users[0]
                    rms = [t for t in mcalls(out, "residual_whitened_rms_tree") if t.args[0] is marg]
                    resc = [t for t in mcalls(out, "rescale_cholesky") if t.args[0] is marg]
                    ok = len(rms) == 1 and len(resc) == 1 and len(resc[0].args) == 3 and resc[0].args[2] is rms[0] and len(factors) == 1 and factors[0] is T.mk("attr", (resc[0], "std"))
                    r3.require(ok and not bad, f"{name} error", "error = std of the residual marginal rescaled by its own whitened RMS",
                               f"error factors: {[T.show(f, 5) for f in factors]}", where, cfg)
                    zeros = rms[0].args[2] if rms and len(rms[0].args) > 2 else None
                    r3.require(isinstance(zeros, T.Term) and not T.value_atoms(zeros), f"{name} zero data", "whitened RMS of the zero residual datum", f"data is {T.show(zeros, 3)}", where, cfg)
                # ---- R4: reference
                if is_state:
                    u0 = T.mk("getitem", (T.mk("attr", (prev.fields["u"], "mean")), A("derivative_idx")))
                    u1 = T.mk("getitem", (T.mk("attr", (prop.fields["u"], "mean")), A("derivative_idx")))
                else:
                    u0 = T.mk("getitem", (T.mk("tree.tree_leaves_depth_one", (T.mk("attr", (prev.fields["u"], "mean")),)), 0))
                    u1 = T.mk("getitem", (T.mk("tree.tree_leaves_depth_one", (T.mk("attr", (prop.fields["u"], "mean")),)), 0))
                bb = B.Bounds()
                absr = [t for t in T.subterms(reference) if t.op == "np.abs"]
                found = {strip(t.args[0]).uid: t for t in absr if isinstance(strip(t.args[0]), T.Term)}
                ok = u0.uid in found and u1.uid in found and bb.prove_le(found[u0.uid], reference) and bb.prove_le(found[u1.uid], reference)
                r4.require(ok, f"{name} reference", "reference >= |u_prev| and >= |u_new| (same coefficient)",
                           f"reference is {T.show(reference, 5)}; expected max(|{T.show(u0)}|, |{T.show(u1)}|)", where_of(reference, where), cfg)
                va = T.value_atoms(reference)
                r4.require(va - {"derivative_idx"} == {"prev.u", "prop.u"}, f"{name} reference provenance", "reference depends exactly on previous.u and proposed.u", f"depends on {sorted(va)}", where, cfg)
                # ---- R7: shape guard (residual estimator only)
                if not is_state:
                    gs = [g for g in it.cur_guards if g["exc"] == "ValueError" and any(t.op == "attr" and t.args[1] == "shape" for t in T.subterms(g["cond"]))]
                    ok = any(strip_shape_guard(g, factors, reference) for g in gs)
                    r7.require(ok, f"{name} shape guard", "every returning path passes `error.shape not in [(1,), reference.shape] -> ValueError`",
                               f"guards passed on all paths: {[(g['exc'], T.show(g['cond'], 3)) for g in it.cur_guards]}", where, cfg)
                if configs <= 2:
                    chk.sample({"config": cfg, "error_power": T.show(power, 5)})
    chk.extra["configuration_product"] = f"{len(ests)} estimators x cached/re-linearised x per-unit-step on/off = {configs}"
    chk.exhaustive = True
    norm_rules(chk, S, r5)


def strip_shape_guard(g, factors, reference):
    c = g["cond"]
    shapes = [t for t in T.subterms(c) if t.op == "attr" and t.args[1] == "shape"]
    bases = {strip(t.args[0]).uid for t in shapes if isinstance(strip(t.args[0]), T.Term)}
    want_err = {f.uid for f in factors if isinstance(f, T.Term)}
    return bool(bases & want_err) and reference.uid in {t.args[0].uid for t in shapes if isinstance(t.args[0], T.Term)}


def _init_params(S, ci):
    fn = ci.methods.get("__init__")
    if fn is None:
        return []
    return [a.arg for a in fn.args.kwonlyargs] + [a.arg for a in fn.args.args[1:]]


def norm_rules(chk, S, r5):
    it = S.interp()
    e, ref, atol, rtol = A("e"), A("ref"), A("atol"), A("rtol")

    def rms(x):
        return T.mk("div", (T.mk("linalg.vector_norm", (x,), {"order": None}), T.mk("np.sqrt", (T.mk("attr", (x, "size")),))))

    for fname, want_fn in (
        ("error_norm_scale_then_rms", lambda: rms(nf.canon(T.mk("div", (e, T.mk("add", (atol, T.mk("mul", (rtol, T.mk("np.abs", (ref,))))))))))),
        ("error_norm_rms_then_scale", lambda: T.mk("div", (rms(e), T.mk("add", (atol, T.mk("mul", (rtol, rms(ref)))))))),
    ):
        f = it.function_value(f"{SOLVERS}.{fname}")
        normalize = it.call(f, [], {}, "<harness>")
        got = it.call(normalize, [e, ref], {"atol": atol, "rtol": rtol}, "<harness>")
        want = want_fn()
        ok = nf.equal(got, want)
        r5.require(ok, fname, f"= {T.show(want, 6)}", f"{fname} computes {T.show(got, 7)}; expected {T.show(want, 7)}", where_of(got, "probdiffeq/_probdiffeq/solvers.py"))
        chk.sample({"rule": "R-C07-5", "norm": fname, "normal_form": nf.show(nf.norm(got))})
    S.absorb(it)
    # error_norm_rms_then_scale takes the norm of the *unscaled* error, and the three factorisations report that error in different multiplicities: the
    # isotropic model one number per Taylor coefficient, the dense model the same number once per state dimension.  The norm must not see the difference:
    # for a vector of n equal entries of magnitude N, |x|_p = N n^(1/p), so the normaliser has to be n^(1/p) -- for the requested order p, not only for p = 2.
    for label, order in (("default order", None), ("requested order p", A("p"))):
        it2 = S.interp()
        f = it2.function_value(f"{SOLVERS}.error_norm_rms_then_scale")
        normalize = it2.call(f, [], {} if order is None else {"norm_order": order}, "<harness>")
        got = it2.call(normalize, [e, ref], {"atol": atol, "rtol": rtol}, "<harness>")
        S.absorb(it2)
        from ..harness import subst

        mapping, sizes = {}, []
        for x, mag in ((e, A("N_e")), (ref, A("N_ref"))):
            size = T.mk("attr", (x, "size"))
            n_atom = A(f"n_{T.atom_name(x)}")
            sizes.append(n_atom)
            root = T.mk("np.sqrt", (n_atom,)) if order is None else T.mk("pow", (n_atom, T.mk("div", (1, order))))
            for vn in [t for t in T.subterms(got) if t.op == "linalg.vector_norm" and t.args and t.args[0] is x]:
                mapping[vn.uid] = T.mk("mul", (mag, root))
            mapping[size.uid] = n_atom
        val = subst(got, mapping)
        try:
            free = {b for mono in nf.norm(val) for b, _e in mono if isinstance(b, T.Term)}
            dep = [n_ for n_ in sizes if any(n_ in list(T.subterms(b)) for b in free)]
            ok = not dep
            det = f"for n equal entries the value is {nf.show(nf.norm(val))}"
        except Exception as ex:  # noqa: BLE001
            ok, dep, det = None, [], f"normal form not available: {ex}"
        r5.require(ok, f"error_norm_rms_then_scale does not depend on the multiplicity of equal entries ({label})", "p-norm / n^(1/p): a vector of n equal entries has the norm of one entry",
                   f"{det}: it depends on the number of entries {[T.atom_name(d_) for d_ in dep]} -- the isotropic model (one error per coefficient) and the dense model (the same error d times) get "
                   "different acceptance quantities and take different steps", "probdiffeq/_probdiffeq/solvers.py", {"norm_order": "None" if order is None else "p"})


def residual_order_rules(chk, S):
    """n of dt^n/n! is residual_order - 1: for u^(k) = f(u, ..., u^(k-1)) the residual involves k + 1 Taylor coefficients and the local error of the state is the
    residual times dt^k/k!; a residual on m coefficients involves m.  The estimators read `constraint.residual_order`; here: every constraint class sets it so."""
    from ..harness import API, BLOCK, DENSE, ISO, PROBLEMS

    r8 = chk.rule("R-C07-8", "residual_order of every constraint = number of Taylor coefficients its residual involves (ODE of order k: k + 1; residual on m coefficients: m), "
                  "for every order and every factorisation", floor=12)
    for mod, ts0, res in ((DENSE, "DenseOdeTs0", "DenseResidual"), (ISO, "IsotropicOdeTs0", "IsotropicResidual"), (BLOCK, "BlockDiagOdeTs0", "BlockDiagResidual")):
        for k in (1, 2, 3):
            it = S.interp()
            ode = it.instantiate(it.class_value(PROBLEMS + ".JetOde"), [A("vf")], dict(jacobian=A("jac"), num_tcoeffs_in_args=k, tcoeff_indices_output=[k]), "<harness>")
            try:
                c = it.instantiate(it.class_value(f"{mod}.{ts0}"), [], {"ode": ode}, "<harness>")
                got = c.fields.get("residual_order")
            except AnalysisError as e:
                r8.unknown(f"{ts0} residual_order (ODE order {k})", str(e), mod)
                continue
            S.absorb(it)
            r8.require(got == k + 1, f"{ts0} residual_order (ODE order {k})", f"= {k + 1}", f"residual_order = {T.show(got, 2)} for an ODE of order {k}: the error estimate would be scaled by dt^{{n}}/n! with n = {T.show(got, 2)} - 1 instead of {k}", API)
        for m in (1, 2, 3):
            it = S.interp()
            resid = it.instantiate(it.class_value(PROBLEMS + ".JetResidual"), [A("rfun")], dict(jacobian=A("jac"), num_tcoeffs_in_args=m), "<harness>")
            try:
                kw = {"taylor_point": A("tp")} if res == "DenseResidual" else {}
                c = it.instantiate(it.class_value(f"{mod}.{res}"), [resid], kw, "<harness>")
                got = c.fields.get("residual_order")
            except AnalysisError as e:
                r8.unknown(f"{res} residual_order ({m} coefficients)", str(e), mod)
                continue
            S.absorb(it)
            r8.require(got == m, f"{res} residual_order ({m} coefficients)", f"= {m}", f"residual_order = {T.show(got, 2)} for a residual on {m} coefficients", API)


def run(chk, S: Session):
    _run_own(chk, S)
    residual_order_rules(chk, S)
    from ..harness import borrow

    rb = chk.rule("R-C07-B", "clause of this statement decided by a rule of C06 (the dt that scales the error estimate is the dt of the attempted, clipped step)", floor=1)
    borrow(chk, S, rb, "C06", lambda r, c: r == "R-C06-4")
    rb2 = chk.rule("R-C07-B2", "the acceptance quantity is a norm over the state's components: residual estimates whose shape matches the reference only by coincidence are rejected "
                   "(guard-table rows of C20 for the residual error estimate, each evaluated under its declared corruption)", floor=2)
    borrow(chk, S, rb2, "C20", lambda r, c: r == "R-C20-1" and c.startswith("residual error estimate") and "single-output" not in c)
    rb4 = chk.rule("R-C07-B4", "the state-based estimate conditions on the residual with an exact solve for the kernel's upper-triangular factor (rule of C08)", floor=1)
    borrow(chk, S, rb4, "C08", lambda r, c: r == "R-C08-5" and c.startswith("reversal with solve_triu=linalg.") and "error_state_std" in c)
    rb3 = chk.rule("R-C07-B3", "'computed from the previous mean only': the first attempt extrapolates from the state that solver.init returns, which is the updated one when an initial constraint is given (rule of C02)", floor=3)
    borrow(chk, S, rb3, "C02", lambda r, c: r == "R-C02-2" and "init" in c)
    # an option passed to a constructor arrives in the attribute of its own name (the rules above read options through those attributes)
    from .ctor_wiring import ctor_wiring_rules

    rcw = chk.rule("R-C07-W", "constructor wiring of the error estimators: every attribute that carries a constructor parameter's name holds that parameter, not another one", floor=8)
    ctor_wiring_rules(chk, S, rcw, [c.qualname for c in S.p.subclasses(SOLVERS + ".ErrorEstimator")])
