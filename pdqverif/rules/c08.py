"""C08 -- Gaussian conditional algebra: unit- and shape-correctness in every factorisation."""

from __future__ import annotations

from .. import adomain as AD
from .. import nf
from .. import terms as T
from ..harness import API, BLOCK, CHOL, DENSE, ISO, A, PrimV, Rec, Session, call, method
from ..model import AnalysisError
from ..interp import RaiseSignal

EXPLANATION = (
    "Units-of-measure + symbolic-shape type inference (domain A) of the conditional algebra of all three factorisations: "
    "{Dense,Isotropic,BlockDiag}LatentCond.{apply_flat, marginalise, merge, revert, preconditioner_apply} and the shared QR kernels "
    "(revert_conditional, sum_of_sqrtm_factors, inlined).  Inputs carry independent vector units for the external / latent coordinates of a "
    "conditional's input and output (Ein, Lin, Lout, Eout), a white-noise axis and a scalar output scale; shapes use distinct symbols for the "
    "number of input / output coefficients and the state dimension.  Each method's result must have the units and shapes of its interface "
    "signature.  A well-typed method is invariant under every positive rescaling of the latent coordinates (the 'all scalings 1e-12..1e12' "
    "quantifier) and contracts only like axes (n != d, k observed rows).  Plus the structure of the Normal methods (whitened residual RMS, "
    "rescale_cholesky, logpdf summands, std, identity_conditional, to_derivative).  "
    "Value identities of the mean algebra (domain M, mdomain.py): every mean is normalised to a linear combination of matrix words over the symbols "
    "{A, gain, diagonal scalings, base vectors}; apply_flat / marginalise / revert-observed means equal P_out (A (P_in x) + b), the backward conditional of revert "
    "evaluated at the observed mean returns the prior mean (the gain cancels), merge(c2, c).apply = c2.apply o c.apply, and preconditioner_apply preserves the map -- "
    "in all three factorisations (the block-diagonal one per block).  "
    "Value identities of the covariance algebra (domain G, gdomain.py): the Gram matrix F F^T of every returned factor is evaluated in the same word algebra "
    "(transposes, |P| = P for positive scalings, sum_of_sqrtm_factors((R1, R2)) as a right factor with R^T R = R1^T R1 + R2^T R2, the (y, y) block of the reversal kernel) and equals "
    "the dense formula: P_o (A P_i S P_i A^T + Q) P_o for apply / marginalise / the observed part of revert, A_o T Q_i T A_o^T + Q_o for merge, P_o Q P_o and P_o A P_i after preconditioner removal.  "
    "The reversal kernel (revert_conditional) is interpreted with an uninterpreted solve: observed factor and gain come from the blocks of the triangularised joint factor, every model hands the "
    "caller's solve to it, and the backward noise factor is R_XY (exact solves) or carries the residual of a least-squares gain."
)
TRUSTED_VALUE_PRIMITIVES = ("lstsq_svd",)  # the solvers hand linalg.lstsq_svd to the reversal kernel for the initial-constraint update
LEVEL = "other"
TECHNIQUE = "units-of-measure and symbolic shape type inference over the abstract interpreter's terms (segmented axes for block matrices, typed vmap / einsum / QR / triangular solves); affine matrix-word normal form (free algebra with diagonal scalings and transposes) for value identities of means and of Gram matrices of covariance factors"
LEVEL_TEXT = (
    "One type derivation per method replaces the whole range of scalings and shapes; a dropped or misplaced scaling (as in the isotropic apply_flat defect, fixed in 494f97b) is a ground unit mismatch. "
    "Means and covariances are decided by value (symbolic identities valid for every input); the backward conditional's noise of a reversal (a Schur complement) is decided structurally only (R-C08-5), "
    "conditioning and rounding are not claimed."
)
LEVEL_NOTE = (
    "Trusted base = the primitive signatures of adomain.py (qr_r needs a unit-uniform row axis and returns (white, column-units); triangular solves; matmul/einsum contraction; "
    "concatenate/block build direct sums; zeros are unit-polymorphic).  cholesky_hilbert / system matrices are constants and not typed."
)

Lin, Lout, Ein, Eout, Emid, Lin2, Lout2 = [AD.mono({k: 1}) for k in ("Lin", "Lout", "Ein", "Eout", "Emid", "Lin2", "Lout2")]
SIG = AD.mono(sigma=1)
inv = AD.m_inv
mul = AD.m_mul


class Fam:
    """Layout of one factorisation: how (coefficient axis label, white axis) are arranged."""

    def __init__(self, name, module, cond_cls, normal_cls):
        self.name, self.module, self.cond_cls, self.normal_cls = name, module, cond_cls, normal_cls
        self.d = AD.dim("d")

    # mean of a normal over `n` coefficients with coordinate units `lab`
    def mean(self, n, lab):
        if self.name == "dense":
            return [AD.axis(n, lab)]
        if self.name == "isotropic":
            return [AD.axis(n, lab), AD.axis(self.d)]
        return [AD.axis(self.d), AD.axis(n, lab)]

    def chol(self, n, lab):
        if self.name == "blockdiag":
            return [AD.axis(self.d), AD.axis(n, lab), AD.axis(n)]
        return [AD.axis(n, lab), AD.axis(n)]

    def mat(self, nout, lout, nin, lin):
        if self.name == "blockdiag":
            return [AD.axis(self.d), AD.axis(nout, lout), AD.axis(nin, lin)]
        return [AD.axis(nout, lout), AD.axis(nin, lin)]

    def vec(self, n, lab):
        if self.name == "blockdiag":
            return [AD.axis(self.d), AD.axis(n, lab)]
        return [AD.axis(n, lab)]


FAMS = [
    Fam("dense", DENSE, DENSE + ".DenseLatentCond", DENSE + ".DenseNormal"),
    Fam("isotropic", ISO, ISO + ".IsotropicLatentCond", ISO + ".IsotropicNormal"),
    Fam("blockdiag", BLOCK, BLOCK + ".BlockDiagLatentCond", BLOCK + ".BlockDiagNormal"),
]


def typed(env, name, axes, scalar=AD.ONE):
    a = T.atom(name)
    env.declare(a, AD.AT(axes, scalar))
    return a


def mk_normal(it, env, fam, prefix, n, lab, scalar=SIG):
    return it.instantiate(it.class_value(fam.normal_cls), [typed(env, f"{prefix}.mean", fam.mean(n, lab)), typed(env, f"{prefix}.chol", fam.chol(n, lab), scalar), A(f"{prefix}.tf")], {}, "<harness>")


def mk_cond(it, env, fam, prefix, nin, nout, ein, lin, lout, eout, scalar=SIG):
    noise = mk_normal(it, env, fam, f"{prefix}.noise", nout, lout, scalar)
    return it.instantiate(
        it.class_value(fam.cond_cls),
        [typed(env, f"{prefix}.A", fam.mat(nout, lout, nin, inv(lin))), noise],
        dict(to_latent=typed(env, f"{prefix}.to_latent", fam.vec(nin, mul(lin, inv(ein)))), to_observed=typed(env, f"{prefix}.to_observed", fam.vec(nout, mul(eout, inv(lout))))),
        "<harness>",
    )


def check_normal(env, rule, construct, rv, fam, n, lab, scalar, where, cfg):
    if not isinstance(rv, Rec):
        rule.fail(construct, f"not a Normal record: {T.show(rv, 2)}", where, cfg)
        return
    tm, tc = env.of(rv.fields["mean_flat"]), env.of(rv.fields["cholesky_flat"])
    wm, wc = AD.AT(fam.mean(n, lab)), AD.AT(fam.chol(n, lab), scalar)
    okm = tm is not None and AD.same_type(tm, wm)
    okc = tc is not None and AD.same_type(tc, wc)
    rule.require(True if okm else (None if tm is None else False), f"{construct} mean", f"mean : {AD.show(tm)}", f"mean has type {AD.show(tm)}; expected {AD.show(wm)}", where, cfg)
    rule.require(True if okc else (None if tc is None else False), f"{construct} cholesky", f"cholesky : {AD.show(tc)}", f"Cholesky factor has type {AD.show(tc)}; expected {AD.show(wc)}", where, cfg)


def check_cond(env, rule, construct, c, fam, nin, nout, ein, lin, lout, eout, scalar, where, cfg):
    if not isinstance(c, Rec):
        rule.fail(construct, f"not a conditional record: {T.show(c, 2)}", where, cfg)
        return
    ta = env.of(c.fields["A"])
    wa = AD.AT(fam.mat(nout, lout, nin, inv(lin)))
    rule.require(True if (ta is not None and AD.same_type(ta, wa)) else (None if ta is None else False), f"{construct} A", f"A : {AD.show(ta)}", f"A has type {AD.show(ta)}; expected {AD.show(wa)}", where, cfg)
    check_normal(env, rule, f"{construct} noise", c.fields["noise"], fam, nout, lout, scalar, where, cfg)
    for fld, n_, lab in (("to_latent", nin, mul(lin, inv(ein))), ("to_observed", nout, mul(eout, inv(lout)))):
        tv = env.of(c.fields[fld])
        wv = AD.AT(fam.vec(n_, lab))
        rule.require(True if (tv is not None and AD.same_type(tv, wv)) else (None if tv is None else False), f"{construct} {fld}", f"{fld} : {AD.show(tv)}", f"{fld} has type {AD.show(tv)}; expected {AD.show(wv)}", where, cfg)


def flush(env, rule, construct, where, cfg):
    for e in env.errors:
        rule.fail(f"{construct} [{e.what}]", f"{e.detail}", getattr(e.term, "origin", None) or where, cfg)
    n_unknown = len(env.unknown)
    env.errors.clear()
    env.unknown.clear()
    return n_unknown


def run(chk, S: Session):
    chk.trust("primitive signatures of adomain.py (qr_r, solve_triu/tril, matmul, einsum, concatenate/block, zeros polymorphic)")
    r1 = chk.rule("R-C08-1", "units and shapes of apply_flat / marginalise / merge / revert / preconditioner_apply in all three factorisations (kernels inlined)", floor=55)
    r3 = chk.rule("R-C08-3", "Normal methods: whitened residual RMS, rescale_cholesky, logpdf summands, std, identity_conditional, to_derivative, from_mean_and_std", floor=15)
    r4 = chk.rule("R-C08-4", "value identities of the mean algebra (affine matrix-word normal form): apply/marginalise/revert means, revert round trip, merge = composition, preconditioner removal", floor=15)
    mean_algebra_rules(chk, S, r4)
    from_mean_and_std_rules(chk, S, r3)
    reversal_kernel_rules(chk, S)
    covariance_algebra_rules(chk, S)
    triangularisation_rules(chk, S)
    # ... and the triangularisation has the same *value* when the algebra is evaluated under jax.jvp / jax.grad: the custom rule of qr_r returns the R factor
    # as its primal output (rule of C16)
    # (rule function of C16 called directly: C16 takes its shape census from this check's scenarios, so a borrow would be circular)
    from . import c16

    rb16 = chk.rule("R-C08-B", "the conditional algebra has the same values under differentiation: the custom derivative rule of the triangularisation returns the function's own value as primal output (rule function of C16)", floor=1)
    for m_, fn_, rls_ in c16.custom_rules(S.p):
        for rule_ in rls_:
            try:
                okp, detp = c16.primal_consistency(S.p, m_, fn_, rule_)
            except AnalysisError as e:
                okp, detp = None, str(e)
            rb16.require(okp, f"{m_.name}.{fn_.name} primal output of the rule", detp, f"custom rule {rule_.name}: {detp}", f"{m_.relpath}:{rule_.lineno}")
    # 'dense conversion of a Gaussian': the composite axis of to_multivariate_normal is coefficient-major in all three models (rule function of C14, called
    # directly because C14 borrows from this check)
    from . import c14

    r7 = chk.rule("R-C08-7", "dense embeddings are coefficient-major (n major, d minor): to_multivariate_normal of the isotropic and block-diagonal models and the dense priors' composite axes (rule function of C14)", floor=6)
    c14.composite_rules(chk, S, r7)
    nin, nout, nmid = AD.dim("n_in"), AD.dim("n_out"), AD.dim("n_mid")
    for fam in FAMS:
        cfg = {"factorisation": fam.name}
        where = fam.module
        cname = fam.cond_cls.rsplit(".", 1)[1]
        for meth in ("apply_flat", "marginalise", "revert", "preconditioner_apply", "merge"):
            it = S.interp()
            env = AD.AEnv()
            it.ndim_oracle = env.rank_of
            AD.install_vmap(it, env)
            install_triu_contract(it)
            cond = mk_cond(it, env, fam, "c", nin, nout, Ein, Lin, Lout, Eout)
            construct = f"{cname}.{meth}"
            try:
                if meth == "apply_flat":
                    x = typed(env, "x", fam.mean(nin, Ein))
                    out = call(it, method(it, cond, meth), x)
                    check_normal(env, r1, construct, out, fam, nout, Eout, SIG, where, cfg)
                elif meth == "marginalise":
                    rv = mk_normal(it, env, fam, "rv", nin, Ein)
                    out = call(it, method(it, cond, meth), rv)
                    check_normal(env, r1, construct, out, fam, nout, Eout, SIG, where, cfg)
                elif meth == "revert":
                    rv = mk_normal(it, env, fam, "rv", nin, Ein)
                    out = call(it, method(it, cond, meth), rv, solve_triu=PrimV("linalg.solve_triu"))
                    if not (isinstance(out, (tuple, list)) and len(out) == 2):
                        r1.fail(construct, f"does not return (observed, backward): {T.show(out, 2)}", where, cfg)
                    else:
                        check_normal(env, r1, f"{construct} observed", out[0], fam, nout, Eout, SIG, where, cfg)
                        # backward conditional: from Eout back to Ein through the latent coordinates
                        check_cond(env, r1, f"{construct} backward", out[1], fam, nout, nin, Eout, Lout, Lin, Ein, SIG, where, cfg)
                elif meth == "preconditioner_apply":
                    out = call(it, method(it, cond, meth))
                    check_cond(env, r1, construct, out, fam, nin, nout, Ein, Ein, Eout, Eout, SIG, where, cfg)
                else:
                    inner = mk_cond(it, env, fam, "o", nin, nmid, Ein, Lin, Lout, Emid)
                    outer = mk_cond(it, env, fam, "c2", nmid, nout, Emid, Lin2, Lout2, Eout)
                    out = call(it, method(it, outer, "merge"), inner)
                    check_cond(env, r1, construct, out, fam, nin, nout, Ein, Lin, Lout2, Eout, SIG, where, cfg)
            except AnalysisError as e:
                r1.unknown(construct, f"could not be evaluated: {e}", where, cfg)
            nu = flush(env, r1, construct, where, cfg)
            S.absorb(it)
            if fam.name == "isotropic" and meth == "apply_flat" and isinstance(out, Rec):
                chk.sample({"method": construct, "mean": AD.show(env.of(out.fields["mean_flat"])), "cholesky": AD.show(env.of(out.fields["cholesky_flat"]))})
            if meth == "revert" and isinstance(out, (tuple, list)) and isinstance(out[1], Rec):
                chk.sample({"method": construct, "gain": AD.show(env.of(out[1].fields["A"])), "backward_noise_mean": AD.show(env.of(out[1].fields["noise"].fields["mean_flat"]))})
        normal_rules(chk, S, r3, fam)


def normal_rules(chk, S, r3, fam):
    cfg = {"factorisation": fam.name}
    where = fam.module
    n = AD.dim("n")
    nname = fam.normal_cls.rsplit(".", 1)[1]
    E = AD.mono(E=1)
    # residual_whitened_rms_flat : Normal(sigma^a) -> sigma^-a, unit-free in the coordinates
    it = S.interp()
    env = AD.AEnv()
    it.ndim_oracle = env.rank_of
    AD.install_vmap(it, env)
    rv = mk_normal(it, env, fam, "rv", n, E)
    u = typed(env, "u", fam.mean(n, E))
    out = call(it, method(it, rv, "residual_whitened_rms_flat"), u)
    t = env.of(out)
    want_axes = [AD.axis(fam.d)] if fam.name == "blockdiag" else []
    ok = t is not None and AD.same_type(t, AD.AT(want_axes, inv(SIG)))
    r3.require(True if ok else (None if t is None else False), f"{nname}.residual_whitened_rms_flat units", f"{AD.show(t)}", f"whitened RMS has type {AD.show(t)}; expected scalar unit sigma^-1 and no coordinate units", where, cfg)
    flush(env, r3, f"{nname}.residual_whitened_rms_flat", where, cfg)
    # normalisation: norm / sqrt(size of the mean the norm is taken over)
    norms = [x for x in T.subterms(out) if x.op == "linalg.vector_norm"]
    sq = [x for x in T.subterms(out) if x.op == "np.sqrt"]
    okn = len(norms) == 1 and len(sq) == 1
    if okn:
        size_arg = sq[0].args[0]
        got = env.dim_of(size_arg)
        want = n if fam.name != "isotropic" else nf.mul(n, fam.d)
        okn = got is not None and got == want and isinstance(out, T.Term)
    r3.require(okn, f"{nname}.residual_whitened_rms_flat normalisation", "norm / sqrt(size of the mean the norm is taken over)", f"rms = {T.show(out, 5)}", where, cfg)
    if len(norms) == 1 and len(sq) == 1:
        body = out
        if fam.name == "blockdiag":
            # per block: the smallest sub-expression of the vmapped kernel that contains both the norm and the normaliser
            cands = [t_ for t_ in T.subterms(out) if isinstance(t_, T.Term) and t_.op in ("div", "mul") and norms[0] in list(T.subterms(t_)) and sq[0] in list(T.subterms(t_))]
            body = min(cands, key=lambda t_: len(list(T.subterms(t_)))) if cands else None
        if body is not None:
            want_p = nf.mul(nf.norm(norms[0]), nf.power(nf.norm(sq[0]), -1))
            r3.require(nf.norm(body) == want_p, f"{nname}.residual_whitened_rms_flat value", "rms = |w| / sqrt(size)", f"rms has normal form {nf.show(nf.norm(body))}", where, cfg)
        okw, detw = whitened_residual_ok(norms[0].args[0], u, rv)
        r3.require(okw, f"{nname}.residual_whitened_rms_flat whitened residual", detw, detw, where, cfg)
    S.absorb(it)
    # rescale_cholesky multiplies the Cholesky factor (not the mean)
    it = S.interp()
    env = AD.AEnv()
    it.ndim_oracle = env.rank_of
    rv = mk_normal(it, env, fam, "rv", n, E)
    f = typed(env, "factor", [AD.axis(fam.d)] if fam.name == "blockdiag" else [], AD.mono(tau=1))
    out = call(it, method(it, rv, "rescale_cholesky"), f)
    ok = isinstance(out, Rec) and out.fields["mean_flat"] is rv.fields["mean_flat"]
    tc = env.of(out.fields["cholesky_flat"]) if isinstance(out, Rec) else None
    ok = ok and tc is not None and AD.same_type(tc, AD.AT(fam.chol(n, E), AD.m_mul(SIG, AD.mono(tau=1))))
    r3.require(ok, f"{nname}.rescale_cholesky", "mean unchanged, Cholesky factor times the factor (per dimension for block-diagonal)", f"cholesky : {AD.show(tc)}", where, cfg)
    flush(env, r3, f"{nname}.rescale_cholesky", where, cfg)
    # logpdf: -1/2 |w|^2 - size/2 log(2 pi) - sum log|diag L|, each once per kernel
    it = S.interp()
    env = AD.AEnv()
    it.ndim_oracle = env.rank_of
    rv = mk_normal(it, env, fam, "rv", n, E)
    u = typed(env, "u", fam.mean(n, E))
    kernel = "logpdf_flat" if fam.name == "dense" else "logpdf_scalar_flat"
    if fam.name != "dense":
        # the per-dimension kernel works on one column / block
        rv = it.instantiate(it.class_value(fam.normal_cls), [typed(env, "k.mean", [AD.axis(n, E)]), typed(env, "k.chol", [AD.axis(n, E), AD.axis(n)], SIG), A("tf")], {}, "<harness>")
        u = typed(env, "k.u", [AD.axis(n, E)])
    out = call(it, method(it, rv, kernel), u)
    p = nf.norm(out)
    dots = [x for x in T.subterms(out) if x.op == "linalg.vector_dot"]
    logs = [x for x in T.subterms(out) if x.op == "np.log" and any(y.op == "np.abs" for y in T.subterms(x))]
    pis = [x for x in T.subterms(out) if x.op == "np.log" and any(y.op == "np.pi" for y in T.subterms(x))]
    ok = len(dots) == 1 and len(logs) == 1 and len(pis) == 1
    if ok:
        # exact polynomial identity (exponents included): -1/2 <w,w> - sum log|diag| - size/2 * log(2 pi)
        size = T.mk("attr", (u, "size"))
        want_p = nf.add(nf.add(nf.mul(nf.const(nf.Fraction(-1, 2)), nf.norm(dots[0])), nf.mul(nf.const(-1), nf.norm(T.mk("np.sum", (logs[0],))))),
                        nf.mul(nf.const(nf.Fraction(-1, 2)), nf.mul(nf.norm(size), nf.norm(pis[0]))))
        ok = p == want_p
        # the constant is log(2 pi), the whitened vector enters the dot product twice, the log-determinant is over |diag| of the factor
        two_pi = nf.norm(pis[0].args[0])
        pi_terms = [x for x in T.subterms(pis[0]) if x.op == "np.pi"]
        ok = ok and len(pi_terms) == 1 and two_pi == nf.mul(nf.const(2), nf.norm(pi_terms[0]))
        ok = ok and dots[0].args[0] is dots[0].args[1]
    r3.require(ok, f"{nname}.{kernel} summands", "-1/2 |L^-1(u-m)|^2 - size/2 log(2 pi) - sum log|diag L|", f"logpdf = {nf.show(p)}", where, cfg)
    if dots:
        okw, detw = whitened_residual_ok(dots[0].args[0], u, rv)
        r3.require(okw, f"{nname}.{kernel} whitened residual", detw, detw, where, cfg)
    wt = env.of(dots[0].args[0]) if dots else None
    r3.require(True if (wt is not None and wt.scalar == inv(SIG) and all(ax.label == AD.ONE for ax in wt.axes)) else (None if wt is None else False), f"{nname}.{kernel} whitening units", f"whitened residual : {AD.show(wt)}", f"whitened residual has type {AD.show(wt)}", where, cfg)
    flush(env, r3, f"{nname}.{kernel}", where, cfg)
    if fam.name != "dense":
        it2 = S.interp()
        env2 = AD.AEnv()
        it2.ndim_oracle = env2.rank_of
        rvf = mk_normal(it2, env2, fam, "rv", n, E)
        uf = typed(env2, "u", fam.mean(n, E))
        o2 = call(it2, method(it2, rvf, "logpdf_flat"), uf)
        vm = [e for e in it2.events if e["kind"] == "vmap"]
        ok = isinstance(o2, T.Term) and o2.op == "np.sum" and len(vm) == 1
        r3.require(ok, f"{nname}.logpdf_flat", "sum over the state dimension of the per-dimension kernel (log-determinant enters d times)", f"{T.show(o2, 3)}", where, cfg)
    # std = row norms of the Cholesky factor; identity_conditional; to_derivative selects coefficient i with noise std
    it = S.interp()
    env = AD.AEnv()
    it.ndim_oracle = env.rank_of
    AD.install_vmap(it, env)
    rv = mk_normal(it, env, fam, "rv", n, E)
    ic = call(it, method(it, rv, "identity_conditional"))
    ok = isinstance(ic, Rec)
    if ok:
        tA = env.of(ic.fields["A"])
        nm = ic.fields["noise"]
        tm, tcn = env.of(nm.fields["mean_flat"]), env.of(nm.fields["cholesky_flat"])
        ok = tA is not None and tm is not None and tcn is not None and tm.zero and tcn.zero and tA.rank == (3 if fam.name == "blockdiag" else 2) and AD.same_size(tA.axes[-1].size, n) and AD.same_size(tA.axes[-2].size, n)
        eyes = [x for x in T.subterms(ic.fields["A"]) if x.op == "np.eye"]
        ok = ok and len(eyes) == 1
        # zero noise of the right shapes: the mean is shaped like this Normal's mean, the factor like its Cholesky factor
        tm_self, tc_self = env.of(rv.fields["mean_flat"]), env.of(rv.fields["cholesky_flat"])
        ok = ok and tm.rank == tm_self.rank and tcn.rank == tc_self.rank and all(AD.same_size(a_.size, b_.size) for a_, b_ in zip(tm.axes, tm_self.axes)) and all(AD.same_size(a_.size, b_.size) for a_, b_ in zip(tcn.axes, tc_self.axes))
    r3.require(ok, f"{nname}.identity_conditional", "A = identity (n x n), zero noise mean and covariance", f"{T.show(ic, 3)}", where, cfg)
    flush(env, r3, f"{nname}.identity_conditional", where, cfg)
    S.absorb(it)
    # std = row norms of the Cholesky factor (units E * sigma per coefficient), un-flattened with the own tree_flatten
    it = S.interp()
    env = AD.AEnv()
    it.ndim_oracle = env.rank_of
    AD.install_vmap(it, env)
    rv = mk_normal(it, env, fam, "rv", n, E)
    sd = it.getattr(rv, "std", None)
    ok = isinstance(sd, T.Term) and sd.op == "mcall" and sd.args[0] is rv.fields["tree_flatten"] and sd.args[1].startswith("unflatten_array") and len(sd.args) == 3
    ts = env.of(sd.args[2]) if ok else None
    want = AD.AT([AD.axis(fam.d), AD.axis(n, E)] if fam.name == "blockdiag" else [AD.axis(n, E)], SIG)
    r3.require(True if (ok and ts is not None and AD.same_type(ts, want)) else (None if (ok and ts is None) else False), f"{nname}.std", f"row norms of the Cholesky factor : {AD.show(ts)}", f"std is {T.show(sd, 4)} : {AD.show(ts)}; expected per-coefficient norms {AD.show(want)}", where, cfg)
    norms = [x for x in T.subterms(sd) if x.op in ("linalg.vector_norm", "linalg.qr_r")]
    r3.require(len(norms) == 1 and "rv.chol" in T.atoms_of(norms[0]) and "rv.mean" not in T.value_atoms(sd), f"{nname}.std source", "computed from the values of the Cholesky factor only (the mean may lend its shape)", f"{T.show(sd, 4)}", where, cfg)
    flush(env, r3, f"{nname}.std", where, cfg)
    # to_derivative(i, std): linear map selects coefficient i, noise mean 0, noise std = std
    it = S.interp()
    env = AD.AEnv()
    it.ndim_oracle = env.rank_of
    AD.install_vmap(it, env)
    rv = mk_normal(it, env, fam, "rv", n, E)
    idx, ostd = A("idx"), T.atom("obs_std", array=True)
    from .c11 import first_rec
    from ..interp import WrappedFn
    td = first_rec(call(it, method(it, rv, "to_derivative"), idx, ostd))
    ok = td is not None
    detail = "not a conditional"
    if ok:
        w = None
        for t_ in T.subterms(td.fields["A"]):
            if t_.op in ("jac_apply", "vmap_apply"):
                cand = t_.args[0]
                while isinstance(cand, WrappedFn) and isinstance(cand.fn, WrappedFn):
                    cand = cand.fn
                if isinstance(cand, WrappedFn):
                    w = cand.fn
        probe = A("probe")
        sel = it.call(w, [probe], {}, "<harness>") if w is not None else None
        if sel is not None:
            gets = [g for g in T.subterms(sel) if g.op == "getitem" and g.args[1] is idx]
            ok = len(gets) == 1 and "probe" in T.atoms_of(gets[0])
            detail = f"selector({T.show(probe)}) = {T.show(sel, 4)}"
            # ... and it is a pure selection: the stored state holds the derivatives themselves, so the datum is compared with entry i as it is --
            # nothing but indexing / (un)flattening / array construction lies between the state and the selected entry
            arith = sorted({t_.op for t_ in T.subterms(sel) if t_.op in ("mul", "div", "add", "sub", "neg", "pow", "matmul", "np.factorial", "np.sqrt", "np.abs", "np.exp", "np.sum", "np.dot", "np.power")})
            if ok and arith:
                ok = False
                detail += f": the selected entry is transformed ({', '.join(arith)}) -- the observed quantity is no longer the stored derivative i"
        else:
            # second recognised idiom: rows lo:hi of an identity matrix; must be the i-th block of a common width
            Aop = td.fields["A"]
            while isinstance(Aop, T.Term) and Aop.op in ("np.asarray",):
                Aop = Aop.args[0]
            ok = None
            detail = f"linear map {T.show(Aop, 4)}: selector idiom not recognised"
            if isinstance(Aop, T.Term) and Aop.op == "getitem" and isinstance(Aop.args[0], T.Term) and Aop.args[0].op == "np.eye":
                sl = Aop.args[1][0] if isinstance(Aop.args[1], tuple) else Aop.args[1]
                if isinstance(sl, slice) and sl.start is not None and sl.stop is not None and sl.step is None:
                    wdt = nf.add(nf.norm(sl.stop), nf.norm(sl.start), -1)
                    ok = nf.norm(sl.start) == nf.mul(nf.norm(idx), wdt) and bool(wdt)
                    detail = f"rows {T.show(sl.start, 3)}:{T.show(sl.stop, 3)} of the identity; block i of width {nf.show(wdt)} starts at i*width"
        nm = td.fields["noise"]
        okn = isinstance(nm, Rec) and "obs_std" in T.value_atoms(nm.fields["cholesky_flat"]) and not T.value_atoms(nm.fields["mean_flat"])
        r3.require(okn, f"{nname}.to_derivative noise", "zero mean, standard deviation = std", f"noise = {T.show(nm, 4)}", where, cfg)
    r3.require(ok, f"{nname}.to_derivative selector", "the linear map selects Taylor coefficient i", detail, where, cfg)
    S.absorb(it)


from fractions import Fraction  # noqa: E402

nf.Fraction = Fraction



def _tri(t, chol_atom):
    """'lower' / 'upper' / None: triangular structure of a factor derived from the Normal's (lower) Cholesky factor."""
    if not isinstance(t, T.Term):
        return None
    if t is chol_atom:
        return "lower"
    if t.op == "vmap_elem":
        return _tri(t.args[1], chol_atom)
    if t.op == "attr" and t.args[1] == "T":
        s_ = _tri(t.args[0], chol_atom)
        return {"lower": "upper", "upper": "lower"}.get(s_)
    if t.op == "linalg.qr_r":
        return "upper"
    if t.op in ("np.abs", "np.asarray"):
        return _tri(t.args[0], chol_atom)
    return None


def whitened_residual_ok(w, u, rv):
    """w = (triangular solve with a factor computed from the Normal's own Cholesky factor only)(+-(u - mean)); returns (ok, detail)."""
    w0 = w
    while isinstance(w, T.Term) and w.op in ("np.reshape", "tree.ravel", "np.asarray") and w.args:
        w = w.args[0]
    if not (isinstance(w, T.Term) and w.op in ("linalg.solve_tril", "linalg.solve_triu") and len(w.args) >= 2):
        return None, f"whitened residual is not a triangular solve: {T.show(w0, 3)}"
    fac, rhs = w.args[0], w.args[1]
    # per-block view of a vmapped kernel: the element of a batched operand stands for the operand
    from ..harness import subst

    rhs = subst(rhs, {t.uid: t.args[1] for t in T.subterms(rhs) if isinstance(t, T.Term) and t.op == "vmap_elem"})
    m, c = rv.fields["mean_flat"], rv.fields["cholesky_flat"]
    va = T.value_atoms(fac)
    if not (va and va <= {T.atom_name(c)}):
        return False, f"the whitening factor depends on {sorted(va)}; expected the Normal's own Cholesky factor only"
    d1, d2 = T.mk("sub", (u, m)), T.mk("sub", (m, u))
    # the system solved must be  L w = r  with the *lower* factor: solver kind, transposition flag and the factor's triangle agree
    st = _tri(fac, c)
    trans = w.kwargs.get("trans", w.args[2] if len(w.args) > 2 else 0)
    transposed = trans in (1, "T", "t")
    if st is None:
        return None, f"triangular structure of the whitening factor {T.show(fac, 3)} not derived"
    if (w.op == "linalg.solve_tril") != (st == "lower"):
        return False, f"{w.op.rsplit('.', 1)[1]} applied to a factor that is {st}-triangular: only its diagonal would be used"
    effective = ("upper" if st == "lower" else "lower") if transposed else st
    if effective != "lower":
        return False, f"the solve uses the {effective}-triangular system (factor {st}, trans={trans!r}); whitening needs L w = u - mean with the lower Cholesky factor"
    if nf.equal(rhs, d1) or nf.equal(rhs, d2):
        return True, "L^-1 (u - mean)"
    return False, f"the whitened quantity is {T.show(rhs, 3)}; expected +-(u - mean)"



def is_identity_matrix(t):
    """np.eye(...) or diagonal_matrix(ones) (possibly with inserted leading axes)."""
    while isinstance(t, T.Term) and t.op == "getitem":
        idx = t.args[1] if isinstance(t.args[1], tuple) else (t.args[1],)
        if not all(i is None or i is Ellipsis or i == slice(None, None, None) for i in idx):
            return False
        t = t.args[0]
    if not isinstance(t, T.Term):
        return False
    if t.op == "np.eye":
        return True
    return t.op == "linalg.diagonal_matrix" and isinstance(t.args[0], T.Term) and t.args[0].op in ("np.ones", "np.ones_like") and not t.kwargs


def diagonal_of(chol):
    """The vector v such that chol = diag(v) (per block), or None: diagonal_matrix(v) or v[..., None] * identity."""
    if isinstance(chol, T.Term) and chol.op == "linalg.diagonal_matrix" and not chol.kwargs:
        return chol.args[0]
    if isinstance(chol, T.Term) and chol.op == "mul":
        for v, e in ((chol.args[0], chol.args[1]), (chol.args[1], chol.args[0])):
            if is_identity_matrix(e) and isinstance(v, T.Term) and v.op == "getitem":
                idx = v.args[1] if isinstance(v.args[1], tuple) else (v.args[1],)
                if idx and idx[-1] is None and all(i is None or i is Ellipsis or i == slice(None, None, None) for i in idx):
                    return v.args[0]
    return None


def from_mean_and_std_rules(chk, S, r3):
    """from_mean_and_std: the Cholesky factor is the diagonal matrix of the standard deviations flattened in the class's own layout."""
    for fam in FAMS:
        it = S.interp()
        cv = it.class_value(fam.normal_cls)
        nname = fam.normal_cls.rsplit(".", 1)[1]
        mean = [T.atom("fm.m0", array=True), T.atom("fm.m1", array=True)]
        std = [T.atom("fm.s0", array=True), T.atom("fm.s1", array=True)]
        cfg = {"factorisation": fam.name}
        try:
            rv = it.call(it.getattr(cv, "from_mean_and_std", None), [mean, std], {}, "<harness>")
        except AnalysisError as e:
            r3.unknown(f"{nname}.from_mean_and_std value", str(e), fam.module, cfg)
            continue
        S.absorb(it)
        chol = rv.fields["cholesky_flat"] if isinstance(rv, Rec) else None
        v = diagonal_of(chol)
        tf = rv.fields.get("tree_flatten") if isinstance(rv, Rec) else None
        ok = v is not None and isinstance(tf, Rec)
        detail = f"cholesky = {T.show(chol, 5)}"
        if ok:
            flat = "flatten_tree_scalar" if fam.name == "isotropic" else "flatten_tree"
            want = call(it, method(it, tf, flat), std)
            ok = v is want
            detail = f"diag({T.show(v, 4)}); expected diag({T.show(want, 4)})"
        r3.require(bool(ok), f"{nname}.from_mean_and_std value", "Cholesky factor = diagonal matrix of the standard deviations in the own layout", detail, fam.module, cfg)
    # dense to_multivariate_normal is (mean, L L^T)
    it = S.interp()
    mf = T.atom("mvn.mean", ndims={"": 1})
    mf.meta["ndim"] = 1
    cf = T.atom("mvn.chol", ndims={"": 2})
    cf.meta["ndim"] = 2
    rv = it.instantiate(it.class_value(DENSE + ".DenseNormal"), [mf, cf, A("tf")], {}, "<harness>")
    out = call(it, method(it, rv, "to_multivariate_normal"))
    S.absorb(it)
    ok = isinstance(out, (tuple, list)) and len(out) == 2 and out[0] is mf and out[1] is T.mk("matmul", (cf, T.mk("attr", (cf, "T"))))
    r3.require(ok, "DenseNormal.to_multivariate_normal value", "(mean, L @ L.T)", f"{T.show(out, 4)}", DENSE)


# ---------------------------------------------------------------------------
# R-C08-4: value identities of the mean algebra (domain M)
def _m_setup(S, fam):
    from .. import mdomain as MD

    it = S.interp()
    env = AD.AEnv()
    it.ndim_oracle = env.rank_of

    def vmap_direct(itp, w, args, kwargs, site):
        # per-block evaluation: the batched computation is a direct sum of identical per-block formulas
        return itp.call(w.fn, list(args), kwargs, site)

    it.hooks["vmap.apply"] = vmap_direct

    def revert_hook(itp, fn, a, kw, site):
        t = T.mk("revert_conditional", tuple(kw.get(k) for k in ("R_X_F", "R_X", "R_YX")) if kw.get("R_X_F") is not None else tuple(a))
        return T.mk("getitem", (t, 0)), (T.mk("getitem", (t, 1)), T.mk("getitem", (t, 2)))

    def sum_hook(itp, fn, a, kw, site):
        return T.mk("sum_of_sqrtm_factors", tuple(a), kw)

    it.method_hooks["probdiffeq.util.cholesky_util.revert_conditional"] = revert_hook
    it.method_hooks["probdiffeq.util.cholesky_util.sum_of_sqrtm_factors"] = sum_hook
    return it, env, MD


def mean_algebra_rules(chk, S, r4):
    n1, n2, n3 = AD.dim("n1"), AD.dim("n2"), AD.dim("n3")
    for fam in FAMS:
        it, env, MD = _m_setup(S, fam)
        where = fam.module
        cfg = {"factorisation": fam.name}
        # c : x (n1) -> y (n2);  c2 : y (n2) -> z (n3)
        c = mk_cond(it, env, fam, "c", n1, n2, Ein, Lin, Lout, Eout)
        c2 = mk_cond(it, env, fam, "c2", n2, n3, Eout, Lout, Lin, Ein)
        rv = mk_normal(it, env, fam, "rv", n1, Ein)
        x = typed(env, "x", fam.mean(n1, Ein))
        scal = [c.fields["to_latent"], c.fields["to_observed"], c2.fields["to_latent"], c2.fields["to_observed"]]
        mats = [c.fields["A"], c2.fields["A"]]
        alg = MD.Algebra(scal, mats)
        A_, b_, tl, to = c.fields["A"], c.fields["noise"].fields["mean_flat"], c.fields["to_latent"], c.fields["to_observed"]

        def aff(cond, v):
            return T.mk("mul", (cond.fields["to_observed"], T.mk("add", (T.mk("matmul", (cond.fields["A"], T.mk("mul", (cond.fields["to_latent"], v)))), cond.fields["noise"].fields["mean_flat"]))))

        def req(name, lhs, rhs, text):
            ok, det = MD.equal(alg, lhs, rhs)
            r4.require(ok, f"{fam.cond_cls.rsplit('.', 1)[1]} {name}", f"{text}: {det}", f"{text} does not hold: {det}", where_of_term(lhs, where), cfg)

        try:
            ax = call(it, method(it, c, "apply_flat"), x)
            req("apply_flat mean", ax.fields["mean_flat"], aff(c, x), "mean = P_out (A (P_in x) + b)")
            mg = call(it, method(it, c, "marginalise"), rv)
            req("marginalise mean", mg.fields["mean_flat"], aff(c, rv.fields["mean_flat"]), "mean = P_out (A (P_in m) + b)")
            obs, bw = call(it, method(it, c, "revert"), rv, solve_triu=PrimV("linalg.solve_triu"))
            req("revert observed mean", obs.fields["mean_flat"], aff(c, rv.fields["mean_flat"]), "observed mean = marginal mean")
            # the backward conditional evaluated at the observed mean returns the prior mean:  G y^ + (m - G y^) = m
            alg_b = MD.Algebra(scal, [*mats, bw.fields["A"]])
            back = call(it, method(it, bw, "apply_flat"), obs.fields["mean_flat"])
            ok, det = MD.equal(alg_b, back.fields["mean_flat"], rv.fields["mean_flat"])
            r4.require(ok, f"{fam.cond_cls.rsplit('.', 1)[1]} revert round trip", f"backward conditional at the observed mean gives the prior mean: {det}",
                       f"backward conditional at the observed mean does not return the prior mean: {det}", where, cfg)
            # composition: (c2 o c)(x) = c2(c(x))
            mrg = call(it, method(it, c2, "merge"), c)
            alg_m = MD.Algebra(scal, [*mats, mrg.fields["A"]])
            lhs = call(it, method(it, mrg, "apply_flat"), x).fields["mean_flat"]
            rhs = call(it, method(it, c2, "apply_flat"), ax.fields["mean_flat"]).fields["mean_flat"]
            # the merged linear map itself must be expressible (a product of the two maps), otherwise the identity is vacuous
            ok, det = MD.equal(MD.Algebra(scal, mats), lhs, rhs)
            r4.require(ok, f"{fam.cond_cls.rsplit('.', 1)[1]} merge composes", f"merge(c2, c).apply(x) = c2.apply(c.apply(x)): {det}", f"merge(c2, c).apply(x) differs from c2.apply(c.apply(x)): {det}", where, cfg)
            # removing the preconditioner does not change the map
            pc = call(it, method(it, c, "preconditioner_apply"))
            lhs = call(it, method(it, pc, "apply_flat"), x).fields["mean_flat"]
            ok, det = MD.equal(MD.Algebra(scal, mats), lhs, ax.fields["mean_flat"])
            r4.require(ok, f"{fam.cond_cls.rsplit('.', 1)[1]} preconditioner_apply preserves the map", f"c.preconditioner_apply().apply(x) = c.apply(x): {det}",
                       f"c.preconditioner_apply().apply(x) differs from c.apply(x): {det}", where, cfg)
        except AnalysisError as e:
            r4.unknown(f"{fam.cond_cls.rsplit('.', 1)[1]} mean algebra", str(e), where, cfg)
        S.absorb(it)


# ---------------------------------------------------------------------------
# R-C08-8: the two triangularisation helpers keep the Gram matrix.  Everything above treats TRIU(M) / sum_of_sqrtm_factors(stack) as "some right factor
# with the Gram matrix of M / of the vertical stack"; this rule decides that for the helpers' own bodies.  qr_r(M) = Q^T M for an orthogonal Q (trusted:
# the QR primitive), so S qr_r(M) keeps the Gram matrix iff S^T S = I: for a row scaling by a vector s that is s_i^2 = 1 for every i and every input,
# including s computed from a zero pivot.
def _unit_modulus(t, depth=0):
    """'yes' | 'no: <reason>' | None (not decided) -- is every entry of t in {-1, +1} for every input?"""
    if isinstance(t, bool):
        return None
    if isinstance(t, (int, float)):
        return "yes" if t in (1, -1) else f"no: the constant {t}"
    if not isinstance(t, T.Term) or depth > 8:
        return None
    if t.op == "neg" or (t.op in ("np.asarray", "np.ones_like") and t.args):
        return "yes" if t.op == "np.ones_like" else _unit_modulus(t.args[0], depth + 1)
    if t.op == "np.ones":
        return "yes"
    if t.op == "np.sign":
        return f"no: sign(0) = 0, so a zero entry of {T.show(t.args[0], 3)} (a singular factor) zeroes the whole row"
    if t.op == "np.where" and len(t.args) == 3:
        a, b = _unit_modulus(t.args[1], depth + 1), _unit_modulus(t.args[2], depth + 1)
        # where(x == 0, 1, sign(x)) / where(x != 0, sign(x), 1): the sign is taken off the zero set only
        c = t.args[0]
        for val, other, ops in ((t.args[2], a, ("eq",)), (t.args[1], b, ("ne",))):
            if isinstance(val, T.Term) and val.op == "np.sign" and isinstance(c, T.Term) and c.op in ops and other == "yes":
                x, z = c.args
                if z in (0, 0.0) and x is val.args[0] or x in (0, 0.0) and z is val.args[0]:
                    return "yes"
        if a == "yes" and b == "yes":
            return "yes"
        for r in (a, b):
            if isinstance(r, str) and r.startswith("no"):
                return r
        return None
    if t.op == "mul":
        rs = [_unit_modulus(x, depth + 1) for x in t.args]
        if all(r == "yes" for r in rs):
            return "yes"
        return next((r for r in rs if isinstance(r, str) and r.startswith("no")), None)
    return None


def install_triu_contract(it):
    """triu_via_qr by its contract (decided by R-C08-8 for the helper's own body): some right factor with the Gram matrix of the argument, typed like qr_r."""

    def contract(itp, fn, a, kw, site):
        return T.mk("linalg.qr_r", (a[0],), origin=site)

    it.method_hooks["probdiffeq.util.cholesky_util.triu_via_qr"] = contract


def triangularisation_rules(chk, S):
    r8 = chk.rule("R-C08-8", "the triangularisation helpers keep the Gram matrix for every input, singular ones included: triu_via_qr(M) is qr_r(M), possibly with rows scaled by "
                  "entries of modulus one; sum_of_sqrtm_factors(stack) triangularises the vertical stack (whose Gram matrix is the sum of the Gram matrices)", floor=2)
    where = "probdiffeq/util/cholesky_util.py"
    # (a) triu_via_qr
    it = S.interp()
    M = T.atom("M", ndims={"": 2})
    M.meta["ndim"] = 2
    try:
        out = it.call(it.function_value("probdiffeq.util.cholesky_util.triu_via_qr"), [M], {}, "<harness>")
    except (AnalysisError, RaiseSignal) as e:
        r8.unknown("triu_via_qr", f"not analysed: {e}", where)
        out = None
    S.absorb(it)
    if out is not None:
        qr = T.mk("linalg.qr_r", (M,))
        if out is qr:
            r8.ok("triu_via_qr value", "qr_r(M): R^T R = M^T Q Q^T M = M^T M", where_of_term(out, where))
        elif isinstance(out, T.Term) and out.op == "mul" and any(x is qr for x in out.args):
            (sc,) = [x for x in out.args if x is not qr] or [None]
            verdict, det = None, f"triu_via_qr(M) = {T.show(out, 5)}"
            if isinstance(sc, T.Term) and sc.op == "getitem" and isinstance(sc.args[1], tuple) and len(sc.args[1]) == 2 and sc.args[1][1] is None and sc.args[1][0] == slice(None, None, None):
                u = _unit_modulus(sc.args[0])
                if u == "yes":
                    verdict = True
                elif isinstance(u, str):
                    verdict, det = False, det + f": rows are scaled by entries that are not of modulus one -- {u[4:]}; the Gram matrix loses that row's outer product"
            elif isinstance(sc, T.Term) and sc.op == "getitem" and isinstance(sc.args[1], tuple) and len(sc.args[1]) == 2 and sc.args[1][0] is None:
                verdict, det = False, det + ": a column scaling S gives (R S)^T (R S) = S R^T R S, not R^T R"
            elif isinstance(sc, (int, float)) and not isinstance(sc, bool):
                verdict = sc in (1, -1)
                det += f": scaled by the constant {sc}"
            if verdict is None:
                r8.unknown("triu_via_qr value", det + ": scaling not recognised as a modulus-one row scaling", where_of_term(out, where))
            else:
                r8.require(verdict, "triu_via_qr value", "S qr_r(M) with a row scaling of modulus-one entries: S^T S = I", det, where_of_term(out, where))
        else:
            r8.unknown("triu_via_qr value", f"triu_via_qr(M) = {T.show(out, 5)}: not qr_r(M) or a row scaling of it", where_of_term(out, where))
    # (b) sum_of_sqrtm_factors: matrices and scalars
    for label, nd in (("matrix factors", 2),):
        it = S.interp()

        def qr_hook(itp, fn, a, kw, site):
            return T.mk("TRIU", (a[0],), origin=site)

        it.method_hooks["probdiffeq.util.cholesky_util.triu_via_qr"] = qr_hook
        R1, R2 = (T.atom(n, ndims={"": nd}) for n in ("R1", "R2"))
        for a_ in (R1, R2):
            a_.meta["ndim"] = nd
        try:
            out = it.call(it.function_value("probdiffeq.util.cholesky_util.sum_of_sqrtm_factors"), [(R1, R2)], {}, "<harness>")
        except (AnalysisError, RaiseSignal) as e:
            r8.unknown(f"sum_of_sqrtm_factors ({label})", f"not analysed: {e}", where)
            S.absorb(it)
            continue
        S.absorb(it)
        ok, det = False, f"sum_of_sqrtm_factors((R1, R2)) = {T.show(out, 5)}"
        if isinstance(out, T.Term) and out.op == "TRIU":
            st = out.args[0]
            if isinstance(st, T.Term) and st.op in ("np.concatenate", "np.vstack"):
                parts = st.args[0] if st.args else ()
                ax = st.kwargs.get("axis", st.args[1] if len(st.args) > 1 else 0)
                ok = isinstance(parts, (tuple, list)) and len(parts) == 2 and parts[0] is R1 and parts[1] is R2 and (st.op == "np.vstack" or ax in (0, -2))
        r8.require(ok, f"sum_of_sqrtm_factors ({label})", "triu_via_qr of the vertical stack [R1; R2]: Gram = R1^T R1 + R2^T R2", det + ": not the triangularisation of the vertical stack of exactly the given factors", where_of_term(out, where))


def where_of_term(t, default):
    return getattr(t, "origin", None) or default


# ---------------------------------------------------------------------------
# R-C08-5: the reversal kernel reproduces the joint law for the solver it is called with.
# With the joint right factor R = [[R_Y, R12], [0, R_XY]] (y first), any gain G leaves  x - G y  with the right factor
# [R12 - R_Y G^T ; R_XY]  (stacked), and  x - G y  is uncorrelated with y iff  R_Y^T (R12 - R_Y G^T) = 0  (the normal equations).
# For an exact solve with a regular R_Y the residual vanishes and R_XY alone is the backward noise factor.  A least-squares solve with a
# rank-deficient R_Y leaves a residual whose Gram matrix belongs to the backward noise: a kernel that returns R_XY alone loses it.
KERNEL = "probdiffeq.util.cholesky_util.revert_conditional"


def _strip_TT(t):
    while isinstance(t, T.Term) and t.op == "attr" and t.args[1] == "T" and isinstance(t.args[0], T.Term) and t.args[0].op == "attr" and t.args[0].args[1] == "T":
        t = t.args[0].args[0]
    return t


def _block_rows(t):
    """[[a, b], [c, d]] for a block matrix written as np.block([[a, b], [c, d]]) or as concatenate of row-wise concatenates; None otherwise."""
    if not isinstance(t, T.Term):
        return None
    if t.op == "np.block" and t.args and isinstance(t.args[0], (list, tuple)) and all(isinstance(r, (list, tuple)) for r in t.args[0]):
        return [list(r) for r in t.args[0]]

    def cat(x, axis_want):
        if isinstance(x, T.Term) and x.op in ("np.concatenate",) and x.args and isinstance(x.args[0], (list, tuple)):
            ax = x.kwargs.get("axis", x.args[1] if len(x.args) > 1 else 0)
            if ax in axis_want:
                return list(x.args[0])
        if isinstance(x, T.Term) and x.op == "np.hstack" and 1 in axis_want and x.args and isinstance(x.args[0], (list, tuple)):
            return list(x.args[0])
        if isinstance(x, T.Term) and x.op == "np.vstack" and 0 in axis_want and x.args and isinstance(x.args[0], (list, tuple)):
            return list(x.args[0])
        return None

    rows = cat(t, (0, -2))
    if rows is None:
        return None
    out = []
    for r in rows:
        cols = cat(r, (1, -1))
        if cols is None:
            return None
        out.append(cols)
    return out


def _same_block_matrix(a, b):
    if a is b:
        return True
    ra, rb = _block_rows(a), _block_rows(b)
    return ra is not None and rb is not None and T._freeze(ra) == T._freeze(rb)


def reversal_kernel_rules(chk, S):
    import ast as _ast

    r5 = chk.rule("R-C08-5", "reversal reproduces the joint law of (x, y) for the solver it is called with: observed factor and gain come from the triangularised joint factor; "
                  "the backward noise factor is R_XY (exact solves) or carries the residual R12 - R_Y G^T (least-squares solves of a rank-deficient observed factor)", floor=6)
    it = S.interp()

    def qr_hook(itp, fn, a, kw, site):
        return T.mk("TRIU", (a[0],), origin=site)

    def sum_hook(itp, fn, a, kw, site):
        return T.mk("TRIU", (T.mk("np.concatenate", (list(a[0]) if isinstance(a[0], (tuple, list)) else a[0],)),), origin=site)

    it.method_hooks["probdiffeq.util.cholesky_util.triu_via_qr"] = qr_hook
    it.method_hooks["probdiffeq.util.cholesky_util.sum_of_sqrtm_factors"] = sum_hook
    RXF, RX, RYX = (T.atom(n, ndims={"": 2}) for n in ("R_X_F", "R_X", "R_YX"))
    for a_ in (RXF, RX, RYX):
        a_.meta["ndim"] = 2
    solve = A("solve")
    where = "probdiffeq/util/cholesky_util.py"
    try:
        out = it.call(it.function_value(KERNEL), [RXF, RX, RYX], {"solve_triu": solve}, "<harness>")
    except (AnalysisError, RaiseSignal) as e:
        r5.unknown("revert_conditional", f"not analysed: {e}", where)
        return
    S.absorb(it)
    if not (isinstance(out, (tuple, list)) and len(out) == 2 and isinstance(out[1], (tuple, list)) and len(out[1]) == 2):
        r5.unknown("revert_conditional", f"returns {T.show(out, 3)}", where)
        return
    ry, (rxy, g) = out
    d = T.mk("getitem", (T.mk("attr", (RYX, "shape")), 1))
    joint = T.mk("TRIU", (T.mk("np.block", ([[RYX, T.mk("np.zeros", ((T.mk("getitem", (T.mk("attr", (RYX, "shape")), 0)), T.mk("getitem", (T.mk("attr", (RX, "shape")), 1))),))], [RXF, RX]],)),))

    def block(t):
        """'RY' | 'R12' | 'RXY' for slices of the triangularised joint factor [[R_YX, 0], [R_X_F, R_X]] at d = R_YX.shape[1]."""
        if not (isinstance(t, T.Term) and t.op == "getitem" and isinstance(t.args[0], T.Term) and t.args[0].op == "TRIU" and isinstance(t.args[1], tuple) and len(t.args[1]) == 2):
            return None
        if t.args[0] is not joint and not (t.args[0].op == "TRIU" and _same_block_matrix(t.args[0].args[0], joint.args[0])):
            return None  # (np.block and row-wise / column-wise concatenation are the same block matrix)

        def part(sl):
            if isinstance(sl, slice):
                lo, hi, st = sl.start, sl.stop, sl.step
            elif isinstance(sl, T.Term) and sl.op == "slice":
                lo, hi, st = (list(sl.args) + [None, None, None])[:3]
            else:
                return None
            if st is not None:
                return None
            if lo is None and hi is d:
                return "y"
            if lo is d and hi is None:
                return "x"
            return None

        return {("y", "y"): "RY", ("y", "x"): "R12", ("x", "x"): "RXY"}.get((part(t.args[1][0]), part(t.args[1][1])))

    r5.require(block(ry) == "RY", "revert_conditional observed factor", "the leading block of the triangularised joint factor [[R_YX, 0], [R_X_F, R_X]]", f"observed factor = {T.show(ry, 5)}", where_of_term(ry, where))
    g0 = _strip_TT(g)
    okg = isinstance(g0, T.Term) and g0.op == "attr" and g0.args[1] == "T" and isinstance(g0.args[0], T.Term) and g0.args[0].op == "call" and g0.args[0].args[0] is solve \
        and len(g0.args[0].args) == 3 and block(g0.args[0].args[1]) == "RY" and block(g0.args[0].args[2]) == "R12"
    r5.require(okg, "revert_conditional gain", "G^T = solve(R_Y, R12)", f"gain = {T.show(g, 5)}", where_of_term(g, where))
    # backward noise
    form = None
    if block(rxy) == "RXY":
        form = "plain"
    elif isinstance(rxy, T.Term) and rxy.op == "TRIU" and isinstance(rxy.args[0], T.Term) and rxy.args[0].op == "np.concatenate":
        parts = rxy.args[0].args[0]
        if isinstance(parts, (list, tuple)) and len(parts) == 2:
            res = [p_ for p_ in parts if block(p_) != "RXY"]
            if len(res) == 1 and any(block(p_) == "RXY" for p_ in parts):
                e = res[0]
                if isinstance(e, T.Term) and e.op == "neg":
                    e = e.args[0]
                if isinstance(e, T.Term) and e.op == "sub":
                    a_, b_ = e.args
                    if block(a_) != "R12":
                        a_, b_ = b_, a_  # the sign of the residual does not matter for its Gram matrix
                    if block(a_) == "R12" and isinstance(b_, T.Term) and b_.op == "matmul" and block(b_.args[0]) == "RY" and _strip_TT(T.mk("attr", (b_.args[1], "T"))) is _strip_TT(T.mk("attr", (T.mk("attr", (g, "T")), "T"))):
                        form = "joseph"
                    elif block(a_) == "R12" and isinstance(b_, T.Term) and b_.op == "matmul" and block(b_.args[0]) == "RY" and okg and _strip_TT(b_.args[1]) is g0.args[0]:
                        form = "joseph"
    r5.require(form is not None, "revert_conditional backward noise factor (exact solve, regular observed factor)", f"R_XY{' stacked with the residual R12 - R_Y G^T' if form == 'joseph' else ''}: Gram = Cov(x - G y)",
               f"backward noise factor = {T.show(rxy, 6)}: neither the trailing block of the joint factor nor that block stacked with the residual R12 - R_Y G^T", where_of_term(rxy, where))
    # every factorisation hands the caller's solve to the kernel (not a fixed one)
    nin_, nout_ = AD.dim("n_in"), AD.dim("n_out")
    for fam in FAMS:
        it2 = S.interp()
        env2 = AD.AEnv()
        it2.ndim_oracle = env2.rank_of
        AD.install_vmap(it2, env2)
        seen = []

        def khook(itp, fn, a, kw, site, _seen=seen):
            _seen.append(kw.get("solve_triu", a[3] if len(a) > 3 else None))
            t = T.mk("revert_conditional", tuple(kw.get(k_) for k_ in ("R_X_F", "R_X", "R_YX")) if kw.get("R_X_F") is not None else tuple(a[:3]))
            return T.mk("getitem", (t, 0)), (T.mk("getitem", (t, 1)), T.mk("getitem", (t, 2)))

        it2.method_hooks[KERNEL] = khook
        mine = A("callers_solve")
        cname = fam.cond_cls.rsplit(".", 1)[1]
        try:
            cond = mk_cond(it2, env2, fam, "c", nin_, nout_, Ein, Lin, Lout, Eout)
            call(it2, method(it2, cond, "revert"), mk_normal(it2, env2, fam, "rv", nin_, Ein), solve_triu=mine)
        except (AnalysisError, RaiseSignal) as e:
            if not seen:
                r5.unknown(f"{cname}.revert hands its solve to the kernel", f"not analysed: {e}", fam.module)
                continue
        S.absorb(it2)
        r5.require(bool(seen) and all(x is mine for x in seen), f"{cname}.revert hands its solve to the kernel", "revert_conditional(..., solve_triu=<the caller's solve>)",
                   f"the kernel is called with solve_triu = {[T.show(x, 2) if isinstance(x, T.Term) else repr(x) for x in seen]}, not with the solve passed to revert: "
                   "a caller that asks for a least-squares solve (singular initial update) gets an exact triangular solve and NaN", fam.module, {"factorisation": fam.name})
    # call sites that hand a least-squares solve to the kernel
    sites = []
    for m in S.p.modules.values():
        for node in _ast.walk(m.tree):
            if isinstance(node, _ast.keyword) and node.arg == "solve_triu" and "lstsq" in _ast.unparse(node.value):
                sites.append((m, node.value.lineno, _ast.unparse(node.value), "call"))
            if isinstance(node, (_ast.FunctionDef, _ast.Lambda)):
                a_ = node.args
                params = a_.args + a_.kwonlyargs
                defaults = [None] * (len(a_.args) - len(a_.defaults)) + list(a_.defaults) + list(a_.kw_defaults)
                for p_, d_ in zip(params, defaults):
                    if p_.arg == "solve_triu" and d_ is not None and "lstsq" in _ast.unparse(d_):
                        sites.append((m, d_.lineno, _ast.unparse(d_), "default of " + getattr(node, "name", "<lambda>")))
    if not sites:
        r5.unknown("least-squares call sites of the reversal kernel", "none found (the library solved its possibly singular updates with linalg.lstsq_svd: anchor changed)", where)
    for m, line, src, kind in sorted(sites, key=lambda s_: (s_[0].relpath, s_[1])):
        fn = _enclosing_function(m, line)
        r5.require(form == "joseph", f"reversal with solve_triu={src} in {m.name}.{fn}", "the kernel's backward noise carries the residual of the solve",
                   f"{kind} solve_triu={src}: for a rank-deficient observed factor the least-squares gain leaves a residual R12 - R_Y G^T != 0 whose Gram matrix the kernel drops -- "
                   "G S G^T + Q < Cov(x): the reversal does not reproduce the joint law (the backward noise is too small)", f"{m.relpath}:{line}")
    # every other call site that fixes the solve: the kernel solves with its *upper-triangular* observed factor R_Y (decided above), so a fixed solve has to be
    # exact for upper-triangular systems -- linalg.solve_triu, or a general exact solve; solve_tril reads the lower triangle (the diagonal) only
    fixed = []
    for m in S.p.modules.values():
        if not m.name.startswith("probdiffeq.") or m.name.startswith("probdiffeq.backend"):
            continue
        for node in _ast.walk(m.tree):
            if isinstance(node, _ast.keyword) and node.arg == "solve_triu" and isinstance(node.value, _ast.Attribute) and _ast.unparse(node.value).startswith("linalg.") and "lstsq" not in node.value.attr:
                fixed.append((m, node.value.lineno, node.value.attr))
    for m, line, name in sorted(fixed, key=lambda s_: (s_[0].relpath, s_[1])):
        fn = _enclosing_function(m, line)
        verdict = True if name in ("solve_triu", "solve_lu") else (False if name == "solve_tril" else None)
        r5.require(verdict, f"reversal with solve_triu=linalg.{name} in {m.name}.{fn}", "an exact solve for the upper-triangular observed factor",
                   f"solve_triu=linalg.{name}: the kernel calls it with the upper-triangular factor R_Y" + ("; a lower-triangular solve uses its diagonal only, the gain and the backward noise are wrong" if name == "solve_tril" else "; not a solve this rule knows"),
                   f"{m.relpath}:{line}")


def _enclosing_function(m, line):
    import ast as _ast

    best = None
    for node in _ast.walk(m.tree):
        if isinstance(node, (_ast.FunctionDef, _ast.ClassDef)) and node.lineno <= line <= (node.end_lineno or node.lineno):
            if best is None or node.lineno >= best[0]:
                best = (node.lineno, node)
    # qualified by the chain of enclosing definitions
    chain = []
    for node in _ast.walk(m.tree):
        if isinstance(node, (_ast.FunctionDef, _ast.ClassDef)) and node.lineno <= line <= (node.end_lineno or node.lineno):
            chain.append((node.lineno, node.name))
    return ".".join(n for _l, n in sorted(chain)) or "<module>"


# ---------------------------------------------------------------------------
# R-C08-6: value identities of the covariance algebra (domain G: Gram matrices of factors in the matrix-word algebra)
def covariance_algebra_rules(chk, S):
    from .. import gdomain as GD

    r6 = chk.rule("R-C08-6", "value identities of the covariance algebra: the Gram matrix of every returned factor is the dense formula -- apply / marginalise / observed part of revert: "
                  "P_o (A P_i S P_i A^T + Q) P_o; merge: A_1 T Q_2 T A_1^T + Q_1 with T = P_i1 P_o2; preconditioner removal: P_o Q P_o and P_o A P_i; the reversal kernel is "
                  "handed the prior factor in latent coordinates, A times it, and the noise factor (positive scalings)", floor=24)
    n1, n2, n3 = AD.dim("n1"), AD.dim("n2"), AD.dim("n3")
    for fam in FAMS:
        it, env, _MD = _m_setup(S, fam)
        where = fam.module
        cfg = {"factorisation": fam.name}
        cname = fam.cond_cls.rsplit(".", 1)[1]
        c = mk_cond(it, env, fam, "c", n1, n2, Ein, Lin, Lout, Eout)
        c2 = mk_cond(it, env, fam, "c2", n2, n3, Eout, Lout, Lin, Ein)
        rv = mk_normal(it, env, fam, "rv", n1, Ein)
        x = typed(env, "x", fam.mean(n1, Ein))
        A1, N1, tl1, to1 = c.fields["A"], c.fields["noise"].fields["cholesky_flat"], c.fields["to_latent"], c.fields["to_observed"]
        A2, N2, tl2, to2 = c2.fields["A"], c2.fields["noise"].fields["cholesky_flat"], c2.fields["to_latent"], c2.fields["to_observed"]
        L = rv.fields["cholesky_flat"]
        alg = GD.GAlgebra([tl1, to1, tl2, to2], [A1, A2, N1, N2, L])
        M = lambda t: alg.ev(t, "M")  # noqa: E731
        D = alg.scaling_of
        Tr = GD.transpose

        def cov(Acond, Pi, Po, S_, Q_):
            return Po @ (Acond @ Pi @ S_ @ Pi @ Tr(Acond) + Q_) @ Po

        SL, Q1, Q2 = M(L) @ Tr(M(L)), M(N1) @ Tr(M(N1)), M(N2) @ Tr(M(N2))

        def req(name, got, want, text):
            try:
                g = got()
            except GD.Opaque as e:
                r6.unknown(f"{cname} {name}", f"not expressible in the word algebra: {e}", where, cfg)
                return
            ok, det = GD.equal(g, want)
            r6.require(ok, f"{cname} {name}", f"{text}: {det}", f"{text} does not hold: {det}", where, cfg)

        try:
            ax = call(it, method(it, c, "apply_flat"), x)
            req("apply_flat covariance", lambda: alg.left_gram(ax.fields["cholesky_flat"]), D(to1) @ Q1 @ D(to1), "cov = P_o Q P_o")
            mg = call(it, method(it, c, "marginalise"), rv)
            want_m = cov(M(A1), D(tl1), D(to1), SL, Q1)
            req("marginalise covariance", lambda: alg.left_gram(mg.fields["cholesky_flat"]), want_m, "cov = P_o (A P_i S P_i A^T + Q) P_o")
            obs, bw = call(it, method(it, c, "revert"), rv, solve_triu=PrimV("linalg.solve_triu"))
            req("revert observed covariance", lambda: alg.left_gram(obs.fields["cholesky_flat"]), want_m, "observed cov = marginal cov")
            # what the kernel is handed
            ker = [t for t in T.subterms([obs.fields["cholesky_flat"]]) if isinstance(t, T.Term) and t.op == "revert_conditional"]
            if len(ker) == 1 and len(ker[0].args) == 3:
                r_x_f, r_x, r_yx = ker[0].args
                req("revert kernel prior factor", lambda: alg.right_gram(r_x), D(tl1) @ SL @ D(tl1), "R_X^T R_X = P_i S P_i (prior covariance in latent coordinates)")
                req("revert kernel noise factor", lambda: alg.right_gram(r_yx), Q1, "R_YX^T R_YX = Q")
                req("revert kernel cross factor is A times the prior factor", lambda: M(r_x_f), M(r_x) @ Tr(M(A1)), "R_X_F = R_X A^T")
            else:
                r6.unknown(f"{cname} revert kernel inputs", f"{len(ker)} kernel calls found", where, cfg)
            mrg = call(it, method(it, c2, "merge"), c)
            Tm = D(tl2) @ D(to1)
            req("merge noise covariance", lambda: alg.left_gram(mrg.fields["noise"].fields["cholesky_flat"]), M(A2) @ Tm @ Q1 @ Tm @ Tr(M(A2)) + Q2, "noise cov = A_outer T Q_inner T A_outer^T + Q_outer, T = P_i,outer P_o,inner")
            req("merge linear map", lambda: M(mrg.fields["A"]), M(A2) @ Tm @ M(A1), "A = A_outer T A_inner")
            pc = call(it, method(it, c, "preconditioner_apply"))
            req("preconditioner_apply noise covariance", lambda: alg.left_gram(pc.fields["noise"].fields["cholesky_flat"]), D(to1) @ Q1 @ D(to1), "noise cov = P_o Q P_o")
            req("preconditioner_apply linear map", lambda: M(pc.fields["A"]), D(to1) @ M(A1) @ D(tl1), "A = P_o A P_i")
        except AnalysisError as e:
            r6.unknown(f"{cname} covariance algebra", str(e), where, cfg)
        S.absorb(it)
