"""C08 -- Gaussian conditional algebra: unit- and shape-correctness in every factorisation."""

from __future__ import annotations

from .. import adomain as AD
from .. import nf
from .. import terms as T
from ..harness import API, BLOCK, CHOL, DENSE, ISO, A, PrimV, Rec, Session, call, method
from ..model import AnalysisError

EXPLANATION = (
    "Units-of-measure + symbolic-shape type inference (domain A) of the conditional algebra of all three factorisations: "
    "{Dense,Isotropic,BlockDiag}LatentCond.{apply_flat, marginalise, merge, revert, preconditioner_apply} and the shared QR kernels "
    "(revert_conditional, sum_of_sqrtm_factors, inlined).  Inputs carry independent vector units for the external / latent coordinates of a "
    "conditional's input and output (Ein, Lin, Lout, Eout), a white-noise axis and a scalar output scale; shapes use distinct symbols for the "
    "number of input / output coefficients and the state dimension.  Each method's result must have the units and shapes of its interface "
    "signature.  A well-typed method is invariant under every positive rescaling of the latent coordinates (the 'all scalings 1e-12..1e12' "
    "quantifier) and contracts only like axes (n != d, k observed rows).  Plus the structure of the Normal methods (whitened residual RMS, "
    "rescale_cholesky, logpdf summands, std, identity_conditional, to_derivative)."
)
LEVEL = "other"
TECHNIQUE = "units-of-measure and symbolic shape type inference over the abstract interpreter's terms (segmented axes for block matrices, typed vmap / einsum / QR / triangular solves)"
LEVEL_TEXT = (
    "One type derivation per method replaces the whole range of scalings and shapes; a dropped or misplaced scaling (as in the isotropic apply_flat defect, fixed in 494f97b) is a ground unit mismatch. "
    "Exactness for singular covariances, conditioning and numerical agreement with dense formulas are not claimed."
)
LEVEL_NOTE = (
    "Trusted base = the primitive signatures of adomain.py (qr_r needs a unit-uniform row axis and returns (white, column-units); triangular solves; matmul/einsum contraction; "
    "concatenate/block build direct sums; zeros are unit-polymorphic).  cholesky_hilbert / system matrices are constants and not typed."
)

Lin, Lout, Ein, Eout, Emid, Lin2, Lout2 = [AD.mono({k: 1}) for k in ("Lin", "Lout", "Ein", "Eout", "Emid", "Lin2", "Lout2")]
SIG = AD.mono(sigma=1)
inv = AD.m_inv
mul = AD.m_mul


class Fam:
    """Layout of one factorisation: how (coefficient axis label, white axis) are arranged."""

    def __init__(self, name, module, cond_cls, normal_cls):
        self.name, self.module, self.cond_cls, self.normal_cls = name, module, cond_cls, normal_cls
        self.d = AD.dim("d")

    # mean of a normal over `n` coefficients with coordinate units `lab`
    def mean(self, n, lab):
        if self.name == "dense":
            return [AD.axis(n, lab)]
        if self.name == "isotropic":
            return [AD.axis(n, lab), AD.axis(self.d)]
        return [AD.axis(self.d), AD.axis(n, lab)]

    def chol(self, n, lab):
        if self.name == "blockdiag":
            return [AD.axis(self.d), AD.axis(n, lab), AD.axis(n)]
        return [AD.axis(n, lab), AD.axis(n)]

    def mat(self, nout, lout, nin, lin):
        if self.name == "blockdiag":
            return [AD.axis(self.d), AD.axis(nout, lout), AD.axis(nin, lin)]
        return [AD.axis(nout, lout), AD.axis(nin, lin)]

    def vec(self, n, lab):
        if self.name == "blockdiag":
            return [AD.axis(self.d), AD.axis(n, lab)]
        return [AD.axis(n, lab)]


FAMS = [
    Fam("dense", DENSE, DENSE + ".DenseLatentCond", DENSE + ".DenseNormal"),
    Fam("isotropic", ISO, ISO + ".IsotropicLatentCond", ISO + ".IsotropicNormal"),
    Fam("blockdiag", BLOCK, BLOCK + ".BlockDiagLatentCond", BLOCK + ".BlockDiagNormal"),
]


def typed(env, name, axes, scalar=AD.ONE):
    a = T.atom(name)
    env.declare(a, AD.AT(axes, scalar))
    return a


def mk_normal(it, env, fam, prefix, n, lab, scalar=SIG):
    return it.instantiate(it.class_value(fam.normal_cls), [typed(env, f"{prefix}.mean", fam.mean(n, lab)), typed(env, f"{prefix}.chol", fam.chol(n, lab), scalar), A(f"{prefix}.tf")], {}, "<harness>")


def mk_cond(it, env, fam, prefix, nin, nout, ein, lin, lout, eout, scalar=SIG):
    noise = mk_normal(it, env, fam, f"{prefix}.noise", nout, lout, scalar)
    return it.instantiate(
        it.class_value(fam.cond_cls),
        [typed(env, f"{prefix}.A", fam.mat(nout, lout, nin, inv(lin))), noise],
        dict(to_latent=typed(env, f"{prefix}.to_latent", fam.vec(nin, mul(lin, inv(ein)))), to_observed=typed(env, f"{prefix}.to_observed", fam.vec(nout, mul(eout, inv(lout))))),
        "<harness>",
    )


def check_normal(env, rule, construct, rv, fam, n, lab, scalar, where, cfg):
    if not isinstance(rv, Rec):
        rule.fail(construct, f"not a Normal record: {T.show(rv, 2)}", where, cfg)
        return
    tm, tc = env.of(rv.fields["mean_flat"]), env.of(rv.fields["cholesky_flat"])
    wm, wc = AD.AT(fam.mean(n, lab)), AD.AT(fam.chol(n, lab), scalar)
    okm = tm is not None and AD.same_type(tm, wm)
    okc = tc is not None and AD.same_type(tc, wc)
    rule.require(True if okm else (None if tm is None else False), f"{construct} mean", f"mean : {AD.show(tm)}", f"mean has type {AD.show(tm)}; expected {AD.show(wm)}", where, cfg)
    rule.require(True if okc else (None if tc is None else False), f"{construct} cholesky", f"cholesky : {AD.show(tc)}", f"Cholesky factor has type {AD.show(tc)}; expected {AD.show(wc)}", where, cfg)


def check_cond(env, rule, construct, c, fam, nin, nout, ein, lin, lout, eout, scalar, where, cfg):
    if not isinstance(c, Rec):
        rule.fail(construct, f"not a conditional record: {T.show(c, 2)}", where, cfg)
        return
    ta = env.of(c.fields["A"])
    wa = AD.AT(fam.mat(nout, lout, nin, inv(lin)))
    rule.require(True if (ta is not None and AD.same_type(ta, wa)) else (None if ta is None else False), f"{construct} A", f"A : {AD.show(ta)}", f"A has type {AD.show(ta)}; expected {AD.show(wa)}", where, cfg)
    check_normal(env, rule, f"{construct} noise", c.fields["noise"], fam, nout, lout, scalar, where, cfg)
    for fld, n_, lab in (("to_latent", nin, mul(lin, inv(ein))), ("to_observed", nout, mul(eout, inv(lout)))):
        tv = env.of(c.fields[fld])
        wv = AD.AT(fam.vec(n_, lab))
        rule.require(True if (tv is not None and AD.same_type(tv, wv)) else (None if tv is None else False), f"{construct} {fld}", f"{fld} : {AD.show(tv)}", f"{fld} has type {AD.show(tv)}; expected {AD.show(wv)}", where, cfg)


def flush(env, rule, construct, where, cfg):
    for e in env.errors:
        rule.fail(f"{construct} [{e.what}]", f"{e.detail}", getattr(e.term, "origin", None) or where, cfg)
    n_unknown = len(env.unknown)
    env.errors.clear()
    env.unknown.clear()
    return n_unknown


def run(chk, S: Session):
    chk.trust("primitive signatures of adomain.py (qr_r, solve_triu/tril, matmul, einsum, concatenate/block, zeros polymorphic)")
    r1 = chk.rule("R-C08-1", "units and shapes of apply_flat / marginalise / merge / revert / preconditioner_apply in all three factorisations (kernels inlined)", floor=55)
    r3 = chk.rule("R-C08-3", "Normal methods: whitened residual RMS, rescale_cholesky, logpdf summands, std, identity_conditional, to_derivative, from_mean_and_std", floor=15)
    nin, nout, nmid = AD.dim("n_in"), AD.dim("n_out"), AD.dim("n_mid")
    for fam in FAMS:
        cfg = {"factorisation": fam.name}
        where = fam.module
        cname = fam.cond_cls.rsplit(".", 1)[1]
        for meth in ("apply_flat", "marginalise", "revert", "preconditioner_apply", "merge"):
            it = S.interp()
            env = AD.AEnv()
            it.ndim_oracle = env.rank_of
            AD.install_vmap(it, env)
            cond = mk_cond(it, env, fam, "c", nin, nout, Ein, Lin, Lout, Eout)
            construct = f"{cname}.{meth}"
            try:
                if meth == "apply_flat":
                    x = typed(env, "x", fam.mean(nin, Ein))
                    out = call(it, method(it, cond, meth), x)
                    check_normal(env, r1, construct, out, fam, nout, Eout, SIG, where, cfg)
                elif meth == "marginalise":
                    rv = mk_normal(it, env, fam, "rv", nin, Ein)
                    out = call(it, method(it, cond, meth), rv)
                    check_normal(env, r1, construct, out, fam, nout, Eout, SIG, where, cfg)
                elif meth == "revert":
                    rv = mk_normal(it, env, fam, "rv", nin, Ein)
                    out = call(it, method(it, cond, meth), rv, solve_triu=PrimV("linalg.solve_triu"))
                    if not (isinstance(out, (tuple, list)) and len(out) == 2):
                        r1.fail(construct, f"does not return (observed, backward): {T.show(out, 2)}", where, cfg)
                    else:
                        check_normal(env, r1, f"{construct} observed", out[0], fam, nout, Eout, SIG, where, cfg)
                        # backward conditional: from Eout back to Ein through the latent coordinates
                        check_cond(env, r1, f"{construct} backward", out[1], fam, nout, nin, Eout, Lout, Lin, Ein, SIG, where, cfg)
                elif meth == "preconditioner_apply":
                    out = call(it, method(it, cond, meth))
                    check_cond(env, r1, construct, out, fam, nin, nout, Ein, Ein, Eout, Eout, SIG, where, cfg)
                else:
                    inner = mk_cond(it, env, fam, "o", nin, nmid, Ein, Lin, Lout, Emid)
                    outer = mk_cond(it, env, fam, "c2", nmid, nout, Emid, Lin2, Lout2, Eout)
                    out = call(it, method(it, outer, "merge"), inner)
                    check_cond(env, r1, construct, out, fam, nin, nout, Ein, Lin, Lout2, Eout, SIG, where, cfg)
            except AnalysisError as e:
                r1.unknown(construct, f"could not be evaluated: {e}", where, cfg)
            nu = flush(env, r1, construct, where, cfg)
            S.absorb(it)
            if fam.name == "isotropic" and meth == "apply_flat" and isinstance(out, Rec):
                chk.sample({"method": construct, "mean": AD.show(env.of(out.fields["mean_flat"])), "cholesky": AD.show(env.of(out.fields["cholesky_flat"]))})
            if meth == "revert" and isinstance(out, (tuple, list)) and isinstance(out[1], Rec):
                chk.sample({"method": construct, "gain": AD.show(env.of(out[1].fields["A"])), "backward_noise_mean": AD.show(env.of(out[1].fields["noise"].fields["mean_flat"]))})
        normal_rules(chk, S, r3, fam)


def normal_rules(chk, S, r3, fam):
    cfg = {"factorisation": fam.name}
    where = fam.module
    n = AD.dim("n")
    nname = fam.normal_cls.rsplit(".", 1)[1]
    E = AD.mono(E=1)
    # residual_whitened_rms_flat : Normal(sigma^a) -> sigma^-a, unit-free in the coordinates
    it = S.interp()
    env = AD.AEnv()
    it.ndim_oracle = env.rank_of
    AD.install_vmap(it, env)
    rv = mk_normal(it, env, fam, "rv", n, E)
    u = typed(env, "u", fam.mean(n, E))
    out = call(it, method(it, rv, "residual_whitened_rms_flat"), u)
    t = env.of(out)
    want_axes = [AD.axis(fam.d)] if fam.name == "blockdiag" else []
    ok = t is not None and AD.same_type(t, AD.AT(want_axes, inv(SIG)))
    r3.require(True if ok else (None if t is None else False), f"{nname}.residual_whitened_rms_flat units", f"{AD.show(t)}", f"whitened RMS has type {AD.show(t)}; expected scalar unit sigma^-1 and no coordinate units", where, cfg)
    flush(env, r3, f"{nname}.residual_whitened_rms_flat", where, cfg)
    # normalisation: norm / sqrt(size of the mean the norm is taken over)
    norms = [x for x in T.subterms(out) if x.op == "linalg.vector_norm"]
    sq = [x for x in T.subterms(out) if x.op == "np.sqrt"]
    okn = len(norms) == 1 and len(sq) == 1
    if okn:
        size_arg = sq[0].args[0]
        got = env.dim_of(size_arg)
        want = n if fam.name != "isotropic" else nf.mul(n, fam.d)
        okn = got is not None and got == want and isinstance(out, T.Term)
    r3.require(okn, f"{nname}.residual_whitened_rms_flat normalisation", "norm / sqrt(size of the mean the norm is taken over)", f"rms = {T.show(out, 5)}", where, cfg)
    S.absorb(it)
    # rescale_cholesky multiplies the Cholesky factor (not the mean)
    it = S.interp()
    env = AD.AEnv()
    it.ndim_oracle = env.rank_of
    rv = mk_normal(it, env, fam, "rv", n, E)
    f = typed(env, "factor", [AD.axis(fam.d)] if fam.name == "blockdiag" else [], AD.mono(tau=1))
    out = call(it, method(it, rv, "rescale_cholesky"), f)
    ok = isinstance(out, Rec) and out.fields["mean_flat"] is rv.fields["mean_flat"]
    tc = env.of(out.fields["cholesky_flat"]) if isinstance(out, Rec) else None
    ok = ok and tc is not None and AD.same_type(tc, AD.AT(fam.chol(n, E), AD.m_mul(SIG, AD.mono(tau=1))))
    r3.require(ok, f"{nname}.rescale_cholesky", "mean unchanged, Cholesky factor times the factor (per dimension for block-diagonal)", f"cholesky : {AD.show(tc)}", where, cfg)
    flush(env, r3, f"{nname}.rescale_cholesky", where, cfg)
    # logpdf: -1/2 |w|^2 - size/2 log(2 pi) - sum log|diag L|, each once per kernel
    it = S.interp()
    env = AD.AEnv()
    it.ndim_oracle = env.rank_of
    rv = mk_normal(it, env, fam, "rv", n, E)
    u = typed(env, "u", fam.mean(n, E))
    kernel = "logpdf_flat" if fam.name == "dense" else "logpdf_scalar_flat"
    if fam.name != "dense":
        # the per-dimension kernel works on one column / block
        rv = it.instantiate(it.class_value(fam.normal_cls), [typed(env, "k.mean", [AD.axis(n, E)]), typed(env, "k.chol", [AD.axis(n, E), AD.axis(n)], SIG), A("tf")], {}, "<harness>")
        u = typed(env, "k.u", [AD.axis(n, E)])
    out = call(it, method(it, rv, kernel), u)
    p = nf.norm(out)
    dots = [x for x in T.subterms(out) if x.op == "linalg.vector_dot"]
    logs = [x for x in T.subterms(out) if x.op == "np.log" and any(y.op == "np.abs" for y in T.subterms(x))]
    pis = [x for x in T.subterms(out) if x.op == "np.log" and any(y.op == "np.pi" for y in T.subterms(x))]
    ok = len(dots) == 1 and len(logs) == 1 and len(pis) == 1
    if ok:
        dot_c, slog_c, pi_c = nf.canon(dots[0]), nf.canon(T.mk("np.sum", (logs[0],))), nf.canon(pis[0])
        coeffs = {}
        for mono_, c in p.items():
            bases = {b for b, _e in mono_}
            coeffs[frozenset(bases)] = c
        size = nf.canon(T.mk("attr", (u, "size")))
        ok = coeffs.get(frozenset({dot_c})) == -nf.Fraction(1, 2) and coeffs.get(frozenset({slog_c})) == -1 and coeffs.get(frozenset({pi_c, size})) == -nf.Fraction(1, 2) and len(p) == 3
    r3.require(ok, f"{nname}.{kernel} summands", "-1/2 |L^-1(u-m)|^2 - size/2 log(2 pi) - sum log|diag L|", f"logpdf = {nf.show(p)}", where, cfg)
    wt = env.of(dots[0].args[0]) if dots else None
    r3.require(True if (wt is not None and wt.scalar == inv(SIG) and all(ax.label == AD.ONE for ax in wt.axes)) else (None if wt is None else False), f"{nname}.{kernel} whitening units", f"whitened residual : {AD.show(wt)}", f"whitened residual has type {AD.show(wt)}", where, cfg)
    flush(env, r3, f"{nname}.{kernel}", where, cfg)
    if fam.name != "dense":
        it2 = S.interp()
        env2 = AD.AEnv()
        it2.ndim_oracle = env2.rank_of
        rvf = mk_normal(it2, env2, fam, "rv", n, E)
        uf = typed(env2, "u", fam.mean(n, E))
        o2 = call(it2, method(it2, rvf, "logpdf_flat"), uf)
        vm = [e for e in it2.events if e["kind"] == "vmap"]
        ok = isinstance(o2, T.Term) and o2.op == "np.sum" and len(vm) == 1
        r3.require(ok, f"{nname}.logpdf_flat", "sum over the state dimension of the per-dimension kernel (log-determinant enters d times)", f"{T.show(o2, 3)}", where, cfg)
    # std = row norms of the Cholesky factor; identity_conditional; to_derivative selects coefficient i with noise std
    it = S.interp()
    env = AD.AEnv()
    it.ndim_oracle = env.rank_of
    AD.install_vmap(it, env)
    rv = mk_normal(it, env, fam, "rv", n, E)
    ic = call(it, method(it, rv, "identity_conditional"))
    ok = isinstance(ic, Rec)
    if ok:
        tA = env.of(ic.fields["A"])
        nm = ic.fields["noise"]
        tm, tcn = env.of(nm.fields["mean_flat"]), env.of(nm.fields["cholesky_flat"])
        ok = tA is not None and tm is not None and tcn is not None and tm.zero and tcn.zero and tA.rank == (3 if fam.name == "blockdiag" else 2) and AD.same_size(tA.axes[-1].size, n) and AD.same_size(tA.axes[-2].size, n)
        eyes = [x for x in T.subterms(ic.fields["A"]) if x.op == "np.eye"]
        ok = ok and len(eyes) == 1
    r3.require(ok, f"{nname}.identity_conditional", "A = identity (n x n), zero noise mean and covariance", f"{T.show(ic, 3)}", where, cfg)
    flush(env, r3, f"{nname}.identity_conditional", where, cfg)
    S.absorb(it)
    # std = row norms of the Cholesky factor (units E * sigma per coefficient), un-flattened with the own tree_flatten
    it = S.interp()
    env = AD.AEnv()
    it.ndim_oracle = env.rank_of
    AD.install_vmap(it, env)
    rv = mk_normal(it, env, fam, "rv", n, E)
    sd = it.getattr(rv, "std", None)
    ok = isinstance(sd, T.Term) and sd.op == "mcall" and sd.args[0] is rv.fields["tree_flatten"] and sd.args[1].startswith("unflatten_array") and len(sd.args) == 3
    ts = env.of(sd.args[2]) if ok else None
    want = AD.AT([AD.axis(fam.d), AD.axis(n, E)] if fam.name == "blockdiag" else [AD.axis(n, E)], SIG)
    r3.require(True if (ok and ts is not None and AD.same_type(ts, want)) else (None if (ok and ts is None) else False), f"{nname}.std", f"row norms of the Cholesky factor : {AD.show(ts)}", f"std is {T.show(sd, 4)} : {AD.show(ts)}; expected per-coefficient norms {AD.show(want)}", where, cfg)
    norms = [x for x in T.subterms(sd) if x.op in ("linalg.vector_norm", "linalg.qr_r")]
    r3.require(len(norms) == 1 and "rv.chol" in T.atoms_of(norms[0]) and "rv.mean" not in T.value_atoms(sd), f"{nname}.std source", "computed from the values of the Cholesky factor only (the mean may lend its shape)", f"{T.show(sd, 4)}", where, cfg)
    flush(env, r3, f"{nname}.std", where, cfg)
    # to_derivative(i, std): linear map selects coefficient i, noise mean 0, noise std = std
    it = S.interp()
    env = AD.AEnv()
    it.ndim_oracle = env.rank_of
    AD.install_vmap(it, env)
    rv = mk_normal(it, env, fam, "rv", n, E)
    idx, ostd = A("idx"), T.atom("obs_std", array=True)
    from .c11 import first_rec
    from ..interp import WrappedFn
    td = first_rec(call(it, method(it, rv, "to_derivative"), idx, ostd))
    ok = td is not None
    detail = "not a conditional"
    if ok:
        w = None
        for t_ in T.subterms(td.fields["A"]):
            if t_.op in ("jac_apply", "vmap_apply"):
                cand = t_.args[0]
                while isinstance(cand, WrappedFn) and isinstance(cand.fn, WrappedFn):
                    cand = cand.fn
                if isinstance(cand, WrappedFn):
                    w = cand.fn
        probe = A("probe")
        sel = it.call(w, [probe], {}, "<harness>") if w is not None else None
        if sel is not None:
            gets = [g for g in T.subterms(sel) if g.op == "getitem" and g.args[1] is idx]
            ok = len(gets) == 1 and "probe" in T.atoms_of(gets[0])
            detail = f"selector({T.show(probe)}) = {T.show(sel, 4)}"
        else:
            # second recognised idiom: rows lo:hi of an identity matrix; must be the i-th block of a common width
            Aop = td.fields["A"]
            while isinstance(Aop, T.Term) and Aop.op in ("np.asarray",):
                Aop = Aop.args[0]
            ok = None
            detail = f"linear map {T.show(Aop, 4)}: selector idiom not recognised"
            if isinstance(Aop, T.Term) and Aop.op == "getitem" and isinstance(Aop.args[0], T.Term) and Aop.args[0].op == "np.eye":
                sl = Aop.args[1][0] if isinstance(Aop.args[1], tuple) else Aop.args[1]
                if isinstance(sl, slice) and sl.start is not None and sl.stop is not None and sl.step is None:
                    wdt = nf.add(nf.norm(sl.stop), nf.norm(sl.start), -1)
                    ok = nf.norm(sl.start) == nf.mul(nf.norm(idx), wdt) and bool(wdt)
                    detail = f"rows {T.show(sl.start, 3)}:{T.show(sl.stop, 3)} of the identity; block i of width {nf.show(wdt)} starts at i*width"
        nm = td.fields["noise"]
        okn = isinstance(nm, Rec) and "obs_std" in T.value_atoms(nm.fields["cholesky_flat"]) and not T.value_atoms(nm.fields["mean_flat"])
        r3.require(okn, f"{nname}.to_derivative noise", "zero mean, standard deviation = std", f"noise = {T.show(nm, 4)}", where, cfg)
    r3.require(ok, f"{nname}.to_derivative selector", "the linear map selects Taylor coefficient i", detail, where, cfg)
    S.absorb(it)


from fractions import Fraction  # noqa: E402

nf.Fraction = Fraction
