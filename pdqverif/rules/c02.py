"""C02 -- the filter step is the EKF recursion on the right objects in the right order."""

from __future__ import annotations

from .. import nf
from .. import tdomain as TD
from .. import terms as T
from ..harness import API, SOLVERS, A, Rec, Session, call, mcalls, method, named, where_of
from ..model import AnalysisError
from ..tscen import STRATEGIES, make_solver, posterior_types, typed_solution

EXPLANATION = (
    "Abstract interpretation + Markov time typestate of every ProbabilisticSolver subclass's step() and init() (x strategy x "
    "re-linearisation flag x initial constraint present/absent), with the real strategy code inlined and the state-space layer opaque: "
    "the transition is built with the step's own dt and a unit (or, for the dynamic solver, the freshly estimated) output scale; "
    "predict consumes the previous posterior; the constraint is linearised at the predicted variable and at time t + dt; Bayes' rule "
    "conditions that same prediction on zero data; the returned record has t + dt, num_steps + 1, the same prior, the update's "
    "posterior; dynamic calibration uses the whitened residual of the mean-only extrapolation.  Also AbstractLatentCond.bayes_rule_*: "
    "revert then apply to the (flattened) datum."
)
TRUSTED_VALUE_PRIMITIVES = ("lstsq_svd",)  # the initial-constraint update of every solver solves with linalg.lstsq_svd
LEVEL = "other"
TECHNIQUE = "abstract interpretation over the AST with class-hierarchy analysis; Markov time typestate (phantom time labels); provenance/identity of record fields; value-numbering normal form for time labels"
LEVEL_TEXT = (
    "Necessary structural conditions of 'the filter is the EKF of the linearised model', decided for every grid and problem at once (e.g. linearising at "
    "t instead of t + dt passes all 335 tests, which are autonomous, and is refuted here).  Equality with a reference EKF up to rounding is numerical and not claimed; "
    "the conditional algebra itself is C08."
)
LEVEL_NOTE = (
    "Trusted: typing rules of the opaque interface methods (tdomain.py).  Not decided: numerical precision at high order/small steps, QR kernels' numerics."
)


def strip_sg(t):
    while isinstance(t, T.Term) and t.op in ("func.stop_gradient", "np.asarray") and t.args:
        t = t.args[0]
    return t


def is_unit_scale(t):
    return isinstance(t, T.Term) and t.op == "np.ones_like" and not T.value_atoms(t)


def is_zero_data(t, fx):
    if not isinstance(t, T.Term) or T.value_atoms(t):
        return False
    want = T.mk("attr", (T.mk("attr", (fx, "noise")), "mean"))
    return any(x is want for x in T.subterms(t))


def _run_own(chk, S: Session):
    chk.trust("typing rules of transition / marginalise / revert / merge / bayes_rule_* / apply_flat (tdomain.py)")
    r1 = chk.rule("R-C02-1", "step(): predict -> linearise at the prediction and at t+dt -> update that prediction; bookkeeping of t, num_steps, prior, fun_evals", floor=60)
    r2 = chk.rule("R-C02-2", "init(): initial posterior, optional initial-constraint update on zero data, counters", floor=20)
    r3 = chk.rule("R-C02-3", "bayes_rule_* = revert, then apply the backward conditional to the flattened datum", floor=3)
    subs = S.p.subclasses(SOLVERS + ".ProbabilisticSolver")
    if len(subs) < 3:
        raise AnalysisError("expected >= 3 ProbabilisticSolver subclasses")
    nconf = 0
    for ci in subs:
        init_node = ci.methods.get("__init__")
        params = [a.arg for a in init_node.args.kwonlyargs] if init_node else []
        relin_flag = "re_linearize_after_calibration" in params
        for strategy in STRATEGIES:
            for relin in ((False, True) if relin_flag else (None,)):
                nconf += 1
                cfg = {"solver": ci.name, "strategy": strategy}
                flags = {}
                if relin is not None:
                    flags["re_linearize_after_calibration"] = relin
                    cfg["re_linearize_after_calibration"] = relin
                it = S.interp()
                solver = make_solver(it, ci.name, strategy, **flags)
                env = TD.TEnv()
                state = typed_solution(it, env, strategy, "state")
                dt, damp = A("dt"), A("damp")
                out = call(it, method(it, solver, "step"), state=state, dt=dt, damp=damp)
                S.absorb(it)
                name = f"{ci.name}.step"
                where = ci.module.relpath
                if not isinstance(out, Rec):
                    r1.fail(name, f"does not return a ProbabilisticSolution: {T.show(out, 2)}", where, cfg)
                    continue
                t0 = state.fields["t"]
                t1 = T.mk("add", (t0, dt))
                r1.require(nf.equal(out.fields["t"], t1), f"{name} t", "t = state.t + dt", f"t = {T.show(out.fields['t'])}", where_of(out.fields["t"], where), cfg)
                r1.require(out.fields["prior"] is state.fields["prior"], f"{name} prior", "prior passed through", f"prior = {T.show(out.fields['prior'], 2)}", where, cfg)
                # transitions
                trs = mcalls(out, "transition", state.fields["prior"])
                r1.require(len(trs) >= 1 and all(tr.kwargs.get("dt") is dt for tr in trs), f"{name} transition dt", "every transition uses the step's dt", f"{[T.show(tr.kwargs.get('dt')) for tr in trs]}", where, cfg)
                # the prediction: marginalise (filter) or revert (smoothers) of state.solution_full's marginal
                sf = state.fields["solution_full"]
                prev_marg = sf.fields["marginal"] if isinstance(sf, Rec) else sf
                preds = [m for m in mcalls(out, "marginalise") + mcalls(out, "revert") if len(m.args) > 2 and m.args[2] is prev_marg and m.args[0] in trs]
                r1.require(len(preds) == 1, f"{name} predict", "one prediction: transition.marginalise/revert(previous posterior)", f"{len(preds)} predictions from the previous posterior: {[T.show(p_, 3) for p_ in preds]}", where, cfg)
                if len(preds) != 1:
                    continue
                pred = preds[0]
                u_pred = pred if pred.args[1] == "marginalise" else T.mk("getitem", (pred, 0))
                tp = env.of(u_pred)
                r1.require(tp is not None and tp[0] == "N" and TD.same(tp[1], t1), f"{name} prediction time", f"prediction is {TD.show_type(tp)}", f"prediction has type {TD.show_type(tp)}; expected N@state.t + dt", where_of(pred, where), cfg)
                pred_scale = pred.args[0].kwargs.get("output_scale")
                lins = mcalls(out, "linearize", A("constraint"))
                bayes = [m for m in T.subterms(out) if m.op == "mcall" and m.args[1] in ("bayes_rule_tree", "bayes_rule_and_residual_whitened_rms_tree", "bayes_rule_and_logpdf_tree")]
                r1.require(len(bayes) == 1, f"{name} one Bayes update", "", f"{len(bayes)} Bayes updates", where, cfg)
                if len(bayes) != 1:
                    continue
                b = bayes[0]
                fx_used = b.args[0]
                data, rv = (b.args[2], b.args[3]) if len(b.args) > 3 else (None, None)
                r1.require(rv is u_pred, f"{name} update conditions the prediction", "Bayes' rule applied to the predicted variable of this step", f"Bayes' rule applied to {T.show(rv, 3)}", where_of(b, where), cfg)
                r1.require(is_zero_data(data, fx_used), f"{name} zero data", "datum = zeros shaped like the linearisation's noise mean", f"datum = {T.show(data, 3)}", where_of(b, where), cfg)
                r1.require(b.kwargs.get("solve_triu") is not None and getattr(b.kwargs.get("solve_triu"), "name", "") == "linalg.solve_triu", f"{name} triangular solve", "solve_triu=linalg.solve_triu in the step", f"solve_triu = {b.kwargs.get('solve_triu')}", where, cfg)
                # linearisations: all at time t+dt
                for ln in lins:
                    r1.require(nf.equal(ln.kwargs.get("t"), t1), f"{name} linearisation time", "linearised at t = state.t + dt", f"linearised at t = {T.show(ln.kwargs.get('t'))}; the predicted variable lives at state.t + dt", where_of(ln, where), cfg)
                    tl = env.of(named(ln, "rv")) if named(ln, "rv") is not None else None
                    r1.require(tl is not None and TD.same(tl[1], t1), f"{name} linearisation point time", f"linearisation point is {TD.show_type(tl)}", f"linearisation point has type {TD.show_type(tl)}", where_of(ln, where), cfg)
                    r1.require(ln.kwargs.get("damp") is damp, f"{name} damping forwarded", "", f"damp = {T.show(ln.kwargs.get('damp'))}", where, cfg)
                is_dynamic = any(tr.kwargs.get("output_scale") is not None and not is_unit_scale(tr.kwargs.get("output_scale")) for tr in trs)
                if not is_dynamic:
                    r1.require(len(lins) == 1 and named(lins[0], "rv") is u_pred and fx_used is T.mk("getitem", (lins[0], 0)), f"{name} linearise at the prediction", "one linearisation, at the predicted variable, used by the update",
                               f"{len(lins)} linearisations; update uses {T.show(fx_used, 3)}", where, cfg)
                    r1.require(is_unit_scale(pred_scale), f"{name} unit output scale", "prediction uses a unit output scale", f"output scale {T.show(pred_scale, 3)}", where, cfg)
                    st_arg = named(lins[0], "state") if lins else None
                    aux = state.fields["auxiliary"]
                    ok_state = st_arg is aux or (isinstance(st_arg, T.Term) and st_arg.op == "getitem" and st_arg.args[0] is aux and st_arg.args[1] == 0)
                    r1.require(ok_state, f"{name} linearisation state", "constraint state taken from state.auxiliary", f"state argument {T.show(st_arg, 3)}", where, cfg)
                else:
                    # dynamic calibration: scale = whitened RMS of the residual of the mean-only extrapolation
                    scale = strip_sg(pred_scale)
                    ok = isinstance(scale, T.Term) and scale.op == "mcall" and scale.args[1] == "residual_whitened_rms_tree"
                    first = None
                    if ok:
                        obs = scale.args[0]
                        ok = obs.op == "mcall" and obs.args[1] == "marginalise" and len(obs.args) > 2
                        if ok:
                            u_mean = obs.args[2]
                            ok = (u_mean.op == "mcall" and u_mean.args[1] == "apply_flat" and u_mean.args[2] is T.mk("attr", (state.fields["u"], "mean_flat"))
                                  and u_mean.args[0] in trs and is_unit_scale(u_mean.args[0].kwargs.get("output_scale")))
                            first = next((ln for ln in lins if named(ln, "rv") is u_mean), None)
                            ok = ok and first is not None and obs.args[0] is T.mk("getitem", (first, 0)) and is_zero_data(scale.args[2], obs.args[0])
                    r1.require(ok, f"{name} dynamic scale", "scale = fx.marginalise(transition(1).apply_flat(mean)).residual_whitened_rms(0), fx linearised at that extrapolation", f"scale = {T.show(scale, 5)}", where_of(scale, where), cfg)
                    r1.require(out.fields["output_scale"] is pred_scale, f"{name} reported scale", "reported output scale = the scale used in the prediction", f"{T.show(out.fields['output_scale'], 3)}", where, cfg)
                    if relin:
                        second = next((ln for ln in lins if named(ln, "rv") is u_pred), None)
                        r1.require(second is not None and fx_used is T.mk("getitem", (second, 0)), f"{name} re-linearised update", "the update uses the linearisation at the calibrated prediction", f"update uses {T.show(fx_used, 3)}", where, cfg)
                        r1.require(len(lins) == 2, f"{name} two linearisations", "", f"{len(lins)}", where, cfg)
                    else:
                        r1.require(first is not None and fx_used is T.mk("getitem", (first, 0)) and len(lins) == 1, f"{name} cached linearisation", "without the flag the update re-uses the first linearisation", f"update uses {T.show(fx_used, 3)}; {len(lins)} linearisations", where, cfg)
                # result posterior
                upd = b if b.args[1] == "bayes_rule_tree" else T.mk("getitem", (b, 1))
                r1.require(out.fields["u"] is upd, f"{name} u", "u = the update's posterior marginal", f"u = {T.show(out.fields['u'], 3)}", where, cfg)
                mt, ct = posterior_types(env, out.fields["solution_full"])
                r1.require(mt is not None and TD.same(mt[1], t1), f"{name} posterior time", f"posterior marginal {TD.show_type(mt)}", f"posterior marginal has type {TD.show_type(mt)}", where, cfg)
                sfo = out.fields["solution_full"]
                if isinstance(sfo, Rec):
                    r1.require(sfo.fields["marginal"] is upd, f"{name} posterior marginal", "posterior marginal = update", f"{T.show(sfo.fields['marginal'], 3)}", where, cfg)
                    want_to = t0 if strategy.endswith("fixedinterval") else env.of(sf.fields["conditional"])[2]
                    r1.require(ct is not None and ct[0] == "C" and TD.same(ct[1], t1) and TD.same(ct[2], want_to), f"{name} backward model", f"backward model {TD.show_type(ct)}", f"backward model has type {TD.show_type(ct)}; expected C[t+dt -> {TD.show_label(want_to)}]", where, cfg)
                else:
                    r1.require(sfo is upd, f"{name} posterior", "posterior = update", f"{T.show(sfo, 3)}", where, cfg)
                r1.require(not env.errors, f"{name} time typing", "no conditional applied at the wrong time", f"{env.errors[:2]}", where, cfg)
                # fun_evals caches the linearisation of this step
                fe = out.fields["fun_evals"]
                r1.require(any(fe is T.mk("getitem", (ln, 0)) for ln in lins), f"{name} fun_evals", "fun_evals caches a linearisation of this step", f"fun_evals = {T.show(fe, 3)}", where, cfg)
                if nconf <= 2:
                    chk.sample({"config": cfg, "prediction": TD.show_type(tp), "posterior": TD.show_type(mt), "backward": TD.show_type(ct)})
    chk.extra["step_configurations"] = nconf
    init_rules(chk, S, r2, subs)
    bayes_rules(chk, S, r3)


def init_rules(chk, S, r2, subs):
    for ci in subs:
        for strategy in STRATEGIES:
            for with_init in (False, True):
                cfg = {"solver": ci.name, "strategy": strategy, "constraint_init": with_init}
                it = S.interp()
                flags = {"constraint_init": A("constraint_init")} if with_init else {}
                solver = make_solver(it, ci.name, strategy, **flags)
                prior = A("prior")
                t0, damp = A("t0"), A("damp")
                out = call(it, method(it, solver, "init"), t0, prior, damp=damp)
                S.absorb(it)
                name = f"{ci.name}.init"
                where = ci.module.relpath
                if not isinstance(out, Rec):
                    r2.fail(name, f"{T.show(out, 2)}", where, cfg)
                    continue
                u0 = T.mk("attr", (prior, "init"))
                r2.require(out.fields["t"] is t0 and out.fields["prior"] is prior and out.fields["num_steps"] == 0, f"{name} bookkeeping", "t = t0, prior, num_steps = 0", "", where, cfg)
                sfo = out.fields["solution_full"]
                if with_init:
                    lins = mcalls(out, "linearize", A("constraint_init"))
                    bayes = [m for m in T.subterms(out.fields["u"]) if m.op == "mcall" and m.args[1].startswith("bayes_rule")]
                    ok = len(lins) == 1 and named(lins[0], "rv") is u0 and named(lins[0], "t") is t0 and len(bayes) == 1
                    if ok:
                        b = bayes[0]
                        ok = b.args[0] is T.mk("getitem", (lins[0], 0)) and b.args[3] is u0 and is_zero_data(b.args[2], b.args[0]) and getattr(b.kwargs.get("solve_triu"), "name", "") == "linalg.lstsq_svd"
                    r2.require(ok, f"{name} initial update", "condition prior.init on the initial constraint (zero data, at t0, lstsq solve)", f"u = {T.show(out.fields['u'], 4)}", where, cfg)
                    marg = sfo.fields["marginal"] if isinstance(sfo, Rec) else sfo
                    r2.require(marg is out.fields["u"], f"{name} posterior", "posterior marginal = updated variable", "", where, cfg)
                else:
                    marg = sfo.fields["marginal"] if isinstance(sfo, Rec) else sfo
                    r2.require(out.fields["u"] is u0 and marg is u0, f"{name} posterior", "posterior = prior.init", f"u = {T.show(out.fields['u'], 3)}", where, cfg)
                if isinstance(sfo, Rec):
                    c = sfo.fields["conditional"]
                    r2.require(isinstance(c, T.Term) and c.op == "mcall" and c.args[1] == "identity_conditional" and c.args[0] is u0, f"{name} backward model", "identity backward model", f"{T.show(c, 3)}", where, cfg)
                # the constraint evaluations never influence fun_evals by value (zeros of eval_shape)
                r2.require(not T.value_atoms(out.fields["fun_evals"]), f"{name} fun_evals", "shape-only placeholder", f"{sorted(T.value_atoms(out.fields['fun_evals']))}", where, cfg)


def bayes_rules(chk, S, r3):
    it = S.interp()
    cv = it.class_value(API + ".AbstractLatentCond")
    from ..interp import Rec as R_

    cond = R_(cv)
    noise = A("noise")
    cond.fields = {"A": A("A"), "noise": noise, "to_latent": A("tl"), "to_observed": A("to")}
    got = {}

    def hook_revert(itp, fn, a, kw, site):
        return (A("observed"), A("reverted"))

    it.method_hooks[API + ".AbstractLatentCond.revert"] = hook_revert
    data, rv = A("data"), A("rv")
    o1 = call(it, method(it, cond, "bayes_rule_tree"), data, rv, solve_triu=A("solve"))
    want_flat_noise = T.mk("mcall", (T.mk("attr", (noise, "tree_flatten")), "flatten_tree", data))
    r3.require(o1 is T.mk("mcall", (A("reverted"), "apply_flat", want_flat_noise)), "AbstractLatentCond.bayes_rule_tree", "reverted.apply_flat(flatten(data))", f"{T.show(o1, 4)}", API)
    want_flat_obs = T.mk("mcall", (T.mk("attr", (A("observed"), "tree_flatten")), "flatten_tree", data))
    o2 = call(it, method(it, cond, "bayes_rule_and_logpdf_tree"), data, rv, solve_triu=A("solve"))
    ok = isinstance(o2, tuple) and o2[0] is T.mk("mcall", (A("observed"), "logpdf_tree", data)) and o2[1] is T.mk("mcall", (A("reverted"), "apply_flat", want_flat_obs))
    r3.require(ok, "AbstractLatentCond.bayes_rule_and_logpdf_tree", "(observed.logpdf(data), reverted.apply_flat(flatten(data)))", f"{T.show(o2, 4)}", API)
    o3 = call(it, method(it, cond, "bayes_rule_and_residual_whitened_rms_tree"), data, rv, solve_triu=A("solve"))
    ok = isinstance(o3, tuple) and o3[0] is T.mk("mcall", (A("observed"), "residual_whitened_rms_tree", data)) and o3[1] is T.mk("mcall", (A("reverted"), "apply_flat", want_flat_obs))
    r3.require(ok, "AbstractLatentCond.bayes_rule_and_residual_whitened_rms_tree", "(observed.residual_whitened_rms(data), reverted.apply_flat(flatten(data)))", f"{T.show(o3, 4)}", API)
    S.absorb(it)


def linearisation_threading(S: Session):
    """For every solver x strategy x flag: the constraint state (PRNG key of a Monte-Carlo Jacobian handler) is threaded through the step.

    Yields (construct, ok, detail, where, cfg).  Used by C17 (key advance on every call, seen from the solver).
    """
    for ci in S.p.subclasses(SOLVERS + ".ProbabilisticSolver"):
        init_node = ci.methods.get("__init__")
        params = [a.arg for a in init_node.args.kwonlyargs] if init_node else []
        relin_flag = "re_linearize_after_calibration" in params
        for strategy in STRATEGIES:
            for relin in ((False, True) if relin_flag else (None,)):
                cfg = {"solver": ci.name, "strategy": strategy}
                flags = {}
                if relin is not None:
                    flags["re_linearize_after_calibration"] = relin
                    cfg["re_linearize_after_calibration"] = relin
                it = S.interp()
                solver = make_solver(it, ci.name, strategy, **flags)
                env = TD.TEnv()
                state = typed_solution(it, env, strategy, "state")
                out = call(it, method(it, solver, "step"), state=state, dt=A("dt"), damp=A("damp"))
                S.absorb(it)
                where = ci.module.relpath
                name = f"{ci.name}.step"
                if not isinstance(out, Rec):
                    yield (f"{name} threads the constraint state", False, "step does not return a solution record", where, cfg)
                    continue
                lins = mcalls(out, "linearize", A("constraint"))
                aux_in, aux_out = state.fields["auxiliary"], out.fields["auxiliary"]

                def head(v):
                    return v[0] if isinstance(v, (tuple, list)) and v else v

                def is_in(st):
                    return st is aux_in or st is head(aux_in) or (isinstance(st, T.Term) and st.op == "getitem" and st.args[0] is aux_in and st.args[1] == 0)

                firsts = [ln for ln in lins if is_in(named(ln, "state"))]
                if len(firsts) != 1:
                    yield (f"{name} threads the constraint state", False, f"{len(firsts)} linearisations start from state.auxiliary (of {len(lins)})", where, cfg)
                    continue
                chain = [firsts[0]]
                rest = [ln for ln in lins if ln is not firsts[0]]
                while rest:
                    nxt = [ln for ln in rest if named(ln, "state") is T.mk("getitem", (chain[-1], 1))]
                    if len(nxt) != 1:
                        break
                    chain.append(nxt[0])
                    rest.remove(nxt[0])
                ok_chain = not rest
                last_state = T.mk("getitem", (chain[-1], 1))
                ok_out = head(aux_out) is last_state or aux_out is last_state
                detail = f"{len(lins)} linearisations chained: {ok_chain}; stored state {T.show(head(aux_out), 3)}"
                yield (f"{name} threads the constraint state", bool(ok_chain and ok_out), detail, where, cfg)


def fixed_grid_wiring_rules(chk, S):
    """solve_fixed_grid hands the caller's initial value, grid and damping to the solver: with an opaque solver the calls themselves are visible."""
    from ..harness import FIXED, events, mcalls

    r = chk.rule("R-C02-7", "solve_fixed_grid wiring: init(t=grid[0], u=u, damp=damp); every step(state=carry, dt=diff(grid)[k], damp=damp); output from (state0, stacked steps, resumed last state)", floor=3)
    it = S.interp()
    solver = T.atom("fixed_grid_solver")
    solver.meta["static_attrs"] = {"is_suitable_for_save_every_step": True}
    try:
        solve = it.call(it.function_value(FIXED + ".solve_fixed_grid"), [], {"solver": solver}, "<harness>")
        out = it.call(solve, [A("u")], {"grid": A("grid"), "damp": A("damp")}, "<harness>")
    except AnalysisError as e:
        r.unknown("solve_fixed_grid", f"not analysed: {e}", FIXED)
        return
    S.absorb(it)
    scans = events(it, "scan")
    if len(scans) != 1:
        r.unknown("solve_fixed_grid", f"{len(scans)} scans", FIXED)
        return
    sc = scans[0]
    inits = mcalls([sc["init"]], "init", solver)
    ok = len(inits) == 1 and sc["init"] is inits[0] and inits[0].kwargs.get("u") is A("u") and inits[0].kwargs.get("damp") is A("damp") and inits[0].kwargs.get("t") is T.mk("getitem", (A("grid"), 0))
    r.require(ok, "solve_fixed_grid initial state", "solver.init(t=grid[0], u=u, damp=damp)", f"{[T.show(m, 3) for m in inits]}", sc["site"])
    steps = mcalls([sc["new_carry"]], "step", solver)
    ok = len(steps) == 1 and sc["new_carry"] is steps[0] and steps[0].kwargs.get("state") is sc["carry"] and steps[0].kwargs.get("dt") is sc["x"] and steps[0].kwargs.get("damp") is A("damp") and sc["xs"] is T.mk("np.diff", (A("grid"),))
    r.require(ok, "solve_fixed_grid step", "solver.step(state=carry, dt=diff(grid)[k], damp=damp)", f"{[T.show(m, 3) for m in steps]}", sc["site"])
    ufo = mcalls([out], "userfriendly_output", solver)
    ok = len(ufo) == 1 and out is ufo[0] and ufo[0].kwargs.get("solution0") is sc["init"] and ufo[0].kwargs.get("solution") is sc["ys"]
    r.require(ok, "solve_fixed_grid output", "userfriendly_output(solution0=state0, solution=stacked steps, ...)", f"{T.show(out, 3)}", FIXED)


def run(chk, S: Session):
    _run_own(chk, S)
    fixed_grid_wiring_rules(chk, S)
    from ..harness import borrow

    rb = chk.rule("R-C02-B", "clauses of this statement decided by rules of C04 (calibration bookkeeping of the initial-constraint update), C17 (documented Jacobian block structure), C11 (observation damping) and C03 (calibrated covariances of the filter output)", floor=4)
    borrow(chk, S, rb, "C04", lambda r, c: r == "R-C04-2" and "init" in c)
    borrow(chk, S, rb, "C17", lambda r, c: r == "R-C17-1")
    # observation damping of every linearised model (C11) and the calibration of everything the filter returns, including the initial marginal (C03)
    borrow(chk, S, rb, "C11", lambda r, c: r == "R-C11-5" and ("damping" in c or "undamped" in c))
    borrow(chk, S, rb, "C03", lambda r, c: r == "R-C03-3" and "filter" in c)
    # an option passed to a constructor arrives in the attribute of its own name (the rules above read options through those attributes)
    from .ctor_wiring import ctor_wiring_rules

    rcw = chk.rule("R-C02-W", "constructor wiring of the three solver classes: every attribute that carries a constructor parameter's name holds that parameter, not another one", floor=10)
    ctor_wiring_rules(chk, S, rcw, [c.qualname for c in S.p.subclasses(SOLVERS + ".ProbabilisticSolver")])
