"""C18 -- initial step-size proposals are strictly positive and well defined."""

from __future__ import annotations

from .. import bounds as B
from .. import nf
from .. import terms as T
from ..harness import STEPINIT, A, Session, mcalls, where_of
from ..interp import RaiseSignal
from ..model import AnalysisError
from ..hdomain import Hom

EXPLANATION = (
    "Interval/sign analysis with guard refinement of the values returned by stepsize_initialisers.dt0 and dt0_adaptive "
    "(vector field opaque): every denominator is proven non-zero in the np.where branch that selects it and the returned "
    "step is proven strictly positive for every initial value and vector-field value (norms are only known to be >= 0), "
    "under the stated parameter assumptions; guard and wiring checks of the two-stage heuristic; and a homogeneity typing of dt0_adaptive "
    "in the unit of the state (y0, f(.), atol of degree 1): every +, -, max, min, comparison and selection combines equal degrees and the "
    "returned step is unit-free, i.e. all norms are tolerance-scaled as in Hairer-Norsett-Wanner II.4 (invariance under badly scaled states)."
    "  Overflow safety for badly scaled states: every Euclidean norm in both helpers is taken of a quantity of degree 0 in the state unit (tolerance-scaled, or divided by its largest magnitude), since jnp.linalg.norm squares its entries."
    "  Conformance with the classical heuristic: the value of dt0_adaptive equals the two-stage formula of Hairer-Norsett-Wanner II.4 (a)-(f) "
    "(built from the function's own inputs) modulo algebraic and logical rewriting -- constants, thresholds, exponent and the cap included."
)
LEVEL = "other"
TECHNIQUE = "abstract interpretation over the AST: sign/interval analysis with disjunctive guard refinement at np.where, must-pass-through guard tracking, value-numbering normal form, homogeneity-degree (unit) typing, canonical-form comparison with the specified formula"
LEVEL_TEXT = (
    "Positivity and non-zero denominators are derived for all inputs at once from the sign lattice (norm >= 0, nugget/atol/scale > 0), "
    "including u0 = 0 and f(u0) = 0, which the tests never sample."
)
LEVEL_NOTE = (
    "Assumes atol > 0, rtol >= 0, scale > 0, nugget > 0, error_contraction_rate >= 1 and finite inputs (no overflow reasoning: "
    "'a solve started with it finishes' is not decided).  The Hairer-Norsett-Wanner formula is compared with the Euclidean norm the helper uses "
    "(HNW's own norm divides by sqrt(n); which of the two an independent implementation takes is not decided here).  linalg.vector_norm >= 0 is trusted."
)


def divisions(x):
    return [t for t in T.subterms(x) if t.op == "div"]


def check_denominators(term, bb: B.Bounds, rule, construct, where, seen=None, ctx="", cfg=None):
    """Walk the value; every division's denominator must exclude 0 under the guards that select it."""
    seen = seen if seen is not None else set()
    results = []

    def walk(t, b, path, kpath=()):
        if not isinstance(t, T.Term):
            if isinstance(t, (list, tuple)):
                for e in t:
                    walk(e, b, path, kpath)
            return
        # one visit per (term, refinement context); the context is the sequence of (condition, polarity, disjunct) that led here
        # (not id(b.env): addresses are reused after collection, which made the walk skip contexts at random)
        key = (t.uid, kpath)
        if key in seen:
            return
        seen.add(key)
        if t.op in ("np.where", "ite"):
            c, x, y = t.args
            walk(c, b, path, kpath)
            for pol, v in ((True, x), (False, y)):
                for k, e2 in enumerate(B.refine_dnf(b, c, pol)):
                    if not e2.infeasible:
                        walk(v, b.sub(e2), path + [(T.show(c, 3), pol)], kpath + ((c.uid if isinstance(c, T.Term) else repr(c), pol, k),))
            return
        if t.op == "div":
            iv = b.iv(t.args[1])
            results.append((t, iv, iv.finite_nonzero, path))
        for a in t.args:
            walk(a, b, path, kpath)
        for a in t.kwargs.values():
            walk(a, b, path, kpath)

    walk(term, bb, [])
    return results


def state_uses(term, atom):
    """Operators that consume the (pytree) state ``atom`` directly: the helpers may only flatten it as a whole or hand it to the vector field."""
    uses = []

    def direct(v):
        if v is atom:
            return True
        if isinstance(v, (list, tuple)):
            return any(direct(x) for x in v)
        return False

    for t in T.subterms(term):
        if isinstance(t, T.Term) and t.op != "atom":
            if any(direct(a) for a in t.args) or any(direct(a) for a in t.kwargs.values()):
                uses.append(t)
    return uses


def whole_state_obligation(rule, fname, out, atom, where):
    uses = state_uses(out, atom)
    bad = [u for u in uses if not (u.op in ("tree.ravel", "unravel_of") or (u.op == "mcall" and len(u.args) > 1 and u.args[1] == "vector_field"))]
    rule.require(bool(uses) and not bad, f"{fname} consumes the whole pytree state", "the state is flattened as a whole (tree.ravel) or handed to the vector field; never indexed or split into leaves",
                 f"the state is consumed through {sorted({u.op for u in bad})}: {[T.show(u, 3) for u in bad[:2]]} -- a multi-leaf state would be measured by one leaf only", where_of(bad[0], where) if bad else where)
    norms = [t for t in T.subterms(out) if isinstance(t, T.Term) and t.op == "linalg.vector_norm"]
    for n in norms:
        kw = {k: v for k, v in n.kwargs.items() if k in ("order", "axis")}
        rule.require(not kw or all(v is None for v in kw.values()), f"{fname} norm {T.show(n, 2)}", "2-norm over all components", f"norm with options {kw}", where_of(n, where))


def norm_scale_free(rule, fname, out, hom, where):
    """jnp.linalg.norm squares its entries: a norm of a state-sized quantity overflows for |x| > 1e154 although the result would be representable."""
    norms = [t for t in T.subterms(out) if isinstance(t, T.Term) and t.op == "linalg.vector_norm"]
    if not norms:
        rule.unknown(f"{fname} norms", "no Euclidean norm found", where)
    for n in norms:
        d = hom.deg(n.args[0])
        rule.require(True if d in (0, "any") else (None if d is None else False), f"{fname} norm of {T.show(n.args[0], 2)}", f"argument has degree {d} in the state unit",
                     f"the Euclidean norm is taken of a quantity of degree {d} in the state unit: its squares overflow for badly scaled states (1e300) although the norm is representable", where_of(n, where))
        # jnp.linalg.norm squares its argument: the entries must be bounded, i.e. the vector divided by its own largest magnitude -- being free of the state unit
        # is not enough (f / tolerance is unit-free and still of order 1e160 for a fast field with tight tolerances)
        a = n.args[0]
        found = _self_normaliser(a)
        rule.require(found is not None, f"{fname} norm of {T.show(a, 2)} is taken of a self-normalised vector", "x divided by a scalar reduction of x",
                     f"the Euclidean norm is taken of {T.show(a, 3)}, whose entries are not bounded: tolerance-scaled values overflow when squared although the norm (and the step) are ordinary doubles", where_of(n, where))
        if found is not None:
            xz, core, m = found
            okm = isinstance(core, T.Term) and ((core.op == "np.amax" and isinstance(core.args[0], T.Term) and core.args[0].op == "np.abs" and nf.norm(core.args[0].args[0]) == xz)
                                                or (core.op == "linalg.vector_norm" and nf.norm(core.args[0]) == xz and str(core.kwargs.get("order")) in ("inf", "np.inf")))
            if m is not core and isinstance(m, T.Term) and m.op in ("np.where", "ite"):
                # the zero guard where(c, r, 1): r must be the divisor whenever r > 0 -- otherwise nothing is normalised where it matters.  Decided by refinement:
                # under r > 0 the negation of c is infeasible, and the other arm is a positive constant.
                c, a1, a2 = m.args
                bb = B.Bounds(B.Env())
                bb.env.assume_pos(core) if hasattr(bb.env, "assume_pos") else None
                sel_ok = None
                try:
                    pos = [e_ for e_ in B.refine_dnf(bb, T.mk("gt", (core, 0.0)), True) if not e_.infeasible]
                    sel_ok = bool(pos) and all(all(e2.infeasible for e2 in B.refine_dnf(bb.sub(e_), c, False)) for e_ in pos) and a1 is core
                except Exception:  # noqa: BLE001
                    sel_ok = None
                other_ok = isinstance(a2, (int, float)) and not isinstance(a2, bool) and a2 > 0
                rule.require((sel_ok and other_ok) if sel_ok is not None else None, f"{fname} zero guard of the normaliser of {nf.show(xz)[:60]}", "where(r > 0, r, positive constant): r itself is the divisor whenever it is positive",
                             f"the divisor is {T.show(m, 4)}: for a positive reduction the guard does not select it (or the other arm is not a positive constant), so badly scaled vectors are not normalised at all", where_of(n, where))
            rule.require(okm, f"{fname} normaliser of {nf.show(xz)[:60]}", "divided by its largest magnitude max|x_i|: every entry of the normalised vector lies in [-1, 1]",
                         f"the vector is divided by {T.show(m, 4)}, which does not bound the magnitude of every entry (a large negative entry is not seen by a signed maximum): the squares can overflow or the quotient can be 0/inf", where_of(n, where))


_REDUCTIONS = ("np.amax", "np.max", "np.amin", "np.min", "np.mean", "np.sum", "np.median", "linalg.vector_norm")


def _self_normaliser(a):
    """(normal form of x, reduction r(x), divisor m)  if  a == x / m  for a scalar m built from a reduction of x (zero-guard allowed), whatever the spelling
    (x / m, x * (1 / m), ...): multiplying a by m cancels every occurrence of m."""
    if not isinstance(a, T.Term):
        return None
    cands = []
    for t in T.subterms(a):
        if isinstance(t, T.Term) and t.op in _REDUCTIONS:
            cands.append((t, t))
    for t in T.subterms(a):
        if isinstance(t, T.Term) and t.op in ("np.where", "ite") and len(t.args) == 3 and isinstance(t.args[1], T.Term) and t.args[1].op in _REDUCTIONS:
            cands.append((t, t.args[1]))  # where(r > 0, r, 1): the guard of the all-zero vector
    # prefer the guarded form (it contains the bare reduction)
    for m, core in sorted(cands, key=lambda mc: -len(list(T.subterms(mc[0])))):
        z = nf.norm(T.mk("mul", (a, m)))
        if not any(x is m or x is core for mono in z for b, _e in mono for x in T.subterms(b)):
            return z, core, m
    return None


# ---------------------------------------------------------------------------
# R-C18-5: the value of dt0_adaptive *is* the two-stage formula of Hairer-Norsett-Wanner II.4.
# Both the source expression and the reference are brought into a canonical form in which
#   * arithmetic is a polynomial normal form (nf) over the non-arithmetic sub-expressions,
#   * comparisons are oriented (a < b == b > a), `&` / `|`, max and min are sets,
#   * max(a, b) <= c is the conjunction (a <= c) & (b <= c)  (and the dual forms),
# so that algebraic and logical rewritings of the same formula compare equal, and any other formula does not.
_ARITH_OPS = {"add", "sub", "mul", "div", "neg", "pow", "np.sqrt", "np.asarray", "np.power"}


def _safe_norm_arg(t):
    """z with  t == |z|_2  if t is a Euclidean norm times / divided by a provably non-negative scalar:  c |y| = |c y|  for c >= 0.
    This covers the overflow-safe spelling  m * |x / m|  with m = max|x_i| (1 for the zero vector) and its variants; else None."""
    if not isinstance(t, T.Term):
        return None

    def plain_norm(n):
        return isinstance(n, T.Term) and n.op == "linalg.vector_norm" and not {k: v for k, v in n.kwargs.items() if v is not None} and len(n.args) == 1

    def nonneg(c):
        iv = B.Bounds(B.Env()).iv(c)
        return iv is not None and (getattr(iv, "pos", False) or (iv.lo is not None and iv.lo >= 0))

    if t.op == "mul" and len(t.args) == 2:
        for c, nrm in (t.args, t.args[::-1]):
            if plain_norm(nrm) and not plain_norm(c) and isinstance(c, T.Term) and nonneg(c):
                z = T.mk("mul", (c, nrm.args[0]))
                # only the self-normalising spelling is folded: the scalar must cancel (otherwise c |y| is left as it is, one canonical form per value)
                if not any(x is c for x in T.subterms(nf.canon(z))):
                    return z
    return None


def _ckey(t, table):
    from fractions import Fraction

    n = nf._num(t)
    if n is not None:
        return ("num", n)
    if not isinstance(t, T.Term):
        return ("py", repr(t))
    sx = _safe_norm_arg(t)
    if sx is not None:
        return _ckey(T.mk("linalg.vector_norm", (sx,)), table)
    if t.op in _ARITH_OPS:
        # replace the maximal non-arithmetic sub-expressions by atoms named after their canonical key
        def repl(x):
            if nf._num(x) is not None or not isinstance(x, T.Term):
                return x
            if _safe_norm_arg(x) is not None:
                k = _ckey(x, table)
                if k not in table:
                    table[k] = T.atom(f"@{len(table)}")
                return table[k]
            if x.op in _ARITH_OPS:
                return T.mk(x.op, tuple(repl(a) for a in x.args), kwargs={k: repl(v) for k, v in x.kwargs.items()})
            k = _ckey(x, table)
            if k not in table:
                table[k] = T.atom(f"@{len(table)}")
            return table[k]

        poly = nf.norm(repl(t))
        return ("poly", frozenset((tuple((b.uid, e) for b, e in mono), c) for mono, c in poly.items()))
    if t.op in ("lt", "le", "gt", "ge") and len(t.args) == 2:
        a, b = t.args
        if t.op in ("gt", "ge"):
            a, b = b, a
        op = "lt" if t.op in ("lt", "gt") else "le"
        # max(x, y) <= c  ==  (x <= c) & (y <= c);   c <= min(x, y)  ==  (c <= x) & (c <= y)   (same for <)
        if isinstance(a, T.Term) and a.op == "np.maximum":
            return ("and", frozenset(_ckey(T.mk(op, (x, b)), table) for x in a.args))
        if isinstance(b, T.Term) and b.op == "np.minimum":
            return ("and", frozenset(_ckey(T.mk(op, (a, x)), table) for x in b.args))
        if isinstance(a, T.Term) and a.op == "np.minimum":
            return ("or", frozenset(_ckey(T.mk(op, (x, b)), table) for x in a.args))
        if isinstance(b, T.Term) and b.op == "np.maximum":
            return ("or", frozenset(_ckey(T.mk(op, (a, x)), table) for x in b.args))
        return (op, _ckey(a, table), _ckey(b, table))
    if t.op in ("and", "or", "np.logical_and", "np.logical_or") and len(t.args) == 2:
        kind = "and" if t.op.endswith("and") else "or"
        parts = set()
        for x in t.args:
            k = _ckey(x, table)
            if k[0] == kind:
                parts |= set(k[1])
            else:
                parts.add(k)
        return (kind, frozenset(parts))
    if t.op in ("np.maximum", "np.minimum") and len(t.args) == 2:
        parts = set()
        for x in t.args:
            k = _ckey(x, table)
            if k[0] == t.op:
                parts |= set(k[1])
            else:
                parts.add(k)
        return (t.op, frozenset(parts))
    if t.op in ("np.where", "ite") and len(t.args) == 3:
        return ("where", _ckey(t.args[0], table), _ckey(t.args[1], table), _ckey(t.args[2], table))
    if t.op == "atom":
        return ("atom", t.uid)

    def arg(x):
        if isinstance(x, (tuple, list)):
            return ("seq",) + tuple(arg(y) for y in x)
        return _ckey(x, table)

    return (t.op, tuple(arg(a) for a in t.args), tuple(sorted((k, arg(v)) for k, v in t.kwargs.items())))


def hnw_reference(y0, f0, f1, atol, rtol, rate):
    """Hairer, Norsett, Wanner: Solving ODEs I, Sec. II.4, 'Starting Step Size', steps a)-f), with the norm the helper uses."""
    m = T.mk
    sc = m("add", (atol, m("mul", (m("np.abs", (y0,)), rtol))))
    norm = lambda x: m("linalg.vector_norm", (x,))  # noqa: E731
    d0, d1 = norm(m("div", (y0, sc))), norm(m("div", (f0, sc)))
    h0 = m("np.where", (m("or", (m("lt", (d0, 1e-5)), m("lt", (d1, 1e-5)))), 1e-6, m("div", (m("mul", (0.01, d0)), d1))))
    d2 = m("div", (norm(m("div", (m("sub", (f1, f0)), sc))), h0))
    big = m("np.maximum", (d1, d2))
    h1 = m("np.where", (m("le", (big, 1e-15)), m("np.maximum", (1e-6, m("mul", (h0, 1e-3)))), m("pow", (m("div", (0.01, big)), m("div", (1.0, m("add", (rate, 1.0))))))))
    return m("np.minimum", (m("mul", (100.0, h0)), h1)), h0


def run(chk, S: Session):
    chk.assume("atol > 0, rtol >= 0, scale > 0, nugget > 0, error_contraction_rate >= 1, finite inputs")
    chk.trust("linalg.vector_norm(x) >= 0", "np.where(c, a, b) selects a where c holds and b elsewhere", "np.abs(x) >= 0")
    r1 = chk.rule("R-C18-1", "returned step > 0 and every denominator non-zero on the branch that selects it", floor=6)
    r2 = chk.rule("R-C18-2", "guards (jet-lifted fields, several initial values) and wiring of the second stage", floor=5)
    r4 = chk.rule("R-C18-4", "overflow safety for badly scaled states: every Euclidean norm is taken of a quantity that is free of the state unit (tolerance-scaled or divided by its largest magnitude)", floor=5)
    r3 = chk.rule("R-C18-3", "the tolerance-aware heuristic is homogeneous of degree 0 in the unit of the state (all norms tolerance-scaled): "
                  "every +, -, max, min, comparison and selection combines equal degrees", floor=8)
    m = S.p.module(STEPINIT)
    for fname in ("dt0", "dt0_adaptive"):
        if fname not in m.functions:
            raise AnalysisError(f"{STEPINIT}.{fname} not found (anchor vanished)")

    # ------------------------------------------------------------------- dt0
    it = S.interp()
    f = it.function_value(f"{STEPINIT}.dt0")
    vf = A("vf")
    scale, nugget = A("scale"), A("nugget")
    out = it.call(f, [vf, (A("u0"),)], {"scale": scale, "nugget": nugget, "t": A("t0")}, "<harness>")
    env = B.Env()
    env.assume(scale, B.Iv(0, B.INF, True, True))
    env.assume(nugget, B.Iv(0, B.INF, True, True))
    bb = B.Bounds(env)
    where = where_of(out, m.relpath)
    iv = bb.iv(out)
    r1.require(True if iv.pos else (False if not bb.unknown_ops else None), "dt0 return > 0", f"returned step in {iv}",
               f"dt0 returns {T.show(out, 6)} whose sign interval is {iv}: not strictly positive (e.g. for u0 = 0)", where)
    for t, div_iv, ok, path in check_denominators(out, bb, r1, "dt0", where):
        r1.require(True if ok else (False if not bb.unknown_ops else None), f"dt0 denominator {T.show(t.args[1], 3)}", f"denominator in {div_iv}",
                   f"denominator {T.show(t.args[1], 4)} has interval {div_iv} (may be zero)", where_of(t, where))
    g = [x for x in it.cur_guards if x["exc"] == "ValueError" and "vf" in T.atoms_of(x["cond"]) and any(t.op == "attr" and t.args[1] == "is_jet_lifted" for t in T.subterms(x["cond"]))]
    r2.require(bool(g), "dt0 rejects jet-lifted fields", "ValueError guard on vf.is_jet_lifted passed on every path", f"guards passed: {[T.show(x['cond'], 3) for x in it.cur_guards]}", where)
    vfc = mcalls(out, "vector_field", vf)
    r2.require(len(vfc) == 1 and vfc[0].kwargs.get("t") is A("t0"), "dt0 evaluates f at (u0, t0)", "one vector-field evaluation with the caller's kwargs", f"{[T.show(v, 3) for v in vfc]}", where)
    whole_state_obligation(r2, "dt0", out, A("u0"), where)
    norm_scale_free(r4, "dt0", out, Hom({T.mk("tree.ravel", (A("u0"),)): 1, A("u0"): 1, scale: 0, nugget: 0, A("t0"): 0}), where)
    chk.sample({"function": "dt0", "value": T.show(out, 6), "interval": str(iv)})
    S.absorb(it)

    # ---------------------------------------------------------- dt0_adaptive
    it = S.interp()
    f = it.function_value(f"{STEPINIT}.dt0_adaptive")
    atol, rtol, rate, t0 = A("atol"), A("rtol"), A("rate"), A("t0")
    out = it.call(f, [vf, (A("y0"),), t0], {"error_contraction_rate": rate, "rtol": rtol, "atol": atol}, "<harness>")
    env = B.Env()
    env.assume(atol, B.Iv(0, B.INF, True, True))
    env.assume(rtol, B.Iv(0, B.INF, False, True))
    env.assume(rate, B.Iv(1, B.INF, False, True))
    bb = B.Bounds(env)
    where = where_of(out, m.relpath)
    iv = bb.iv(out)
    r1.require(True if iv.pos else (False if not bb.unknown_ops else None), "dt0_adaptive return > 0", f"returned step in {iv}",
               f"dt0_adaptive returns a value with sign interval {iv}: not strictly positive", where)
    dens = check_denominators(out, bb, r1, "dt0_adaptive", where)
    if len(dens) < 4:
        raise AnalysisError(f"dt0_adaptive: only {len(dens)} divisions found; expected >= 4 (anchor changed)")
    for t, div_iv, ok, path in dens:
        r1.require(True if ok else (False if not bb.unknown_ops else None), f"dt0_adaptive denominator {T.show(t.args[1], 3)} under {path}", f"denominator in {div_iv}",
                   f"denominator {T.show(t.args[1], 4)} has interval {div_iv} (may be zero) under guards {path}", where_of(t, where))
    g = [x for x in it.cur_guards if x["exc"] == "ValueError" and any(t.op == "attr" and t.args[1] == "is_jet_lifted" for t in T.subterms(x["cond"]))]
    r2.require(bool(g), "dt0_adaptive rejects jet-lifted fields", "ValueError guard on vf.is_jet_lifted", f"guards passed: {[T.show(x['cond'], 3) for x in it.cur_guards]}", where)
    # second stage: f(y0 + dt0*f0, t0 + dt0)
    vfc = mcalls(out, "vector_field", vf)
    ok = False
    detail = f"{len(vfc)} vector-field evaluations"
    if len(vfc) == 2:
        first = next((c for c in vfc if c.kwargs.get("t") is t0), None)
        second = next((c for c in vfc if c is not first), None)
        if first is not None and second is not None:
            f0 = T.mk("tree.ravel", (T.mk("getitem", (first, 0)),))
            y0 = T.mk("tree.ravel", (A("y0"),))
            tt = second.kwargs.get("t")
            dt_first = nf.add(nf.norm(tt), nf.norm(t0), -1)
            jc = second.kwargs.get("jet_coords")
            arg = None
            if isinstance(jc, (tuple, list)) and len(jc) == 1 and isinstance(jc[0], T.Term) and jc[0].op == "call":
                arg = jc[0].args[1]
            ok = arg is not None and nf.add(nf.norm(arg), nf.norm(y0), -1) == nf.mul(dt_first, nf.norm(f0)) and bool(dt_first)
            detail = f"second evaluation at state {T.show(arg, 4)}, time {T.show(tt, 4)}"
    r2.require(ok, "dt0_adaptive second stage", "f evaluated at (y0 + dt0*f0, t0 + dt0) with the same dt0", detail, where)
    # the value is the two-stage formula (the second evaluation is taken as found: its arguments are the obligation above)
    r5 = chk.rule("R-C18-5", "the tolerance-aware helper returns the two-stage formula of Hairer-Norsett-Wanner II.4 (a)-(f): d0, d1 in the tolerance-scaled norm, "
                  "h0 = 0.01 d0/d1 (1e-6 if d0 or d1 < 1e-5), d2 = |f(t0+h0, y0+h0 f0) - f0| / h0, h1 = (0.01/max(d1,d2))^(1/(p+1)) (max(1e-6, 1e-3 h0) if max(d1,d2) <= 1e-15), h = min(100 h0, h1); "
                  "compared modulo algebraic and logical rewriting", floor=1)
    if len(vfc) == 2 and first is not None and second is not None:
        f1 = T.mk("tree.ravel", (T.mk("getitem", (second, 0)),))
        ref, _h0 = hnw_reference(y0, f0, f1, atol, rtol, rate)
        table = {}
        same = _ckey(out, table) == _ckey(ref, table)
        r5.require(same, "dt0_adaptive value", "equals min(100 h0, h1) of HNW II.4", f"dt0_adaptive returns {T.show(out, 7)}; the reference is {T.show(ref, 7)}", where)
    else:
        r5.unknown("dt0_adaptive value", "the two vector-field evaluations were not found", where)
    # homogeneity in the state unit: y0, f(.) and atol carry the unit of the state; rtol, the rate, times and literals do not.
    # Hairer-Norsett-Wanner II.4 measures y0, f0 and f1 - f0 in the norm scaled by sc = atol + |y0| rtol, so the step is unchanged by y -> c*y.
    hom = Hom({T.mk("tree.ravel", (A("y0"),)): 1, A("y0"): 1, atol: 1, rtol: 0, rate: 0, t0: 0})
    d_out = hom.deg(out)
    n_checked = sum(1 for t in T.subterms(out) if isinstance(t, T.Term) and t.op in ("add", "sub", "np.maximum", "np.minimum", "lt", "le", "gt", "ge", "np.where", "ite", "pow"))
    bad = {id(t) for t, _ in hom.errors}
    for t in T.subterms(out):
        if isinstance(t, T.Term) and t.op in ("add", "sub", "np.maximum", "np.minimum", "lt", "le", "gt", "ge", "np.where", "ite", "pow") and id(t) not in bad:
            d = hom.memo.get(t.uid)
            r3.require(True if (d is not None) else None, f"dt0_adaptive {t.op} {T.show(t, 2)}", f"operands agree, degree {d}", f"degree not derived ({hom.unknown[:3]})", where_of(t, where))
    for t, msg in hom.errors:
        r3.fail(f"dt0_adaptive homogeneity at {t.op}", msg + " -- the proposal changes when the problem is rescaled (y, f, atol) -> (c y, c f, c atol)", where_of(t, where))
    r3.require(True if d_out in (0,) else (None if d_out is None else False), "dt0_adaptive returned step is free of the state unit", f"degree {d_out}",
               f"returned step has degree {d_out} in the state unit" + (f" (not derived: {hom.unknown[:3]})" if d_out is None else ""), where)
    whole_state_obligation(r2, "dt0_adaptive", out, A("y0"), where)
    norm_scale_free(r4, "dt0_adaptive", out, Hom({T.mk("tree.ravel", (A("y0"),)): 1, A("y0"): 1, atol: 1, rtol: 0, rate: 0, t0: 0}), where)
    # several initial values are rejected
    it2 = S.interp()
    f2 = it2.function_value(f"{STEPINIT}.dt0_adaptive")
    try:
        it2.call(f2, [vf, (A("y0"), A("dy0")), t0], {"error_contraction_rate": rate, "rtol": rtol, "atol": atol}, "<harness>")
        r2.fail("dt0_adaptive rejects several initial values", "no exception for two initial values", where)
    except RaiseSignal as r:
        r2.require(getattr(r.exc, "cls_name", "") == "ValueError", "dt0_adaptive rejects several initial values", "ValueError", f"raises {r.exc}", r.site)
    chk.sample({"function": "dt0_adaptive", "interval": str(iv), "denominators": [f"{T.show(t.args[1], 3)} in {d}" for t, d, _o, _p in dens][:6]})
    S.absorb(it)
    S.absorb(it2)
