"""C05 -- checkpoint independence / exact interpolation (structural clauses)."""

from __future__ import annotations

from .. import nf
from .. import tdomain as TD
from .. import terms as T
from ..harness import ADAPT, EST, SOLVERS, A, PrimV, Rec, Session, call, mcalls, method, rec_of_atoms, where_of
from ..interp import _MISSING, HarnessFn
from ..model import AnalysisError
from ..tscen import PS, STRATEGIES, make_solver, make_strategy, posterior_types, typed_solution
from .c06 import make_loop

EXPLANATION = (
    "Provenance/identity + Markov time typestate of the interpolation machinery, for every solver class x strategy: "
    "(1) checkpoint transparency -- interpolation passes everything a later step reads (dt, controller and error state, and of the "
    "resume state t, u, output_scale, auxiliary, num_steps, fun_evals, prior and the posterior marginal) through unchanged, and a step's new "
    "marginal never reads a smoother's backward model: a superset of checkpoints cannot change the step sequence; "
    "(2) interpolation wiring as a typestate invariant of TimeStepState per strategy: the report at a checkpoint t is a marginal at t whose "
    "backward model points to the previous anchor, the resume state keeps its marginal at T and gets the backward model C[T -> t], the new "
    "left state sits at t; both transitions take the output scale of the right end; (3) terminal-values routine = last entry of the checkpointed "
    "routine on save_at = [t0, t1]; (4) off-grid marginals use the neighbours index-1 / index, the right output scale and the smoothed marginal at the right end."
)
LEVEL = "other"
TECHNIQUE = "abstract interpretation over the AST: provenance/identity dataflow of record fields, Markov time typestate with symbolic time labels, class-hierarchy analysis over solvers and strategies"
LEVEL_TEXT = (
    "The structural reason for checkpoint independence (interpolation is invisible to the stepping state) is decided for all step histories and checkpoint layouts; "
    "numerical equality of subset/superset runs relies on identical floating-point evaluation and is not claimed."
)
LEVEL_NOTE = "Trusted: typing rules of the opaque state-space methods (tdomain.py); np.searchsorted returns the right neighbour's index for off-grid points (documented precondition)."

KEEP = ("t", "u", "output_scale", "auxiliary", "num_steps", "fun_evals", "prior")


def marg_of(sf):
    return sf.fields["marginal"] if isinstance(sf, Rec) and "marginal" in sf.fields else sf


def cond_of(sf):
    return sf.fields["conditional"] if isinstance(sf, Rec) and "conditional" in sf.fields else None


def run(chk, S: Session):
    chk.trust("typing rules of tdomain.py", "np.searchsorted(a, t): index of the right neighbour of an off-grid t")
    r1 = chk.rule("R-C05-1", "checkpoint transparency: interpolation leaves the stepping state untouched; a step's marginal does not read the backward model", floor=100)
    r2 = chk.rule("R-C05-2", "interpolation wiring: typestate of reported / resume / left states per strategy; transitions and output scale", floor=60)
    r3 = chk.rule("R-C05-3", "solve_adaptive_terminal_values = last entry of solve_adaptive_save_at on [t0, t1] with all arguments forwarded", floor=6)
    r4 = chk.rule("R-C05-4", "offgrid_marginals: neighbours index-1 / index, right output scale, smoothed right marginal, typed interpolation", floor=10)
    solvers = [c.name for c in S.p.subclasses(SOLVERS + ".ProbabilisticSolver")]
    if len(solvers) < 3:
        raise AnalysisError("expected >= 3 solver classes")
    for sname in solvers:
        for strategy in STRATEGIES:
            cfg = {"solver": sname, "strategy": strategy}
            it = S.interp()
            solver = make_solver(it, sname, strategy)
            loop = make_loop(it, False, solver=solver)
            env = TD.TEnv()
            anchor = A("anchor")
            t_chk = A("t_chk")
            sfrom = typed_solution(it, env, strategy, "step_from", anchor=anchor if strategy.endswith("fixedpoint") else A("interp_from.t"))
            ifrom = typed_solution(it, env, strategy, "interp_from", anchor=anchor if strategy.endswith("fixedpoint") else A("prev"))
            state = rec_of_atoms(it, ADAPT + ".TimeStepState", "s", {"step_from": sfrom, "interp_from": ifrom})
            T_, s_ = sfrom.fields["t"], ifrom.fields["t"]
            for arm in ("interp_beyond_t1", "interp_at_t1", "interp_skip"):
                try:
                    res = call(it, method(it, loop, arm), (state, t_chk))
                except AnalysisError as e:
                    r1.unknown(f"{arm} [{sname} x {strategy}]", str(e), config=cfg)
                    continue
                sol, ns = res
                name = f"RejectionLoop.{arm}"
                where = ADAPT
                # ---- R1: transparency
                for f in ("dt", "control", "error_step_from"):
                    r1.require(ns.fields[f] is state.fields[f], f"{name} {f}", "passed through", f"{f} -> {T.show(ns.fields[f], 3)}", where, {**cfg, "arm": arm})
                nsf = ns.fields["step_from"]
                if not isinstance(nsf, Rec):
                    r1.fail(f"{name} step_from", f"not a solution record: {T.show(nsf, 2)}", where, {**cfg, "arm": arm})
                    continue
                for f in KEEP:
                    r1.require(nsf.fields[f] is sfrom.fields[f], f"{name} step_from.{f}", "resume state keeps this field", f"step_from.{f} -> {T.show(nsf.fields[f], 3)}", where, {**cfg, "arm": arm})
                r1.require(marg_of(nsf.fields["solution_full"]) is marg_of(sfrom.fields["solution_full"]), f"{name} step_from posterior marginal", "resume state keeps its posterior marginal",
                           f"-> {T.show(marg_of(nsf.fields['solution_full']), 3)}", where, {**cfg, "arm": arm})
                if arm == "interp_skip":
                    r1.require(ns is state and sol is sfrom, f"{name} identity", "nothing happens before the checkpoint", "", where, {**cfg, "arm": arm})
                    continue
                # ---- R2: typestate
                nif = ns.fields["interp_from"]
                t_rep = t_chk if arm == "interp_beyond_t1" else T_
                r2.require(sol.fields["t"] is t_rep, f"{name} reported time", f"t = {T.show(t_rep)}", f"t = {T.show(sol.fields['t'])}", where, {**cfg, "arm": arm})
                mt, ct = posterior_types(env, sol.fields["solution_full"])
                ut = env.of(sol.fields["u"])
                r2.require(mt is not None and TD.same(mt[1], t_rep), f"{name} reported posterior", f"{TD.show_type(mt)}", f"reported posterior marginal has type {TD.show_type(mt)}; expected N@{T.show(t_rep)}", where, {**cfg, "arm": arm})
                r2.require(ut is not None and TD.same(ut[1], t_rep), f"{name} reported u", f"{TD.show_type(ut)}", f"reported u has type {TD.show_type(ut)}", where, {**cfg, "arm": arm})
                if strategy != "strategy_filter":
                    if arm == "interp_beyond_t1":
                        want_anchor = anchor if strategy.endswith("fixedpoint") else s_
                    else:
                        want_anchor = anchor if strategy.endswith("fixedpoint") else s_
                    r2.require(ct is not None and ct[0] == "C" and TD.same(ct[1], t_rep) and TD.same(ct[2], want_anchor), f"{name} reported backward model", f"{TD.show_type(ct)}",
                               f"reported backward model has type {TD.show_type(ct)}; expected C[{T.show(t_rep)} -> {T.show(want_anchor)}]", where, {**cfg, "arm": arm})
                    _m, c_new = posterior_types(env, nsf.fields["solution_full"])
                    if arm == "interp_beyond_t1":
                        okc = c_new is not None and c_new[0] == "C" and TD.same(c_new[1], T_) and TD.same(c_new[2], t_chk)
                        r2.require(okc, f"{name} resume backward model", f"{TD.show_type(c_new)}", f"resume state's backward model has type {TD.show_type(c_new)}; expected C[T -> t]", where, {**cfg, "arm": arm})
                    else:
                        okc = c_new is not None and (c_new[0] == "CI" or (c_new[0] == "C" and TD.same(c_new[1], T_) and TD.same(c_new[2], T_)))
                        r2.require(okc, f"{name} resume backward model", f"{TD.show_type(c_new)}", f"after landing on a checkpoint the resume state's backward model has type {TD.show_type(c_new)}; expected the identity at T", where, {**cfg, "arm": arm})
                mi, ci_ = posterior_types(env, nif.fields["solution_full"])
                t_left = t_chk if arm == "interp_beyond_t1" else T_
                if strategy.endswith("fixedpoint"):
                    # common-anchor invariant of the fixed-point smoother: after a report at t both states are anchored at t,
                    # i.e. the new left state carries a unit backward model (else the next report in the same step points to the old anchor)
                    oki = ci_ is not None and (ci_[0] == "CI" or (ci_[0] == "C" and TD.same(ci_[1], t_left) and TD.same(ci_[2], t_left)))
                    r2.require(oki, f"{name} new left state's backward model", f"{TD.show_type(ci_)}", f"after a report at {T.show(t_left)} the new interp_from carries the backward model {TD.show_type(ci_)}; expected the identity (anchor = last reported checkpoint)", where, {**cfg, "arm": arm})
                r2.require(nif.fields["t"] is t_left and mi is not None and TD.same(mi[1], t_left), f"{name} new left state", f"left state at {T.show(t_left)}: {TD.show_type(mi)}",
                           f"new interp_from has t = {T.show(nif.fields['t'])} and marginal {TD.show_type(mi)}; expected {T.show(t_left)}", where, {**cfg, "arm": arm})
                r2.require(not env.errors, f"{name} time typing", "no conditional applied at the wrong time", f"{env.errors[:2]}", where, {**cfg, "arm": arm})
                env.errors.clear()
                if arm == "interp_beyond_t1":
                    trs = mcalls(res, "transition")
                    dts = sorted(nf.show(nf.norm(tr.kwargs.get("dt"))) for tr in trs)
                    want = sorted([nf.show(nf.add(nf.norm(t_chk), nf.norm(s_), -1)), nf.show(nf.add(nf.norm(T_), nf.norm(t_chk), -1))])
                    r2.require(dts == want or (strategy == "strategy_filter" and set(dts) <= set(want) and (want[0] in dts or want[1] in dts)), f"{name} transitions", f"dt in {want}", f"transition steps {dts}; expected {want}", where, {**cfg, "arm": arm})
                    r2.require(all(tr.kwargs.get("output_scale") is sfrom.fields["output_scale"] for tr in trs) and all(tr.args[0] is ifrom.fields["prior"] for tr in trs), f"{name} output scale", "output scale of the right end (domain (t0, t1])",
                               f"{[T.show(tr.kwargs.get('output_scale')) for tr in trs]}", where, {**cfg, "arm": arm})
                    for f in ("output_scale", "auxiliary", "num_steps", "fun_evals", "prior"):
                        r2.require(sol.fields[f] is sfrom.fields[f], f"{name} reported {f}", "taken from the right end", f"{T.show(sol.fields[f], 2)}", where, {**cfg, "arm": arm})
                if len(chk.samples) < 4 and arm == "interp_beyond_t1":
                    chk.sample({"config": cfg, "reported": TD.show_type(mt), "reported_backward": TD.show_type(ct), "resume_backward": TD.show_type(posterior_types(env, nsf.fields['solution_full'])[1])})
            # ---- R1b: the marginal of a new step does not read the backward model
            step_state = typed_solution(it, env, strategy, "state")
            out = call(it, method(it, solver, "step"), state=step_state, dt=A("dt"), damp=A("damp"))
            c_atom = cond_of(step_state.fields["solution_full"])
            if c_atom is not None:
                dep_u = T.atom_name(c_atom) in T.atoms_of(out.fields["u"])
                dep_m = T.atom_name(c_atom) in T.atoms_of(marg_of(out.fields["solution_full"]))
                dep_aux = any(T.atom_name(c_atom) in T.atoms_of(out.fields[f]) for f in ("output_scale", "auxiliary", "fun_evals", "t", "num_steps"))
                r1.require(not (dep_u or dep_m or dep_aux), f"{sname}.step independent of the backward model [{strategy}]", "new marginal / scale / cached linearisation do not read the backward conditional",
                           "the step reads the smoother's backward model: checkpoints (which rewrite it) would change the solution", SOLVERS, cfg)
            S.absorb(it)
    terminal_rules(chk, S, r3)
    offgrid_rules(chk, S, r4)
    # what offgrid_marginals starts from -- the filtering distributions and backward models of the finished solve -- must carry the same calibration as
    # the scale it discretises with: the finalisation obligations of C03 (its rule functions are called directly: C03 borrows from this check)
    from . import c03

    r5 = chk.rule("R-C05-5", "the finished solve that offgrid_marginals interpolates is calibrated as a whole: finalize rescales marginals, backward models and filtering distributions "
                  "of posterior0 / posterior / posterior1 with the same output scale (rule functions of C03)", floor=8)
    c03.finalize_rules(chk, S, chk.rule("R-C05-5a", "finalize typing (auxiliary to R-C05-5; decided in C03 as R-C03-1)", floor=0), r5)


    # "checkpoints separated by less than eps" (zero included): the interpolating transition must not have length zero (zone facts of C06's bracket rule,
    # called directly: C06 borrows from this check)
    from . import c06

    r6 = chk.rule("R-C05-6", "checkpoints closer than eps, equal ones included: the transition from the left bracket to the checkpoint has positive length on every path that interpolates "
                  "beyond the checkpoint (the preconditioner holds dt^-k)", floor=9)
    c06.zero_length_interpolation_rules(S, r6)
    # "agree with after-the-fact off-grid marginals of a save-every-step run": offgrid_marginals rebuilds its transitions with solution.output_scale, so the
    # scale a finished run reports must be the one its posterior was calibrated with (rule function of C04, called directly: C04 -> C03 -> this check)
    from ..harness import Filtered
    from . import c04

    r7 = chk.rule("R-C05-7", "the output scale a finished run reports is the calibrated one -- the scale handed to finalize, broadcast over time (MLE), the per-step scales (dynamic), ones "
                  "(uncalibrated): off-grid marginals are rebuilt with it (rule function of C04)", floor=4)
    c04.output_rules(chk, S, Filtered(None, lambda c: False), Filtered(r7, lambda c: c.endswith("reported scale") or c.endswith("calibrated scale")))
    # an option passed to a constructor arrives in the attribute of its own name (the rules above read options through those attributes)
    from .ctor_wiring import ctor_wiring_rules

    rcw = chk.rule("R-C05-W", "constructor wiring of the rejection loop: every attribute that carries a constructor parameter's name holds that parameter, not another one", floor=5)
    ctor_wiring_rules(chk, S, rcw, [ADAPT + ".RejectionLoop"])

def terminal_rules(chk, S, r3):
    it = S.interp()
    captured = {}

    def hook(itp, fn, a, kw, site):
        captured["ctor"] = (a, kw)

        def solve_save_at(itp2, a2, kw2, site2):
            # bind positional arguments by the signature of the real inner solve(u, save_at, atol, rtol, dt0, eps, damp)
            import ast as _ast

            outer = itp2.p.module(ADAPT).functions["solve_adaptive_save_at"]
            inner = next((n for n in _ast.walk(outer) if isinstance(n, _ast.FunctionDef) and n.name == "solve"), None)
            names = [p_.arg for p_ in (inner.args.posonlyargs + inner.args.args)] if inner is not None else []
            bound = dict(kw2)
            for nm, v in zip(names, a2):
                bound.setdefault(nm, v)
            captured["call"] = (a2, bound)
            return A("solution")

        return HarnessFn("solve_save_at", solve_save_at)

    it.method_hooks[ADAPT + ".solve_adaptive_save_at"] = hook
    mk = it.function_value(ADAPT + ".solve_adaptive_terminal_values")
    args = dict(solver=A("solver"), error=A("error"), control=A("control"), clip_dt=A("clip"), while_loop=A("wl"))
    solve = it.call(mk, [], args, "<harness>")
    ctor = captured.get("ctor")
    ok = ctor is not None and all(ctor[1].get(k) is v for k, v in args.items()) and ctor[1].get("warn") is False
    r3.require(ok, "solve_adaptive_terminal_values constructor", "forwards solver, error, control, clip_dt, while_loop; warn=False", f"{T.show(ctor, 3)}", ADAPT)
    kw = dict(t0=A("t0"), t1=A("t1"), atol=A("atol"), rtol=A("rtol"), dt0=A("dt0"), eps=A("eps"), damp=A("damp"))
    out = it.call(solve, [A("u")], kw, "<harness>")
    c = captured.get("call")
    ok = c is not None and c[0] and c[0][0] is A("u")
    r3.require(ok, "solve_adaptive_terminal_values forwards u", "", f"{T.show(c, 3)}", ADAPT)
    if c is not None:
        sa = c[1].get("save_at")
        oks = isinstance(sa, T.Term) and sa.op == "np.asarray" and list(sa.args[0]) == [A("t0"), A("t1")]
        r3.require(oks, "solve_adaptive_terminal_values save_at", "save_at = [t0, t1]", f"save_at = {T.show(sa, 3)}", ADAPT)
        for k in ("atol", "rtol", "dt0", "eps", "damp"):
            r3.require(c[1].get(k) is kw[k], f"solve_adaptive_terminal_values forwards {k}", "", f"{k} = {T.show(c[1].get(k))}", ADAPT)
    okl = isinstance(out, T.Term) and out.op == "tree.tree_map" and out.args[1] is A("solution") and isinstance(out.args[0], T.Term) and out.args[0].op == "lam" and isinstance(out.args[0].args[1], T.Term) and out.args[0].args[1].op == "getitem" and out.args[0].args[1].args[1] == -1
    # The blanket form `tree_map(lambda s: s[-1], solution)` is what the pinned tree does; it is NOT required (it is wrong for leaves without a
    # checkpoint axis, see terminal_axis_rules).  Any other way of taking the terminal entry is not decided here: inconclusive, never a violation.
    if okl:
        r3.ok("solve_adaptive_terminal_values result", "the last entry of every leaf of the checkpointed solution (decided per leaf below)", ADAPT)
        terminal_axis_rules(chk, S, r3)
    else:
        blanket = isinstance(out, T.Term) and out.op == "tree.tree_map" and out.args[1] is A("solution") and isinstance(out.args[0], T.Term) and out.args[0].op == "lam" \
            and isinstance(out.args[0].args[1], T.Term) and out.args[0].args[1].op == "getitem" and isinstance(out.args[0].args[1].args[1], int)
        if blanket:
            r3.fail("solve_adaptive_terminal_values result", f"entry {out.args[0].args[1].args[1]} of every leaf is returned; the terminal value is the last one", ADAPT)
        else:
            r3.unknown("solve_adaptive_terminal_values result", f"the terminal entry is taken in a form this rule does not analyse: {T.show(out, 4)}", ADAPT)
    S.absorb(it)


def _has_checkpoint_axis(t):
    """Batch-axis propagation: does this value carry the leading checkpoint axis of the stacked reports (`solution.*` atoms)?"""
    if isinstance(t, (list, tuple)):
        return any(_has_checkpoint_axis(x) for x in t)
    if not isinstance(t, T.Term):
        return False
    if T.is_atom(t):
        return T.atom_name(t).startswith("solution.")
    if t.op == "getitem":
        idx = t.args[1]
        first = idx[0] if isinstance(idx, tuple) and idx else idx
        if isinstance(first, int) and not isinstance(first, bool):
            return False  # an integer index removes the leading axis
        if first is None:
            return True  # x[None]: a new leading axis
        return _has_checkpoint_axis(t.args[0])
    if t.op in ("np.concatenate", "tree_concat", "tree.tree_array_prepend", "np.stack", "lift"):
        return True
    if t.op in ("mcall", "attr"):
        return _has_checkpoint_axis(t.args[0])  # methods of the Gaussian interface act per time point: the receiver decides
    return any(_has_checkpoint_axis(x) for x in t.args) or any(_has_checkpoint_axis(x) for x in t.kwargs.values())


def terminal_axis_rules(chk, S, r3):
    """`tree_map(lambda s: s[-1], solution)` is 'the last entry of the checkpointed routine' only for leaves that carry the checkpoint axis;
    on any other array leaf it slices a state axis and corrupts the value."""
    bad: dict = {}
    n_ok = 0
    for sname in ("solver", "solver_mle", "solver_dynamic"):
        for strategy in STRATEGIES:
            it = S.interp()
            solver = make_solver(it, sname, strategy)
            it.method_hooks[EST + ".MarkovSequence.evaluate_marginals"] = lambda itp, fn, a, kw, site: A("solution.evaluated_marginals")
            env = TD.TEnv()
            s0, s, s1 = (typed_solution(it, env, strategy, p_) for p_ in ("solution0", "solution", "solution1"))
            s.fields["t"] = T.atom("solution.t", ndims={"": 1})
            s.fields["t"].meta["ndim"] = 1
            if sname == "solver_mle":
                s1.fields["auxiliary"] = (A("solution1.lin"), A("solution1.running"), A("solution1.n"))
                s.fields["auxiliary"] = (A("solution.lin"), A("solution.running"), A("solution.n"))
            cfg = {"solver": sname, "strategy": strategy}
            try:
                out = call(it, method(it, solver, "userfriendly_output"), solution0=s0, solution=s, solution1=s1)
            except AnalysisError as e:
                r3.unknown(f"terminal values of {sname} + {strategy}", f"userfriendly_output not analysed: {e}", SOLVERS, cfg)
                continue
            S.absorb(it)
            leaves = {}

            def walk(v, path):
                if isinstance(v, Rec):
                    for k_, x in v.fields.items():
                        walk(x, f"{path}.{k_}")
                elif isinstance(v, (tuple, list)):
                    for i_, x in enumerate(v):
                        walk(x, f"{path}[{i_}]")
                elif isinstance(v, T.Term):
                    leaves[path] = v

            walk(out, "solution")
            mine = [p_ for p_, v in leaves.items() if not _has_checkpoint_axis(v)]
            for p_ in mine:
                bad.setdefault(p_, []).append(f"{sname} + {strategy}")
            if not mine:
                n_ok += 1
                r3.ok(f"terminal values of {sname} + {strategy}", f"all {len(leaves)} array leaves of the checkpointed solution carry the checkpoint axis", SOLVERS, cfg)
    for p_, cfgs in sorted(bad.items()):
        fams = sorted({c_.split(" + ")[1] for c_ in cfgs})
        r3.fail(f"terminal values take the last entry of {p_}, which has no checkpoint axis [{', '.join(fams)}]",
                f"`tree_map(lambda s: s[-1], solution)` also indexes {p_} (configurations: {cfgs}); that leaf is a single state (built from solution1 only), so s[-1] slices its state axis: "
                "the terminal solution_full is not the last entry of the checkpointed routine and posterior.evaluate_marginals() fails on it", ADAPT)


def offgrid_rules(chk, S, r4):
    for sname, strategy in [(sn, st) for sn in ("solver", "solver_mle", "solver_dynamic") for st in ("strategy_filter", "strategy_smoother_fixedinterval")]:
        cfg = {"strategy": strategy, "solver": sname}
        it = S.interp()
        solver = make_solver(it, sname, strategy)
        strategy = strategy if sname == "solver" else f"{strategy}, {sname}"
        sol = rec_of_atoms(it, PS, "solution")
        t = A("t")
        try:
            est = call(it, method(it, solver, "offgrid_marginals"), t, solution=sol)
        except AnalysisError as e:
            r4.unknown(f"offgrid_marginals [{strategy}]", str(e), config=cfg)
            continue
        S.absorb(it)
        idx = T.mk("np.searchsorted", (sol.fields["t"], t))

        def pick(leaf, offset):
            want = idx if offset == 0 else T.mk("sub", (idx, 1))
            return [x for x in T.subterms(est) if x.op == "tree.tree_map" and x.args[-1] is leaf and isinstance(x.args[0], T.Term) and x.args[0].op == "lam" and _lam_index(x.args[0]) is not None and nf.equal(_lam_index(x.args[0]), want)]

        is_filter = strategy.startswith("strategy_filter")  # a filter estimate is the prediction from the left neighbour only
        trs = mcalls(est, "transition")
        r4.require(len(trs) == (1 if is_filter else 2), f"offgrid_marginals transitions [{strategy}]", "prediction from the left (filter) / left and right transitions (smoother)", f"{len(trs)}", SOLVERS, cfg)
        t0s, t1s = pick(sol.fields["t"], -1), pick(sol.fields["t"], 0)
        ok = len(t0s) == 1 and (is_filter or len(t1s) == 1)
        if ok:
            want = [nf.show(nf.add(nf.norm(t), nf.norm(t0s[0]), -1))]
            if not is_filter:
                want.append(nf.show(nf.add(nf.norm(t1s[0]), nf.norm(t), -1)))
            got = sorted(nf.show(nf.norm(tr.kwargs.get("dt"))) for tr in trs)
            r4.require(got == sorted(want), f"offgrid_marginals step sizes [{strategy}]", "dt = t - t[index-1] (and t[index] - t)", f"{got} vs {sorted(want)}", SOLVERS, cfg)
        else:
            r4.fail(f"offgrid_marginals neighbours [{strategy}]", f"left/right times not found: {len(t0s)}/{len(t1s)}", SOLVERS, cfg)
        osc = pick(sol.fields["output_scale"], 0)
        r4.require(len(osc) == 1 and all(tr.kwargs.get("output_scale") is osc[0] for tr in trs), f"offgrid_marginals output scale [{strategy}]", "output scale of the right neighbour", f"{[T.show(tr.kwargs.get('output_scale'), 3) for tr in trs]}", SOLVERS, cfg)
        pr = pick(sol.fields["prior"], -1)
        r4.require(len(pr) == 1 and all(tr.args[0] is pr[0] for tr in trs), f"offgrid_marginals prior [{strategy}]", "prior of the left neighbour", "", SOLVERS, cfg)
        post0 = pick(sol.fields["solution_full"], -1)
        u1 = pick(sol.fields["u"], 0)
        r4.require(len(post0) == 1 and (is_filter or len(u1) == 1), f"offgrid_marginals neighbours [{strategy}]", "posterior at index-1, smoothed marginal u at index", f"{len(post0)}/{len(u1)}", SOLVERS, cfg)
        if is_filter and len(post0) == 1 and len(t0s) == 1:
            env = TD.TEnv()
            env.declare(post0[0], ("N", t0s[0]))
            te = env.of(est)
            r4.require(te is not None and TD.same(te[1], t) and not env.errors, f"offgrid_marginals typing [{strategy}]", f"estimate {TD.show_type(te)}", f"estimate has type {TD.show_type(te)}; errors {env.errors[:2]}", SOLVERS, cfg)
        elif len(post0) == 1 and len(u1) == 1 and len(t0s) == 1 and len(t1s) == 1:
            env = TD.TEnv()
            if is_filter:
                env.declare(post0[0], ("N", t0s[0]))
            else:
                env.declare(T.mk("attr", (post0[0], "filtering")), ("N", t0s[0]))
            env.declare(u1[0], ("N", t1s[0]))
            te = env.of(est)
            r4.require(te is not None and TD.same(te[1], t) and not env.errors, f"offgrid_marginals typing [{strategy}]", f"estimate {TD.show_type(te)}", f"estimate has type {TD.show_type(te)}; errors {env.errors[:2]}", SOLVERS, cfg)
            if not is_filter:
                # the right end must enter through the *smoothed* marginal u, conditioned backwards to t
                r4.require(T.atoms_of(est) >= {"solution.u", "solution.solution_full"}, f"offgrid_marginals uses both neighbours [{strategy}]", "", f"{sorted(T.atoms_of(est))}", SOLVERS, cfg)
        chk.sample({"rule": "R-C05-4", "strategy": strategy, "estimate": T.show(est, 3)})


def _lam_index(lam):
    body = lam.args[1]
    if isinstance(body, T.Term) and body.op == "getitem":
        i = body.args[1]
        if isinstance(i, tuple):
            i = i[0]
        return i
    return None
