"""C20 -- malformed inputs are rejected loudly (guard table, must-pass-through)."""

from __future__ import annotations

from .. import terms as T
from ..harness import (
    ADAPT, API, BLOCK, CHOL, DENSE, EST, FIXED, ISO, JAC, JETEXP, MATFREE, PROBLEMS, SOLVERS, STEPINIT, TESTUTIL, UTIL, A, PrimV, Rec, Session, call, method, rec_of_atoms,
)
from ..interp import BoundMethod, HarnessFn, RaiseSignal
from ..model import AnalysisError

EXPLANATION = (
    "A frozen table of (entry point, corrupted parameter, exception type) rows -- the rejection guards that exist on the pinned tree, "
    "confirmed by reading -- is checked by abstract interpretation with must-pass-through guard tracking: the entry point is run with the "
    "corrupted parameter as an opaque abstract value (or a structure of atoms), every other argument valid; a row is discharged when a "
    "raise-guard of the listed exception type whose condition depends on the corrupted value lies on EVERY path that returns (guards inside "
    "helpers count: tracking is interprocedural), or when the concrete configuration raises that exception.  Sibling entry points of the "
    "three factorisations must reject the same corruptions, and the strategy/routine suitability warnings must be emitted exactly for the "
    "documented unsuitable pairings."
    "  Rows added after an audit of the unchanged tree: standard-deviation containers that do not match the mean container, zeroth-order constraints on states with too few Taylor coefficients, dense log-densities of data of the wrong shape, exponential priors whose drift output does not match the state, and the single-output escape hatch of the residual error estimate (evaluated under the declared corruption)."
)
LEVEL = "other"
TECHNIQUE = "abstract interpretation over the AST with path-sensitive must-pass-through guard tracking (interprocedural), exhaustive guard table, sibling cross-check"
LEVEL_TEXT = (
    "Exhaustive over the frozen table of (entry point, parameter, corruption class): each row is decided on all paths of the entry point, not on sampled inputs; "
    "a deleted, weakened, bypassed or mistyped guard is reported by row."
)
LEVEL_NOTE = (
    "Not decided: that no malformed input exists outside the table (would need a shape-polymorphic proof over JAX broadcasting).  "
    "Trusted: tree_structure / tree_all / np.shape / isinstance as named; a guard's condition 'depends on' a value if the value occurs in its term."
)

SSMS = [(DENSE + ".state_space_model_dense", "dense"), (ISO + ".state_space_model_isotropic", "isotropic"), (BLOCK + ".state_space_model_blockdiag", "blockdiag")]


def arr(name):
    return T.atom(name, array=True)


def eval3(c, assume):
    """Three-valued evaluation of a guard condition under assumptions on atomic predicates."""
    if not isinstance(c, T.Term):
        return bool(c)
    v = assume(c)
    if v is not None:
        return v
    if c.op == "not":
        r = eval3(c.args[0], assume)
        return None if r is None else (not r)
    if c.op in ("and", "np.logical_and"):
        a, b = eval3(c.args[0], assume), eval3(c.args[1], assume)
        if a is False or b is False:
            return False
        return True if (a is True and b is True) else None
    if c.op in ("or", "np.logical_or"):
        a, b = eval3(c.args[0], assume), eval3(c.args[1], assume)
        if a is True or b is True:
            return True
        return False if (a is False and b is False) else None
    if c.op == "py.any":
        rs = [eval3(x, assume) for x in c.args]
        if any(r is True for r in rs):
            return True
        return False if all(r is False for r in rs) else None
    return None


def is_conjunctive(c, pol):
    """Is the raising condition (c == pol) a conjunction of several predicates (i.e. weaker than each conjunct)?"""
    if not isinstance(c, T.Term):
        return False
    if c.op == "not":
        return is_conjunctive(c.args[0], not pol)
    if c.op in ("and", "np.logical_and"):
        return pol
    if c.op in ("or", "np.logical_or"):
        return not pol
    return False


ALWAYS_BOOL = {"np.logical_and", "np.logical_or", "np.logical_not", "lt", "le", "gt", "ge", "eq", "ne", "and", "or", "not", "np.isnan", "np.isinf", "isinstance"}


def compares_shape_of(names):
    """The guard must inspect the *shape* of the corrupted value (a test of its rank alone is weaker)."""
    def pred(c):
        for t in T.subterms(c):
            if t.op == "attr" and t.args[1] == "shape" and (T.atoms_of(t.args[0]) & set(names)):
                return True
            if t.op == "tree.tree_map" and getattr(t.args[0], "name", None) == "np.shape" and (T.atoms_of(t) & set(names)):
                return True
            if t.op == "np.shape" and (T.atoms_of(t) & set(names)):
                return True
            if t.op == "lam" and any(x.op == "attr" and x.args[1] == "shape" for x in T.subterms(t)):
                return True
        return False
    return pred


def dtype_test_is_live(c):
    """A dtype guard is dead if the value it inspects is boolean by construction (e.g. the result of logical_and)."""
    for t in T.subterms(c):
        if t.op == "attr" and t.args[1] == "dtype":
            v = t.args[0]
            while isinstance(v, T.Term) and v.op in ("np.asarray",) and v.args:
                v = v.args[0]
            if isinstance(v, T.Term) and v.op == "leaf_of":
                src = v.args[0]
                if isinstance(src, T.Term) and src.op == "tree.tree_map" and isinstance(src.args[0], T.Term) and src.args[0].op == "lam":
                    body = src.args[0].args[1]
                    if isinstance(body, T.Term) and body.op in ALWAYS_BOOL:
                        return False
            if isinstance(v, T.Term) and v.op in ALWAYS_BOOL:
                return False
    return True


def plain_function(names):
    """Corruption 'a plain function / arbitrary object': it is an instance of no repository class and no array."""
    def assume(c):
        if c.op == "isinstance" and isinstance(c.args[0], T.Term) and T.is_atom(c.args[0]) and T.atom_name(c.args[0]) in names:
            return False
        return None
    return assume


def an_array(names):
    def assume(c):
        if c.op == "isinstance" and isinstance(c.args[0], T.Term) and T.is_atom(c.args[0]) and T.atom_name(c.args[0]) in names:
            return c.args[1] == "typing.Array"
        return None
    return assume


def guards_on(it, row):
    names = set(row.bad)
    out = []
    for g in it.cur_guards:
        if g["exc"] != row.exc or not (T.atoms_of(g["cond"]) & names):
            continue
        if row.fn_suffix and not str(g["fn"]).endswith(row.fn_suffix):
            continue
        if row.cond_pred and not row.cond_pred(g["cond"]):
            continue
        if is_conjunctive(g["cond"], g["polarity"]) and not row.allow_conjunction:
            continue
        if row.assume is not None:
            v = eval3(g["cond"], row.assume)
            if v is not None and v != g["polarity"]:
                continue  # under this corruption the guard definitely does not fire
            if v is None and row.strict:
                continue  # a row that fixes the corruption concretely asks for a guard that provably fires under it
        out.append(g)
    return out


class Row:
    def __init__(self, rid, group, run, exc, bad, mode="guard", sibling=None, fn_suffix=None, cond_pred=None, assume=None, allow_conjunction=False, strict=False):
        self.strict = strict
        self.id, self.group, self.run, self.exc, self.bad, self.mode, self.sibling = rid, group, run, exc, bad, mode, sibling
        self.fn_suffix, self.cond_pred, self.assume, self.allow_conjunction = fn_suffix, cond_pred, assume, allow_conjunction


def mk_ssm(it, qual):
    ci = it.p.find_class(qual)
    init_node = ci.methods.get("__init__")
    kw = {a.arg: A(f"ssm.{a.arg}") for a in (init_node.args.kwonlyargs if init_node else [])}
    return it.instantiate(it.class_value(qual), [], kw, "<harness>")


def mean2():
    return [arr("m0"), arr("m1")]


def std2():
    return [arr("s0"), arr("s1")]


def rows(S):
    out = []
    normals = {"dense": DENSE + ".DenseNormal", "isotropic": ISO + ".IsotropicNormal", "blockdiag": BLOCK + ".BlockDiagNormal"}
    priors = {
        "dense": (DENSE + ".DenseWienerIntegrated", dict(d=A("d"), A=A("A"), Q=A("Q"), q0=A("q0"), tree_flatten=A("tf"), precon_fun=A("precon"))),
        "isotropic": (ISO + ".IsotropicWienerIntegrated", dict(A=A("A"), q_sqrtm=A("q"), q0=A("q0"), tree_flatten=A("tf"), precon_fun=A("precon"))),
        "blockdiag": (BLOCK + ".BlockDiagWienerIntegrated", dict(a=A("a"), q_sqrtm=A("q"), q0=A("q0"), tree_flatten=A("tf"), precon_fun=A("precon"))),
        "dense-exponential": (DENSE + ".DenseExponential", dict(A=A("A"), B=A("B"), d=A("d"), q0=A("q0"), tree_flatten=A("tf"), precon_fun=A("precon"), exp_gram=A("exp_gram"))),
    }
    for qual, fam in SSMS:
        # output scale at construction: structure and shape
        def f(it, q=qual):
            ssm = mk_ssm(it, q)
            call(it, method(it, ssm, "prior_wiener_integrated_diffuse"), mean2(), std2(), output_scale=A("bad"))

        out.append(Row(f"{fam}: output_scale structure at construction", "output scale at construction", f, "TypeError", ["bad"], sibling="construct-structure"))
        out.append(Row(f"{fam}: output_scale shape at construction", "output scale at construction", f, "ValueError", ["bad"], sibling="construct-shape", cond_pred=compares_shape_of({"bad"})))
        # is_exact
        def g(it, q=qual):
            ssm = mk_ssm(it, q)
            bad = T.atom("bad", not_types=("bool",))
            call(it, method(it, ssm, "_tcoeffs_standard_deviation"), mean2(), is_exact=bad, inexact_eps=A("eps"))

        out.append(Row(f"{fam}: is_exact structure/shape", "is_exact", g, "ValueError", ["bad"], sibling="is_exact-shape"))
        out.append(Row(f"{fam}: is_exact dtype", "is_exact", g, "TypeError", ["bad"], sibling="is_exact-dtype", cond_pred=dtype_test_is_live))
        # Taylor-coefficient containers
        ncls = normals[fam]
        for which, label in ((0, "from_dirac(mean)"), (1, "from_mean_and_std(mean)"), (2, "from_mean_and_std(std)")):
            def h(it, n=ncls, w=which):
                cv = it.class_value(n)
                if w == 0:
                    call(it, it.getattr(cv, "from_dirac", None), A("bad"), damp=A("damp"))
                elif w == 1:
                    call(it, it.getattr(cv, "from_mean_and_std", None), A("bad"), std2())
                else:
                    call(it, it.getattr(cv, "from_mean_and_std", None), mean2(), A("bad"))

            out.append(Row(f"{fam}: {label} array instead of a coefficient list", "Taylor-coefficient containers", h, "TypeError", ["bad"], sibling=f"container-array-{which}", assume=an_array({"bad"})))
            out.append(Row(f"{fam}: {label} not a sequence of coefficients", "Taylor-coefficient containers", h, "ValueError", ["bad"], sibling=f"container-seq-{which}"))

            def h2(it, n=ncls, w=which):
                cv = it.class_value(n)
                bad = [arr("bad0"), arr("bad1")]
                if w == 0:
                    call(it, it.getattr(cv, "from_dirac", None), bad, damp=A("damp"))
                elif w == 1:
                    call(it, it.getattr(cv, "from_mean_and_std", None), bad, std2())
                else:
                    call(it, it.getattr(cv, "from_mean_and_std", None), mean2(), bad)

            out.append(Row(f"{fam}: {label} coefficients of different shapes", "Taylor-coefficient containers", h2, "ValueError", ["bad1"], sibling=f"container-shapes-{which}",
                           cond_pred=lambda c: c.op != "try_fails" and any(t.op == "attr" and t.args[1] == "shape" and t.args[0] is arr("bad1") for t in T.subterms(c))))
        # constraint constructors
        for m in ("constraint_ode_ts0", "constraint_ode_ts1", "constraint_residual"):
            def c(it, q=qual, m=m):
                ssm = mk_ssm(it, q)
                call(it, method(it, ssm, m), A("bad"))

            out.append(Row(f"{fam}: {m}(plain function)", "constraint constructors", c, "TypeError", ["bad"], sibling=m, assume=plain_function({"bad"})))
        # output scale at call
        pq, pkw = priors[fam]

        def t(it, pq=pq, pkw=pkw):
            prior = it.instantiate(it.class_value(pq), [A("init"), arr("base_scale")], pkw, "<harness>")
            call(it, method(it, prior, "transition"), dt=A("dt"), output_scale=A("bad"))

        out.append(Row(f"{fam}: transition(output_scale) shape", "output scale at call", t, "ValueError", ["bad"], sibling="transition-shape", cond_pred=compares_shape_of({"bad"})))
    pq, pkw = priors["dense-exponential"]

    def t2(it):
        prior = it.instantiate(it.class_value(pq), [A("init"), arr("base_scale")], pkw, "<harness>")
        call(it, method(it, prior, "transition"), dt=A("dt"), output_scale=A("bad"))

    out.append(Row("dense exponential: transition(output_scale) shape", "output scale at call", t2, "ValueError", ["bad"], cond_pred=compares_shape_of({"bad"})))

    # isotropic scalar std
    def iso_std(it):
        cv = it.class_value(ISO + ".IsotropicNormal")
        call(it, it.getattr(cv, "from_mean_and_std", None), mean2(), [arr("bad0"), arr("bad1")])

    out.append(Row("isotropic: from_mean_and_std(std) must be scalars", "isotropic scalar std", iso_std, "ValueError", ["bad0", "bad1"], fn_suffix="IsotropicNormal.from_mean_and_std"))


    # --- rows added after the audit of the unchanged tree (hunter H5): wrong-length / wrong-shape containers that used to be broadcast silently
    # (a) std container that does not match the mean container (dense, block-diagonal; the isotropic row above covers its scalar layout)
    for fam_, ncls_ in (("dense", DENSE + ".DenseNormal"), ("blockdiag", BLOCK + ".BlockDiagNormal")):
        def sm(it, n=ncls_):
            cv = it.class_value(n)
            call(it, it.getattr(cv, "from_mean_and_std", None), mean2(), [arr("bad0"), arr("bad1")])

        out.append(Row(f"{fam_}: from_mean_and_std(std) does not match the mean container", "Taylor-coefficient containers", sm, "ValueError", ["bad0", "bad1"], sibling="std-matches-mean",
                       cond_pred=lambda c: c.op != "try_fails" and {"m0", "m1"} & T.atoms_of(c) and {"bad0", "bad1"} & T.atoms_of(c)))

    # (a') a std container that is a proper prefix of a matching one (concrete: the comparison of the two containers must see the length, a pairwise zip does not)
    for fam_, ncls_ in (("dense", DENSE + ".DenseNormal"), ("blockdiag", BLOCK + ".BlockDiagNormal")):
        def sm_short(it, n=ncls_):
            cv = it.class_value(n)
            m = [arr("m0"), arr("m0"), arr("m0")]
            call(it, it.getattr(cv, "from_mean_and_std", None), m, [m[0]])

        out.append(Row(f"{fam_}: from_mean_and_std(std) shorter than the mean container", "Taylor-coefficient containers", sm_short, "ValueError", [], mode="raise", sibling="std-shorter-than-mean"))

    # (b) zeroth-order constraint on a state with fewer coefficients than the ODE constrains
    for qual_, fam_ in ((DENSE + ".DenseOdeTs0", "dense"), (ISO + ".IsotropicOdeTs0", "isotropic"), (BLOCK + ".BlockDiagOdeTs0", "blockdiag")):
        def ts0_short(it, q=qual_, fam=fam_):
            from .c11 import _vfield_list

            ode = it.instantiate(it.class_value(PROBLEMS + ".JetOde"), [_vfield_list()], dict(jacobian=A("jac"), num_tcoeffs_in_args=2, tcoeff_indices_output=[2]), "<harness>")
            lin = it.instantiate(it.class_value(q), [], {"ode": ode}, "<harness>")
            ncls = {"dense": DENSE + ".DenseNormal", "isotropic": ISO + ".IsotropicNormal", "blockdiag": BLOCK + ".BlockDiagNormal"}[fam]
            rv = it.instantiate(it.class_value(ncls), [arr("mean_flat"), arr("chol"), A("tf")], {}, "<harness>")
            if fam == "dense":
                # the dense selector un-flattens with the real tree_flatten: build the variable from two coefficients
                rv = call(it, it.getattr(it.class_value(ncls), "from_mean_and_std", None), [arr("c0"), arr("c1")], [arr("s0"), arr("s1")])
            # a state with two coefficients only (u, u'): nothing to constrain for u'' = f(u, u')
            it.method_hooks[ncls + "._mean_batched"] = lambda itp, fn, a, kw, site: [arr("c0"), arr("c1")]
            it.method_hooks[ncls.rsplit(".", 1)[0] + "." + {"dense": "DenseTreeFlatten", "isotropic": "IsotropicTreeFlatten", "blockdiag": "BlockDiagTreeFlatten"}[fam] + ".unflatten_array"] = lambda itp, fn, a, kw, site: [arr("c0"), arr("c1")]
            it.ndim_oracle = lambda t_: 2 if (isinstance(t_, T.Term) and t_.op == "jac_apply") else None
            out_ = call(it, method(it, lin, "linearize"), rv, A("state"), damp=A("damp"), t=A("t"))
            # the dense selector is a closure that is only traced by jacrev: evaluate it once like the trace would
            from ..interp import WrappedFn
            for t_ in T.subterms(out_):
                if isinstance(t_, T.Term) and t_.op in ("jac_apply", "vmap_apply"):
                    w = t_.args[0]
                    while isinstance(w, WrappedFn) and isinstance(w.fn, WrappedFn):
                        w = w.fn
                    if isinstance(w, WrappedFn):
                        it.call(w.fn, [arr("probe")], {}, "<harness>")

        out.append(Row(f"{fam_}: TS0 constraint on a state with too few Taylor coefficients", "constraint use", ts0_short, "IndexError", [], mode="raise", sibling="ts0-too-few"))

    # (c) dense losses / log-densities: data of the wrong length
    def dense_logpdf_len(it):
        rv = it.instantiate(it.class_value(DENSE + ".DenseNormal"), [arr("mean_flat"), arr("chol"), A("tf")], {}, "<harness>")
        call(it, method(it, rv, "logpdf_flat"), arr("bad"))

    out.append(Row("dense: logpdf of data whose shape differs from the mean", "losses", dense_logpdf_len, "ValueError", ["bad"],
                   cond_pred=lambda c: "mean_flat" in T.atoms_of(c) and compares_shape_of({"bad"})(c)))

    # (d) dense exponential prior: drift whose output does not have the state's shape
    def expo_drift(it):
        ssm = mk_ssm(it, DENSE + ".state_space_model_dense")
        ode = it.instantiate(it.class_value(PROBLEMS + ".JetOdeAutonomous"), [A("bad")], dict(jacobian=A("jac"), num_tcoeffs_in_args=2, tcoeff_indices_output=[2]), "<harness>")
        call(it, method(it, ssm, "prior_exponential_diffuse"), ode, mean2(), std2())

    # the guard compares the shape of the drift's Jacobian (jac_apply of the flattened drift) with the shape derived from the mean container
    out.append(Row("dense: exponential prior whose drift output does not match the state", "exponential priors", expo_drift, "ValueError", ["m0"],
                   cond_pred=lambda c: any(((t_.op == "attr" and t_.args[1] == "shape") or t_.op == "np.shape") and any(x_.op == "jac_apply" for x_ in T.subterms(t_.args[0])) for t_ in T.subterms(c))))

    # matfree constraint constructor
    def mf(it):
        ssm = mk_ssm(it, MATFREE + ".state_space_model_matfree")
        call(it, method(it, ssm, "constraint_residual"), A("bad"))

    out.append(Row("matfree: constraint_residual(plain function)", "constraint constructors", mf, "TypeError", ["bad"], assume=plain_function({"bad"})))

    def res(it, num=2):
        return it.instantiate(it.class_value(PROBLEMS + ".JetResidual"), [A("rfun")], dict(jacobian=A("jac"), num_tcoeffs_in_args=num), "<harness>")

    for qual, fam in [(ISO + ".state_space_model_isotropic", "isotropic"), (BLOCK + ".state_space_model_blockdiag", "blockdiag"), (MATFREE + ".state_space_model_matfree", "matfree")]:
        def unsupported(it, q=qual):
            ssm = mk_ssm(it, q)
            call(it, method(it, ssm, "constraint_residual"), res(it), taylor_point=A("tp"))

        out.append(Row(f"{fam}: constraint_residual(taylor_point=...) unsupported", "unsupported options", unsupported, "NotImplementedError", [], mode="raise"))

    # exponential prior order mismatch
    def expo(it):
        ssm = mk_ssm(it, DENSE + ".state_space_model_dense")
        ode = it.instantiate(it.class_value(PROBLEMS + ".JetOdeAutonomous"), [A("auto")], dict(jacobian=A("jac"), num_tcoeffs_in_args=3, tcoeff_indices_output=[3]), "<harness>")
        call(it, method(it, ssm, "prior_exponential_diffuse"), ode, mean2(), std2())

    out.append(Row("dense: exponential prior with mismatching ODE order", "exponential prior", expo, "TypeError", [], mode="raise"))

    def expo_low(it):
        # the other direction: an ODE of LOWER order than the state has coefficients (order 1 against two coefficients)
        ssm = mk_ssm(it, DENSE + ".state_space_model_dense")
        ode = it.instantiate(it.class_value(PROBLEMS + ".JetOdeAutonomous"), [A("auto")], dict(jacobian=A("jac"), num_tcoeffs_in_args=1, tcoeff_indices_output=[1]), "<harness>")
        call(it, method(it, ssm, "prior_exponential_diffuse"), ode, mean2(), std2())

    out.append(Row("dense: exponential prior with an ODE of lower order than the state", "exponential prior", expo_low, "TypeError", [], mode="raise"))

    # lift orders
    def lift_type(it):
        call(it, method(it, res(it), "jet_lift"), lift_by=1.5)

    out.append(Row("JetResidual.jet_lift non-int", "jet lifting", lift_type, "TypeError", [], mode="raise"))

    def lift_type_ode(it):
        ode = it.instantiate(it.class_value(PROBLEMS + ".JetOde"), [A("vf")], dict(jacobian=A("jac"), num_tcoeffs_in_args=1, tcoeff_indices_output=[1]), "<harness>")
        call(it, method(it, ode, "jet_lift"), lift_by="2")

    out.append(Row("JetOde.jet_lift non-int", "jet lifting", lift_type_ode, "TypeError", [], mode="raise"))

    def lift_range(it):
        lifted = call(it, method(it, res(it, 2), "jet_lift"), lift_by=3)
        it.call(lifted.fields["residual_function"], [], {"jet_coords": [arr("c0"), arr("c1"), arr("c2")], "t": A("t")}, "<harness>")

    out.append(Row("lifted residual: lift order exceeds the supplied coefficients", "jet lifting", lift_range, "ValueError", [], mode="raise"))

    def lift_range_boundary(it):
        # the smallest inadmissible order: a residual on two coefficients, three supplied, lifted by two (admissible: 0 and 1)
        lifted = call(it, method(it, res(it, 2), "jet_lift"), lift_by=2)
        it.call(lifted.fields["residual_function"], [], {"jet_coords": [arr("c0"), arr("c1"), arr("c2")], "t": A("t")}, "<harness>")

    out.append(Row("lifted residual: lift order exceeds the supplied coefficients by one", "jet lifting", lift_range_boundary, "ValueError", [], mode="raise"))

    def lift_neg(it):
        lifted = call(it, method(it, res(it, 2), "jet_lift"), lift_by=-1)
        it.call(lifted.fields["residual_function"], [], {"jet_coords": [arr("c0"), arr("c1"), arr("c2")], "t": A("t")}, "<harness>")

    out.append(Row("lifted residual: negative lift order", "jet lifting", lift_neg, "ValueError", [], mode="raise"))

    def lifted_ode(it):
        return it.instantiate(it.class_value(PROBLEMS + ".JetOde"), [A("vf")], dict(jacobian=A("jac"), num_tcoeffs_in_args=1, tcoeff_indices_output=[1, 2]), "<harness>")

    def relift(it):
        call(it, method(it, lifted_ode(it), "jet_lift"), lift_by=1)

    out.append(Row("JetOde.jet_lift on a lifted ODE", "jet lifting", relift, "NotImplementedError", [], mode="raise"))

    def relift_max(it):
        call(it, method(it, lifted_ode(it), "jet_lift_max"), num_tcoeffs=5)

    out.append(Row("JetOde.jet_lift_max on a lifted ODE", "jet lifting", relift_max, "ValueError", [], mode="raise"))

    def call_lifted(it):
        o = lifted_ode(it)
        it.call(BoundMethod(it.method_closure(*it.find_method_node(o.cls, "__call__")), o), [arr("u")], {"t": A("t")}, "<harness>")

    out.append(Row("JetOde.__call__ on a lifted ODE", "jet lifting", call_lifted, "ValueError", [], mode="raise"))

    for fn in ("dt0", "dt0_adaptive"):
        def si(it, fn=fn):
            f = it.function_value(f"{STEPINIT}.{fn}")
            if fn == "dt0":
                it.call(f, [lifted_ode(it), (arr("u0"),)], {"t": A("t")}, "<harness>")
            else:
                it.call(f, [lifted_ode(it), (arr("u0"),), A("t0")], dict(error_contraction_rate=A("r"), rtol=A("rtol"), atol=A("atol")), "<harness>")

        out.append(Row(f"{fn} on a lifted ODE", "step-size helpers", si, "ValueError", [], mode="raise"))

    def si2(it):
        f = it.function_value(f"{STEPINIT}.dt0_adaptive")
        ode = it.instantiate(it.class_value(PROBLEMS + ".JetOde"), [A("vf")], dict(jacobian=A("jac"), num_tcoeffs_in_args=2, tcoeff_indices_output=[2]), "<harness>")
        it.call(f, [ode, (arr("u0"), arr("du0")), A("t0")], dict(error_contraction_rate=A("r"), rtol=A("rtol"), atol=A("atol")), "<harness>")

    out.append(Row("dt0_adaptive with several initial values", "step-size helpers", si2, "ValueError", [], mode="raise"))

    # (F32) the tolerances of dt0_adaptive are scalars or shaped like the flattened state
    for which in ("atol", "rtol"):
        def si_tol(it, which=which):
            f = it.function_value(f"{STEPINIT}.dt0_adaptive")
            ode = it.instantiate(it.class_value(PROBLEMS + ".JetOde"), [A("vf")], dict(jacobian=A("jac"), num_tcoeffs_in_args=1, tcoeff_indices_output=[1]), "<harness>")
            kw = dict(error_contraction_rate=A("r"), rtol=arr("rtol"), atol=arr("atol"))
            kw[which] = arr("bad")
            it.call(f, [ode, (arr("u0"),), A("t0")], kw, "<harness>")

        out.append(Row(f"dt0_adaptive: {which} neither a scalar nor shaped like the state", "step-size helpers", si_tol, "ValueError", ["bad"], sibling=f"dt0-tolerance-shape-{which}", cond_pred=compares_shape_of({"bad"})))

    # (F31) grids are one-dimensional
    def grid_fixed(it):
        mk = it.function_value(f"{FIXED}.solve_fixed_grid")
        strat = it.instantiate(it.class_value(EST + ".strategy_filter"), [], {}, "<harness>")
        solver = it.instantiate(it.class_value(SOLVERS + ".solver"), [], dict(strategy=strat, constraint=A("c")), "<harness>")
        solve = it.call(mk, [], {"solver": solver}, "<harness>")
        it.call(solve, [arr("u")], {"grid": arr("bad")}, "<harness>")

    out.append(Row("solve_fixed_grid: grid not one-dimensional", "grids", grid_fixed, "ValueError", ["bad"], sibling="grid-rank", cond_pred=compares_shape_of({"bad"})))

    def grid_markov(it):
        f = method(it, it.class_value(EST + ".MarkovSequence"), "from_grid")
        call(it, f, prior=A("prior"), grid=arr("bad"), reverse=A("reverse"))

    out.append(Row("MarkovSequence.from_grid: grid not one-dimensional", "grids", grid_markov, "ValueError", ["bad"], sibling="grid-rank", cond_pred=compares_shape_of({"bad"})))

    for rn, kw in (("jetexpand_ode_padded_scan", {"num": 3}), ("jetexpand_ode_unroll", {"num": 3}), ("jetexpand_ode_via_jvp", {"num": 3}), ("jetexpand_ode_doubling_unroll", {"num_doublings": 2})):
        def je(it, rn=rn, kw=kw):
            alg = it.call(it.function_value(f"{JETEXP}.{rn}"), [], kw, "<harness>")
            it.call(alg, [lifted_ode(it), [arr("u0")]], {"t": A("t")}, "<harness>")

        out.append(Row(f"{rn} on a lifted ODE", "jet expansion", je, "ValueError", [], mode="raise"))
        if rn != "jetexpand_ode_doubling_unroll":
            def jt(it, rn=rn, kw=kw):
                alg = it.call(it.function_value(f"{JETEXP}.{rn}"), [], kw, "<harness>")
                it.call(alg, [A("bad"), [arr("u0")]], {"t": A("t")}, "<harness>")

            out.append(Row(f"{rn}(plain function)", "jet expansion", jt, "TypeError", ["bad"], assume=plain_function({"bad"})))

    def pytree_order(it):
        alg = it.call(it.function_value(f"{JETEXP}.jetexpand_ode_unroll"), [], {"num": 2}, "<harness>")
        ode = it.instantiate(it.class_value(PROBLEMS + ".JetOde"), [A("vf")], dict(jacobian=A("jac"), num_tcoeffs_in_args=3, tcoeff_indices_output=[3]), "<harness>")
        it.call(alg, [ode, [T.atom("p0", array=False), T.atom("p1", array=False), T.atom("p2", array=False)]], {"t": A("t")}, "<harness>")

    out.append(Row("jetexpand with pytree initial values of an order-3 ODE", "jet expansion", pytree_order, "ValueError", [], mode="raise"))

    # --- rows added after the second audit of the unchanged tree (hunter H9)
    # (f) Taylor-coefficient routines: the number of initial values must be the order of the ODE (concrete), and their shapes must agree
    for rn, kw in (("jetexpand_ode_padded_scan", {"num": 2}), ("jetexpand_ode_unroll", {"num": 2}), ("jetexpand_ode_via_jvp", {"num": 2})):
        def je_count(it, rn=rn, kw=kw):
            alg = it.call(it.function_value(f"{JETEXP}.{rn}"), [], kw, "<harness>")
            ode2 = it.instantiate(it.class_value(PROBLEMS + ".JetOde"), [A("vf")], dict(jacobian=A("jac"), num_tcoeffs_in_args=2, tcoeff_indices_output=[2]), "<harness>")
            it.call(alg, [ode2, [arr("u0"), arr("u1"), arr("u2")]], {"t": A("t")}, "<harness>")

        out.append(Row(f"{rn}: more initial values than the order of the ODE", "jet expansion", je_count, "ValueError", [], mode="raise", sibling="jetexpand-inits-count"))

        def je_shapes(it, rn=rn, kw=kw):
            alg = it.call(it.function_value(f"{JETEXP}.{rn}"), [], kw, "<harness>")
            ode2 = it.instantiate(it.class_value(PROBLEMS + ".JetOde"), [A("vf")], dict(jacobian=A("jac"), num_tcoeffs_in_args=2, tcoeff_indices_output=[2]), "<harness>")
            it.call(alg, [ode2, [arr("u0"), arr("bad")]], {"t": A("t")}, "<harness>")

        out.append(Row(f"{rn}: initial values of different shapes", "jet expansion", je_shapes, "ValueError", ["bad"], sibling="jetexpand-inits-shapes", cond_pred=compares_shape_of({"bad"}), allow_conjunction=True))

    # (g) ODE descriptions: the vector field's output must be shaped like the state
    for wrapper, nargs in (("ode", 1), ("ode_order_two", 2), ("ode_order_arbitrary", 2)):
        def vf_out(it, wrapper=wrapper, nargs=nargs):
            fn = HarnessFn("user_vf", lambda itp, a, kw, site: arr("bad"))
            mk = it.function_value(f"{PROBLEMS}.{wrapper}")
            kw = {"num_tcoeffs_in_args": 2} if wrapper == "ode_order_arbitrary" else {}
            ode_ = it.call(mk, [fn], kw, "<harness>")
            it.call(ode_.fields["vector_field"], [], {"jet_coords": [arr(f"c{i}") for i in range(nargs)], "t": A("t")}, "<harness>")

        out.append(Row(f"{wrapper}(f): output of f not shaped like the state", "ODE descriptions", vf_out, "ValueError", ["bad"], sibling="vf-output-shape", cond_pred=compares_shape_of({"bad"})))

    # (h) error norms: a tolerance must be a scalar or shaped like the reference
    for nm in ("error_norm_scale_then_rms", "error_norm_rms_then_scale"):
        for which in ("atol", "rtol"):
            def tol_shape(it, nm=nm, which=which):
                norm = it.call(it.function_value(f"{SOLVERS}.{nm}"), [], {}, "<harness>")
                kw = {"atol": arr("atol"), "rtol": arr("rtol")}
                kw[which] = arr("bad")
                it.call(norm, [arr("err"), arr("ref")], kw, "<harness>")

            out.append(Row(f"{nm}: {which} neither a scalar nor shaped like the reference", "error norms", tol_shape, "ValueError", ["bad"], sibling=f"tolerance-shape-{which}", cond_pred=compares_shape_of({"bad"})))

    # losses
    def loss_terminal(it):
        loss = it.call(it.function_value(f"{EST}.loss_lml_terminal_values"), [], {}, "<harness>")
        it.call(loss, [arr("u")], {"marginals": A("marginals"), "std": A("bad")}, "<harness>")

    out.append(Row("terminal-value loss: std container", "losses", loss_terminal, "ValueError", ["bad"]))

    def loss_ts_type(it):
        loss = it.call(it.function_value(f"{EST}.loss_lml_timeseries"), [], {}, "<harness>")
        it.call(loss, [arr("u")], {"posterior": A("bad"), "std": A("std")}, "<harness>")

    out.append(Row("time-series loss: posterior type", "losses", loss_ts_type, "TypeError", ["bad"], assume=plain_function({"bad"})))

    def loss_ts_std(it):
        loss = it.call(it.function_value(f"{EST}.loss_lml_timeseries"), [], {}, "<harness>")
        post = rec_of_atoms(it, EST + ".MarkovSequence", "post", {"reverse": True})
        it.call(loss, [arr("u")], {"posterior": post, "std": A("bad")}, "<harness>")

    out.append(Row("time-series loss: std container", "losses", loss_ts_std, "ValueError", ["bad"]))

    # Jacobian handlers
    for hq in ("jacobian_materialize", "jacobian_monte_carlo_fwd", "jacobian_monte_carlo_rev"):
        for m in ("materialize_dense", "calculate_trace_along_d", "calculate_diagonal_along_d"):
            def jh(it, hq=hq, m=m):
                h = it.instantiate(it.class_value(f"{JAC}.{hq}"), [], {}, "<harness>")
                call(it, method(it, h, m), A("fun"), A("bad"), A("state"))

            out.append(Row(f"{hq}.{m}: x not an array", "Jacobian handlers", jh, "TypeError", ["bad"], sibling=f"jac-type-{m}", assume=plain_function({"bad"})))
            out.append(Row(f"{hq}.{m}: x or f(x) not 2-d", "Jacobian handlers", jh, "ValueError", ["bad"], sibling=f"jac-rank-{m}",
                           cond_pred=lambda c: any(t.op == "attr" and t.args[1] == "ndim" and t.args[0] is A("bad") for t in T.subterms(c))))
            out.append(Row(f"{hq}.{m}: trailing dimensions of x and f(x) differ", "Jacobian handlers", jh, "ValueError", ["bad"], sibling=f"jac-dim-{m}",
                           cond_pred=lambda c: any(t.op == "attr" and t.args[1] == "shape" and t.args[0] is A("bad") for t in T.subterms(c))))

            def jf(it, hq=hq, m=m):
                h = it.instantiate(it.class_value(f"{JAC}.{hq}"), [], {}, "<harness>")
                call(it, method(it, h, m), A("badfun"), arr("x"), A("state"))

            out.append(Row(f"{hq}.{m}: f(x) not an array", "Jacobian handlers", jf, "TypeError", ["badfun"], sibling=f"jac-ftype-{m}"))

    # error / reference shape
    def err_shape(it):
        est = it.instantiate(it.class_value(SOLVERS + ".error_residual_std"), [], dict(constraint=A("bad"), error_norm=A("norm")), "<harness>")
        PS = SOLVERS + ".ProbabilisticSolution"
        prev, prop = rec_of_atoms(it, PS, "prev"), rec_of_atoms(it, PS, "prop", {"fun_evals": A("bad_fx")})
        call(it, method(it, est, "estimate_error_norm"), A("estate"), prev, prop, dt=A("dt"), atol=A("atol"), rtol=A("rtol"), damp=A("damp"))

    out.append(Row("residual error estimate whose constraint shape differs from the state", "solvers", err_shape, "ValueError", ["bad_fx"]))

    def counts_parts(len_term):
        """len(tree_leaves_depth_one(X)) counts the parts of the constraint only if X still is the container of parts: a raveled array has none."""
        x = len_term.args[0] if len_term.args else None
        if not (isinstance(x, T.Term) and x.op == "tree.tree_leaves_depth_one" and x.args):
            return False
        inner = x.args[0]
        while isinstance(inner, T.Term) and inner.op in ("np.asarray", "func.stop_gradient") and inner.args:
            inner = inner.args[0]
        return not (isinstance(inner, T.Term) and inner.op in ("tree.ravel", "np.reshape", "np.concatenate"))

    def one_output(c):
        # corruption: the constraint has ONE output while the state has d > 1 components (error.shape == (1,), reference.shape == (d,))
        if c.op == "in" and isinstance(c.args[1], (list, tuple)) and any(x == (1,) for x in c.args[1]):
            return True
        if c.op in ("ne", "eq", "gt") and len(c.args) == 2:
            lens = [x for x in c.args if isinstance(x, T.Term) and x.op in ("len", "py.len")]
            ones = [x for x in c.args if isinstance(x, int) and not isinstance(x, bool) and x == 1]
            if lens and ones:
                return {"ne": False, "eq": True, "gt": False}[c.op]  # exactly one part
        return None

    out.append(Row("residual error estimate of a single-output constraint for a d-dimensional (dense / block-diagonal) state", "solvers", err_shape, "ValueError", ["bad_fx"], assume=one_output, allow_conjunction=True))

    def parts_equal_dimension(c):
        # corruption: the constraint has several parts (a jet-lifted ODE, a DAE stack) and their number equals the state dimension, so that the
        # isotropic model's one-scalar-per-part error estimate has the reference's shape by coincidence
        if c.op == "in" and isinstance(c.args[1], (list, tuple)) and any(x == (1,) for x in c.args[1]):
            return True  # error.shape == reference.shape
        if c.op in ("ne", "eq", "gt") and len(c.args) == 2:
            lens = [x for x in c.args if isinstance(x, T.Term) and x.op in ("len", "py.len") and counts_parts(x)]
            ones = [x for x in c.args if isinstance(x, int) and not isinstance(x, bool) and x == 1]
            if lens and ones:
                return {"ne": True, "eq": False, "gt": True}[c.op]  # more than one part
        return None

    out.append(Row("residual error estimate of a constraint with several parts whose number equals the state dimension (isotropic: one scalar per part)", "solvers", err_shape, "ValueError", ["bad_fx"],
                   assume=parts_equal_dimension, allow_conjunction=True, strict=True))

    # kernels
    def revert_rank(it):
        f = it.function_value(f"{CHOL}.revert_conditional")
        it.call(f, [], dict(R_X_F=arr("rxf"), R_X=A("bad"), R_YX=arr("ryx"), solve_triu=A("solve")), "<harness>")

    out.append(Row("revert_conditional with non-matrix input", "kernels", revert_rank, "ValueError", ["bad"]))

    def ens(it):
        f = it.function_value(f"{MATFREE}.blockdiag_cholesky_from_ensembles")
        it.call(f, [A("bad")], {"bias": True}, "<harness>")

    out.append(Row("too few ensemble members", "kernels", ens, "ValueError", ["bad"]))

    # offgrid marginals suitability
    def offgrid(it):
        strat = it.instantiate(it.class_value(EST + ".strategy_smoother_fixedpoint"), [], {}, "<harness>")
        solver = it.instantiate(it.class_value(SOLVERS + ".solver"), [], dict(strategy=strat, constraint=A("c")), "<harness>")
        call(it, method(it, solver, "offgrid_marginals"), arr("t"), solution=A("solution"))

    out.append(Row("offgrid_marginals with a fixed-point smoother", "solvers", offgrid, "NotImplementedError", [], mode="raise"))
    return out


def eval_row(chk, S, r1, row):
    """Evaluate one row of the guard table under rule ``r1``; returns True / False / None."""
    it = S.interp()
    detail = ""
    try:
        row.run(it)
        raised = None
    except RaiseSignal as e:
        raised = e
    except AnalysisError as e:
        raised = None
        detail = f"(analysis stopped after the guards: {str(e)[:120]})"
    S.absorb(it)
    if row.mode == "raise":
        ok = raised is not None and getattr(raised.exc, "cls_name", "") == row.exc
        if raised is None and detail:
            ok = None  # the analysis stopped before the end of the run: "no exception" is not established
        r1.require(ok, row.id, f"raises {row.exc}", f"expected {row.exc}; got {'no exception' if raised is None else raised.exc} {detail}", raised.site if raised else None)
        return ok
    if raised is not None:
        ok = getattr(raised.exc, "cls_name", "") == row.exc
        r1.require(ok, row.id, f"raises {row.exc} unconditionally for this corruption", f"expected a {row.exc} guard; the run raises {raised.exc}", raised.site)
        return ok
    gs = guards_on(it, row)
    ok = bool(gs)
    if not ok and detail:
        ok = None
    passed = [(g["exc"], T.show(g["cond"], 2)) for g in it.cur_guards][:6]
    r1.require(ok, row.id, f"{row.exc} guard at {gs[0]['site'] if gs else '?'} on every returning path {detail}",
               f"no {row.exc} guard depending on {row.bad} lies on every returning path; guards passed on all paths: {passed} {detail}", gs[0]["site"] if gs else None)
    if len(chk.samples) < 6 and gs:
        chk.sample({"row": row.id, "guard": T.show(gs[0]["cond"], 4), "site": gs[0]["site"], "exception": row.exc})
    return ok


def run(chk, S: Session):
    chk.trust("tree.tree_structure / tree.tree_all / np.shape / isinstance / np.ndim as named")
    r1 = chk.rule("R-C20-1", "guard table: a raise-guard of the listed type depending on the corrupted value lies on every returning path (or the configuration raises)", floor=100)
    r2 = chk.rule("R-C20-2", "sibling agreement: the three factorisations reject the same corruptions with the same exception types", floor=12)
    r3 = chk.rule("R-C20-3", "suitability warnings for the documented unsuitable strategy/routine pairings, and only for those", floor=12)
    table = rows(S)
    results = {}
    for row in table:
        results[row.id] = eval_row(chk, S, r1, row)
    # sibling agreement
    groups = {}
    for row in table:
        if row.sibling:
            groups.setdefault(row.sibling, []).append(row)
    for key, rs in sorted(groups.items()):
        vals = {r.id: results.get(r.id) for r in rs}
        if len(rs) < 2:
            continue
        agree = len(set(vals.values())) == 1
        r2.require(True if agree and all(v is True for v in vals.values()) else (False if not agree else None), f"siblings {key}", f"{len(rs)} siblings agree", f"sibling entry points disagree: {vals}")
    chk.extra["guard_table_rows"] = len(table)
    chk.exhaustive = True
    warning_rules(chk, S, r3)
    dtype_rules(chk, S)


def warning_rules(chk, S, r3):
    flags = {
        "strategy_filter": (True, True, True),
        "strategy_smoother_fixedpoint": (True, False, False),
        "strategy_smoother_fixedinterval": (False, True, True),
    }
    strategies = S.p.subclasses(EST + ".MarkovStrategy")
    concrete = [c for c in strategies if c.name in flags]
    if len(concrete) != 3:
        raise AnalysisError(f"expected the three documented strategies, found {[c.name for c in strategies]}")
    for ci in concrete:
        it = S.interp()
        st = it.instantiate(it.class_value(ci.qualname), [], {}, "<harness>")
        got = (st.fields.get("is_suitable_for_save_at"), st.fields.get("is_suitable_for_save_every_step"), st.fields.get("is_suitable_for_offgrid_marginals"))
        r3.require(got == flags[ci.name], f"{ci.name} suitability flags", f"(save_at, save_every_step, offgrid) = {flags[ci.name]}", f"flags {got}; documented {flags[ci.name]}", ci.module.relpath)
        for routine, idx, mkcall in (
            ("solve_adaptive_save_at", 0, lambda it, solver: it.call(it.function_value(ADAPT + ".solve_adaptive_save_at"), [], dict(solver=solver, error=A("error")), "<harness>")),
            ("solve_fixed_grid", 1, lambda it, solver: it.call(it.function_value(FIXED + ".solve_fixed_grid"), [], dict(solver=solver), "<harness>")),
            ("test_util.solve_adaptive_save_every_step", 1, lambda it, solver: it.call(it.function_value(TESTUTIL + ".solve_adaptive_save_every_step"), [solver, A("error")], {}, "<harness>")),
        ):
            it2 = S.interp()
            st2 = it2.instantiate(it2.class_value(ci.qualname), [], {}, "<harness>")
            solver = it2.instantiate(it2.class_value(SOLVERS + ".solver"), [], dict(strategy=st2, constraint=A("c")), "<harness>")
            try:
                mkcall(it2, solver)
            except (RaiseSignal, AnalysisError) as e:
                r3.unknown(f"{routine} x {ci.name}", f"could not evaluate the constructor: {e}")
                continue
            warns = [e for e in it2.events if e["kind"] == "warn"]
            should = not flags[ci.name][idx]
            r3.require(bool(warns) == should, f"{routine} x {ci.name}", "warns" if should else "silent", f"{'no warning' if should else 'spurious warning'} for {ci.name} in {routine}", warns[0]["site"] if warns else None)
            S.absorb(it2)
    # warn=False silences solve_adaptive_save_at (terminal values use it)
    it = S.interp()
    st = it.instantiate(it.class_value(EST + ".strategy_smoother_fixedinterval"), [], {}, "<harness>")
    solver = it.instantiate(it.class_value(SOLVERS + ".solver"), [], dict(strategy=st, constraint=A("c")), "<harness>")
    it.call(it.function_value(ADAPT + ".solve_adaptive_terminal_values"), [solver, A("error")], {}, "<harness>")
    r3.require(not [e for e in it.events if e["kind"] == "warn"], "solve_adaptive_terminal_values is silent", "any strategy is fine for terminal values", "warning emitted for terminal values")


def dtype_rules(chk, S):
    """A Taylor-coefficient container whose leaves have different dtypes (integer initial values with float derivatives, float32 next to
    float64) is not rejected by any factorisation; it must then be *promoted*.  jax.flatten_util.ravel_pytree's unravel() casts every leaf
    back to the dtype it had in the example tree: an unravel closure derived from the raw container truncates the state mean at every step."""
    from ..harness import DENSE, A, method

    r4 = chk.rule("R-C20-4", "wrong dtype that is not rejected is promoted: every unravel closure that maps the flat state back to the caller's container is derived from a "
                  "dtype-homogeneous example (each leaf cast to the dtype of the raveled container), never from the raw container", floor=4)
    it = S.interp()
    cv = it.class_value(DENSE + ".DenseTreeFlatten")
    x = A("example")
    try:
        out = it.call(method(it, cv, "from_example"), [x], {}, "<harness>")
    except (AnalysisError, RaiseSignal) as e:
        r4.unknown("DenseTreeFlatten.from_example unravel closure", f"not analysed: {e}", DENSE)
        return
    S.absorb(it)
    u = out.fields.get("unravel") if hasattr(out, "fields") else None
    if not (isinstance(u, T.Term) and u.op == "unravel_of" and u.args):
        r4.unknown("DenseTreeFlatten.from_example unravel closure", f"unravel = {T.show(u, 4)} is not the closure of a ravel_pytree call", DENSE)
        return
    src = u.args[0]
    flat_dtype = T.mk("attr", (T.mk("tree.ravel", (x,)), "dtype"))
    # the interpreter strips value-preserving casts from the example of a ravel_pytree call and records the dtype on the closure
    ok = src is x and u.kwargs.get("cast_to") is flat_dtype
    r4.require(ok, "DenseTreeFlatten.from_example unravel closure", "derived from the container with every leaf cast to the common dtype",
               f"unravel closure of {T.show(src, 5)} (leaves cast to {T.show(u.kwargs.get('cast_to'), 3)}): ravel_pytree's unravel() restores each leaf's own dtype, so a container with mixed dtypes "
               "(integer initial values, float derivatives) has its mean truncated whenever it is unflattened", DENSE)
    # the siblings derive a per-coefficient closure from the first coefficient: its leaves must be cast to the dtype of the whole raveled container
    from ..harness import BLOCK, ISO

    for mod, cls in ((ISO, "IsotropicTreeFlatten"), (BLOCK, "BlockDiagTreeFlatten")):
        it2 = S.interp()
        xs = [T.atom("c0", array=False), T.atom("c1", array=False)]
        name = f"{cls}.from_example unravel closure"
        try:
            tf = it2.call(method(it2, it2.class_value(f"{mod}.{cls}"), "from_example"), [xs], {}, "<harness>")
        except (AnalysisError, RaiseSignal) as e:
            r4.unknown(name, f"not analysed: {e}", mod)
            continue
        S.absorb(it2)
        ul = tf.fields.get("unravel_leaf") if hasattr(tf, "fields") else None
        want = T.mk("attr", (T.mk("tree.ravel", (xs,)), "dtype"))
        ok2 = isinstance(ul, T.Term) and ul.op == "unravel_of" and ul.args[0] is xs[0] and ul.kwargs.get("cast_to") is want
        r4.require(ok2, name, "closure of the first coefficient with its leaves cast to the dtype of the raveled container",
                   f"unravel_leaf = {T.show(ul, 4)}: ravel_pytree's unravel() restores each leaf's own dtype, so a coefficient with an integer-typed leaf next to float leaves is truncated whenever the mean is unflattened", mod)
    # the dense exponential prior differentiates the drift through an unflatten of the Taylor coefficients
    it3 = S.interp()
    seen = []

    def jac_hook(itp, args, kwargs, site, _seen=seen):
        from ..interp import _MISSING

        _seen.append(args[0])
        return _MISSING

    name = "state_space_model_dense.prior_exponential_diffuse drift Jacobian"
    try:
        from ..harness import PROBLEMS

        ssm = it3.instantiate(it3.class_value(DENSE + ".state_space_model_dense"), [], {}, "<harness>")
        ode = it3.instantiate(it3.class_value(PROBLEMS + ".JetOdeAutonomous"), [A("auto")], dict(jacobian=A("jac"), num_tcoeffs_in_args=2, tcoeff_indices_output=[2]), "<harness>")
        mean = [T.atom("m0", array=False), T.atom("m1", array=False)]
        std = [T.atom("s0", array=False), T.atom("s1", array=False)]
        prior = call(it3, method(it3, ssm, "prior_exponential_diffuse"), ode, mean, std)
        a_ = prior.fields.get("A")
        jacs = [t for t in T.subterms(a_) if isinstance(t, T.Term) and t.op == "jac_apply"]
        okj = False
        det = f"{len(jacs)} Jacobian applications"
        if len(jacs) == 1:
            # evaluate the differentiated callable on a probe: the user's drift must see the coefficients un-flattened by a cast closure
            probe = T.atom("probe_flat")
            w = jacs[0].args[0]
            val = it3.call(w.fn if hasattr(w, "fn") else w, [probe], {}, "<harness>")
            unr = [t for t in T.subterms(val) if isinstance(t, T.Term) and t.op == "unravel_of"]
            want = T.mk("attr", (T.mk("tree.ravel", (mean,)), "dtype"))
            okj = bool(unr) and all(u_.kwargs.get("cast_to") is want for u_ in unr)
            det = f"closures {[T.show(u_, 3) for u_ in unr]}"
        r4.require(okj, name, "the drift is differentiated through an unflatten whose leaves were cast to the common dtype",
                   f"{det}: the Jacobian with respect to an integer-typed leaf is identically zero, the drift of that component is dropped from the transition", DENSE)
        S.absorb(it3)
    except (AnalysisError, RaiseSignal) as e:
        r4.unknown(name, f"not analysed: {e}", DENSE)
