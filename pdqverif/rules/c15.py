"""C15 -- pytree layout clause: flatten / unflatten are mutually inverse on layouts; time axis prepended consistently."""

from __future__ import annotations

from .. import adomain as AD
from .. import nf
from .. import terms as T
from ..harness import BLOCK, DENSE, EST, ISO, SOLVERS, A, Rec, Session, call, method, rec_of_atoms
from ..model import AnalysisError
from ..tscen import PS, make_solver

EXPLANATION = (
    "Only the layout clause of the property is decided.  For each *TreeFlatten class: flatten_tree produces the layout its Normal class documents "
    "(dense: coefficient-major (n.d); isotropic: (n, d); block-diagonal: (d, n)), unflatten_array consumes exactly that layout and iterates over the "
    "coefficient axis, so unflatten(flatten(x)) returns the coefficients in their original order (symbolic round trip); from_example takes the leaf "
    "unravel from the first depth-one leaf; every Normal builds its flat mean with its own TreeFlatten and every mean / std / sample_tree goes through "
    "unflatten_array of its own tree_flatten.  userfriendly_output prepends the initial state along a new leading time axis for t and u consistently.  "
    "For the jit/vmap clause one necessary condition is decided: every hand-written pytree registration (13 classes) is a round trip -- "
    "unflatten(flatten(x)) rebuilds each attribute of x from the matching child / auxiliary entry, for the class that is registered -- since jit, vmap, "
    "scan and while_loop hand every state object through exactly that pair."
)
LEVEL = "other"
TECHNIQUE = "abstract interpretation over the AST with symbolic simplification (stack/index, transpose/transpose, ravel/unravel) for the round trip; symbolic shape inference for the layouts"
LEVEL_TEXT = (
    "The layout round trip is an identity on the source for every number of coefficients and every leaf structure; the pytree-registration round trip is an "
    "identity on the source for every attribute value.  jit == eager, vmap == loop and NaN-freedom of non-selected branches are otherwise statements about XLA "
    "execution and are NOT claimed; permutation equivariance of the numerics is not claimed."
)
LEVEL_NOTE = "Trusted: tree.ravel_pytree flattens leaves in list order and its unravel inverts it; np.stack(xs)[i] == xs[i]; (x.T).T == x."

FAMS = [("dense", DENSE, "DenseTreeFlatten", "DenseNormal"), ("isotropic", ISO, "IsotropicTreeFlatten", "IsotropicNormal"), ("blockdiag", BLOCK, "BlockDiagTreeFlatten", "BlockDiagNormal")]


def back_ok(back, x):
    """unflatten(flatten(x)) == x up to `unravel_0(ravel(x_i))` (all coefficients share the leaf structure)."""
    if isinstance(back, T.Term) and back is not None and not isinstance(back, (list, tuple)):
        return False
    if not isinstance(back, (list, tuple)) or len(back) != len(x):
        return False
    for b, xi in zip(back, x):
        if b is xi:
            continue
        if isinstance(b, T.Term) and b.op == "call" and b.args[0].op == "unravel_of" and b.args[0].args[0] is x[0] and b.args[1] is T.mk("tree.ravel", (xi,)):
            continue
        return False
    return True


def _run_own(chk, S: Session):
    chk.trust("tree.ravel_pytree order and inverse", "np.stack(xs)[i] == xs[i]", "(x.T).T == x")
    r1 = chk.rule("R-C15-1", "TreeFlatten layouts: documented layout, symbolic round trip, own-tree_flatten discipline of the Normal classes", floor=18)
    r2 = chk.rule("R-C15-2", "userfriendly_output prepends the initial state on a new leading time axis (t and u)", floor=6)
    d = AD.dim("d")
    for fam, mod, tfname, nname in FAMS:
        for ncoef in (1, 3):
            cfg = {"factorisation": fam, "coefficients": ncoef}
            it = S.interp()
            cv = it.class_value(f"{mod}.{tfname}")
            x = [T.atom(f"c{i}", array=False) for i in range(ncoef)]
            tf = it.call(it.getattr(cv, "from_example", None), [x], {}, "<harness>")
            flat = call(it, method(it, tf, "flatten_tree"), x)
            where = f"{mod}.{tfname}"
            # layout by shape inference: every ravel(c_i) is a (d,) vector
            env = AD.AEnv()
            for xi in x:
                env.declare(T.mk("tree.ravel", (xi,)), AD.AT([AD.axis(d)]))
            if fam == "dense":
                ok = flat is T.mk("tree.ravel", (x,))
                r1.require(ok, f"{tfname}.flatten_tree layout", "ravel of the coefficient list: coefficient-major (n.d)", f"{T.show(flat, 3)}", where, cfg)
            else:
                t = env.of(flat)
                want = [nf.const(ncoef), d] if fam == "isotropic" else [d, nf.const(ncoef)]
                ok = t is not None and t.rank == 2 and [ax.size for ax in t.axes] == want
                r1.require(True if ok else (None if t is None else False), f"{tfname}.flatten_tree layout", f"{'(n, d)' if fam == 'isotropic' else '(d, n)'}: {AD.show(t)}", f"flat layout {AD.show(t)}", where, cfg)
            try:
                back = call(it, method(it, tf, "unflatten_array"), flat)
                if fam == "dense":
                    ok = back is x or back == x
                else:
                    ok = back_ok(back, x)
                r1.require(ok, f"{tfname} round trip", "unflatten_array(flatten_tree(x)) returns the coefficients in order", f"round trip gives {T.show(back, 4)}", where, cfg)
            except AnalysisError as e:
                r1.fail(f"{tfname} round trip", f"unflatten_array cannot consume flatten_tree's layout: {e}", where, cfg)
            if fam == "isotropic":
                # one scalar per coefficient (standard deviations): flatten_tree_scalar / unflatten_array_scalar are mutually inverse
                sc = [T.atom(f"sc{i}", array=True) for i in range(ncoef)]
                try:
                    back_s = call(it, method(it, tf, "unflatten_array_scalar"), call(it, method(it, tf, "flatten_tree_scalar"), sc))
                    r1.require(back_s == sc or back_s is sc, f"{tfname} scalar round trip", "unflatten_array_scalar(flatten_tree_scalar(s)) returns the scalars in order", f"round trip gives {T.show(back_s, 4)}", where, cfg)
                except AnalysisError as e:
                    r1.unknown(f"{tfname} scalar round trip", str(e), where, cfg)
            if fam != "dense":
                ul = tf.fields.get("unravel_leaf")
                r1.require(isinstance(ul, T.Term) and ul.op == "unravel_of" and ul.args[0] is x[0], f"{tfname}.from_example", "leaf unravel taken from the first depth-one leaf", f"{T.show(ul, 2)}", where, cfg)
            S.absorb(it)
        # Normal: from_mean_and_std builds its flat mean with its own TreeFlatten; mean / std / sample_tree unflatten with their own tree_flatten
        it = S.interp()
        ncv = it.class_value(f"{mod}.{nname}")
        mean = [T.atom("m0", array=True), T.atom("m1", array=True)]
        std = [T.atom("s0", array=True), T.atom("s1", array=True)]
        rv = it.call(it.getattr(ncv, "from_mean_and_std", None), [mean, std], {}, "<harness>")
        where = f"{mod}.{nname}"
        ok = isinstance(rv, Rec) and isinstance(rv.fields.get("tree_flatten"), Rec) and rv.fields["tree_flatten"].cls.info.name == tfname
        if ok:
            want_flat = call(it, method(it, rv.fields["tree_flatten"], "flatten_tree"), mean)
            ok = rv.fields["mean_flat"] is want_flat
        r1.require(ok, f"{nname}.from_mean_and_std", f"mean_flat = {tfname}.from_example(mean).flatten_tree(mean)", f"{T.show(rv, 3)}", where, {"factorisation": fam})
        tfa = A("tf")
        rank = {"dense": 1, "isotropic": 2, "blockdiag": 2}[fam]
        mf = T.atom(f"mean_flat_{fam}", ndims={"": rank})
        mf.meta["ndim"] = rank
        cf = T.atom(f"chol_{fam}", ndims={"": rank + 1})
        cf.meta["ndim"] = rank + 1
        rv2 = it.instantiate(ncv, [mf, cf, tfa], {}, "<harness>")
        m = it.getattr(rv2, "mean", None)
        r1.require(m is T.mk("mcall", (tfa, "unflatten_array", mf)), f"{nname}.mean", "tree_flatten.unflatten_array(mean_flat)", f"{T.show(m, 3)}", where, {"factorisation": fam})
        sd = it.getattr(rv2, "std", None)
        ok = isinstance(sd, T.Term) and sd.op == "mcall" and sd.args[0] is tfa and sd.args[1].startswith("unflatten_array") and "chol" in "".join(T.atoms_of(sd))
        r1.require(ok, f"{nname}.std", "unflatten_array of row norms of the Cholesky factor", f"{T.show(sd, 3)}", where, {"factorisation": fam})
        # *_tree(u) evaluates its *_flat twin on u flattened in the class's own layout
        for base in ("residual_whitened_rms", "logpdf"):
            it3 = S.interp()
            ncv3 = it3.class_value(f"{mod}.{nname}")
            rv3 = it3.instantiate(ncv3, [mf, cf, tfa], {}, "<harness>")
            seen_args = []

            def flat_hook(itp, fn, a, kw, site, _s=seen_args):
                _s.append(a)
                return T.atom("flat_result")

            it3.method_hooks[f"{mod}.{nname}.{base}_flat"] = flat_hook
            u = T.atom("u_tree", array=False)
            try:
                res = call(it3, method(it3, rv3, f"{base}_tree"), u)
            except AnalysisError as e:
                r1.unknown(f"{nname}.{base}_tree", str(e), where, {"factorisation": fam})
                continue
            S.absorb(it3)
            want_u = T.mk("tree.ravel", (u,)) if fam == "dense" else T.mk("mcall", (tfa, "flatten_tree", u))
            ok = res is T.atom("flat_result") and len(seen_args) == 1 and len(seen_args[0]) == 2 and seen_args[0][0] is rv3 and seen_args[0][1] is want_u
            r1.require(ok, f"{nname}.{base}_tree", f"{base}_flat(own-layout flatten of u) on the same variable", f"result {T.show(res, 3)}; flat twin called with {[T.show(x_, 3) for a_ in seen_args for x_ in a_[1:]]}", where, {"factorisation": fam})
        S.absorb(it)
    # ---------------- time axis
    for sname in ("solver", "solver_mle", "solver_dynamic"):
        for strategy in ("strategy_filter", "strategy_smoother_fixedpoint"):
            cfg = {"solver": sname, "strategy": strategy}
            it = S.interp()
            solver = make_solver(it, sname, strategy)
            from ..tscen import markov_rank_oracle
            it.ndim_oracle = markov_rank_oracle
            sol0, sol, sol1 = (rec_of_atoms(it, PS, n_) for n_ in ("solution0", "solution", "solution1"))
            sol.fields["t"] = T.atom("solution.t", ndims={"": 1})
            sol.fields["t"].meta["ndim"] = 1
            if sname == "solver_mle":
                sol1.fields["auxiliary"] = (A("l1"), A("r1"), A("n1"))
                sol.fields["auxiliary"] = (A("l"), A("r"), A("n"))
            if strategy != "strategy_filter":
                from ..tscen import MS
                for s_ in (sol0, sol, sol1):
                    s_.fields["solution_full"] = rec_of_atoms(it, MS, f"{T.atom_name(s_.fields['t']).split('.')[0]}.sf", {"reverse": True, "marginal": T.atom(f"{T.atom_name(s_.fields['t']).split('.')[0]}.marg", ndims={"mean_flat": 1}), "conditional": T.atom(f"{T.atom_name(s_.fields['t']).split('.')[0]}.cond", ndims={"noise.mean_flat": 2})})
            out = call(it, method(it, solver, "userfriendly_output"), solution0=sol0, solution=sol, solution1=sol1)
            S.absorb(it)
            ts = out.fields["t"]
            okt = isinstance(ts, T.Term) and ts.op == "np.concatenate" and isinstance(ts.args[0], list) and len(ts.args[0]) == 2 and ts.args[0][1] is sol.fields["t"]
            if okt:
                first = ts.args[0][0]
                okt = isinstance(first, T.Term) and first.op == "getitem" and first.args[0] is sol0.fields["t"] and first.args[1] is None
            r2.require(okt, f"{sname}.userfriendly_output t [{strategy}]", "t = concatenate([t0[None], t])", f"{T.show(ts, 3)}", SOLVERS, cfg)
            u = out.fields["u"]
            if strategy == "strategy_filter":
                oku = isinstance(u, T.Term) and u.op == "tree_concat" and len(u.args) == 2 and isinstance(u.args[0], T.Term) and u.args[0].op == "lift" and "solution0.solution_full" in T.atoms_of(u.args[0]) and "solution.solution_full" in T.atoms_of(u.args[1])
            else:
                # smoother: marginals of the full posterior = computed marginals + seed at the end (N conditionals + 1)
                oku = isinstance(u, T.Term) and u.op == "tree_concat" and len(u.args) == 2 and isinstance(u.args[1], T.Term) and u.args[1].op == "lift"
            r2.require(oku, f"{sname}.userfriendly_output u [{strategy}]", "initial / terminal state joined along the leading time axis (N + 1 entries)", f"{T.show(u, 3)}", SOLVERS, cfg)
    pytree_registration_rules(chk, S)


# ---------------------------------------------------------------------------
def registrations(S):
    """(class qualname, registering method name, where) for every module-level ``X.<method>()`` whose method registers a pytree node."""
    import ast

    out = []
    for m in S.p.modules.values():
        if ".backend" in m.name:
            continue
        for st in m.tree.body:
            if isinstance(st, ast.Expr) and isinstance(st.value, ast.Call) and isinstance(st.value.func, ast.Attribute) and isinstance(st.value.func.value, ast.Name) and not st.value.args:
                cname, meth = st.value.func.value.id, st.value.func.attr
                ci = m.classes.get(cname)
                if ci is None:
                    continue
                # the method may be inherited
                owner = next((k for k in S.p.mro(ci) if meth in k.methods), None)
                if owner is None:
                    continue
                node = owner.methods[meth]
                if "register_pytree_node" in ast.unparse(node):
                    out.append((ci.qualname, meth, f"{m.relpath}:{st.lineno}", node))
    return out


def pytree_registration_rules(chk, S):
    """jit / vmap / scan hand every state object through flatten -> unflatten: that must be the identity on its attributes."""
    import ast

    from ..interp import _MISSING, RaiseSignal

    r3 = chk.rule("R-C15-3", "pytree registrations: unflatten(flatten(x)) rebuilds every attribute of x (none dropped, swapped or defaulted), for the class that is registered", floor=20)
    regs = registrations(S)
    if len(regs) < 8:
        raise AnalysisError(f"only {len(regs)} pytree registrations found; expected >= 8 (anchor changed)")
    for qual, meth, where, node in regs:
        name = qual.rsplit(".", 1)[1]
        it = S.interp()
        cv = it.class_value(qual)
        got = []

        def hook(itp, a, kw, site, _g=got):
            _g.append(a)
            return None

        it.hooks["tree.register_pytree_node"] = hook
        try:
            it.call(it.getattr(cv, meth, "<harness>"), [], {}, "<harness>")
        except (AnalysisError, RaiseSignal) as e:
            r3.unknown(f"{name} registration", f"cannot interpret {meth}: {e}", where)
            continue
        if len(got) != 1 or len(got[0]) != 3:
            r3.fail(f"{name} registration", f"{meth}() makes {len(got)} register_pytree_node calls", where)
            continue
        rcls, flatten, unflatten = got[0]
        r3.require(getattr(rcls, "info", None) is cv.info, f"{name} registers itself", "the class on which the method is called", f"registers {getattr(getattr(rcls, 'info', None), 'qualname', rcls)}", where)
        # an instance whose constructor arguments are distinct atoms
        owner, init = it.find_method_node(cv, "__init__")
        if init is None:
            r3.unknown(f"{name} round trip", "no __init__", where)
            continue
        a = init.args
        pos = [A(f"x.{p.arg}") for p in (a.posonlyargs + a.args)[1:]]
        kws = {p.arg: A(f"x.{p.arg}") for p in a.kwonlyargs}
        try:
            x = it.instantiate(cv, pos, kws, "<harness>")
            fl = it.call(flatten, [x], {}, "<harness>")
            if not (isinstance(fl, tuple) and len(fl) == 2):
                r3.fail(f"{name} flatten", f"flatten does not return (children, aux): {T.show(fl, 2)}", where)
                continue
            children, aux = fl
            y = it.call(unflatten, [aux, children], {}, "<harness>")
        except (AnalysisError, RaiseSignal) as e:
            r3.unknown(f"{name} round trip", f"cannot interpret: {e}", where)
            continue
        S.absorb(it)
        if not isinstance(y, Rec) or y.cls.info is not cv.info:
            r3.fail(f"{name} round trip", f"unflatten returns {T.show(y, 2)}", where)
            continue
        for fname, v in x.fields.items():
            w = y.fields.get(fname, _MISSING)
            same = w is v or (not isinstance(v, T.Term) and w == v)
            r3.require(bool(same), f"{name}.{fname} survives flatten/unflatten", "identity", f"attribute {fname}: {T.show(v, 2)} becomes {T.show(w, 2) if w is not _MISSING else 'missing'}", where)
        # every constructor argument is carried either as a child or as auxiliary data
        carried = set()
        for part in (children, aux):
            for t in T.subterms(part if isinstance(part, (list, tuple)) else [part]):
                if isinstance(t, T.Term) and t.op == "atom":
                    carried.add(T.atom_name(t))
        for p in [*pos, *kws.values()]:
            nm = T.atom_name(p)
            used = any(p in list(T.subterms(v)) for v in x.fields.values() if isinstance(v, (T.Term, list, tuple)))
            if used:
                r3.require(nm in carried, f"{name} carries {nm.split('.', 1)[1]}", "in children or aux", f"constructor argument {nm} is neither a child nor auxiliary data", where)


# ---------------------------------------------------------------------------
# R-C15-4: "means and standard deviations ... with a leading time axis": a stacked solution holds Normals whose arrays carry extra leading axes, and every
# accessor with a rank test peels ONE axis by mapping ITSELF over the variable until the unbatched layout is reached.  Decided by interpretation with
# rank-annotated fields at 0, 1 and 2 extra axes: the own-class vmap arm is taken iff there is an extra axis, it maps the same method of the same class
# over the same variable, and its value is what the accessor returns.
_PEELS_BLOCKS = {
    # the helper's base case is one (n, n) block, so the unbatched (d, n, n) factor takes the mapped arm once by design
    "BlockDiagNormal._cov_dense": 1,
}


def _rank_tested_methods(ci):
    """Methods that branch on a rank: an `if` whose test reads `.ndim`, directly or through a rank predicate of the class (a method / property without
    branches of its own whose value is a comparison of an `.ndim`, e.g. `_is_batched`)."""
    import ast as _ast

    def reads_ndim(node):
        return any(isinstance(x, _ast.Attribute) and x.attr == "ndim" for x in _ast.walk(node))

    predicates = set()
    for name, fn in ci.methods.items():
        has_if = any(isinstance(x, _ast.If) for x in _ast.walk(fn))
        rets = [x for x in _ast.walk(fn) if isinstance(x, _ast.Return) and x.value is not None]
        if not has_if and rets and all(reads_ndim(r.value) for r in rets):
            predicates.add(name)

    def tests_rank(test):
        if reads_ndim(test):
            return True
        return any(isinstance(x, _ast.Attribute) and x.attr in predicates and isinstance(x.value, _ast.Name) and x.value.id in ("self", "cls") for x in _ast.walk(test))

    out = []
    for name, fn in ci.methods.items():
        if name in predicates:
            continue
        if any(isinstance(node, _ast.If) and tests_rank(node.test) for node in _ast.walk(fn)):
            out.append(name)
    return sorted(out)


def batched_accessor_rules(chk, S):
    from ..interp import BoundMethod, Closure
    from ..model import AnalysisError as _AE

    r4 = chk.rule("R-C15-4", "batched accessors (leading time / sample axes): every rank-tested method of the three Normal classes maps itself -- same class, same method, same variable -- "
                  "over one leading axis exactly when the variable carries an extra axis, and returns the mapped value", floor=24)
    for fam, mod, _tfname, nname in FAMS:
        ci = S.p.find_class(f"{mod}.{nname}")
        rank = {"dense": 1, "isotropic": 2, "blockdiag": 2}[fam]
        meths = _rank_tested_methods(ci)
        r4.require(len(meths) >= 3, f"{nname} rank-tested accessors", f"{meths}", f"only {meths} test a rank: the batched accessors of the stacked solution are gone", f"{mod}.{nname}", {"factorisation": fam})
        for meth in meths:
            own = f"{mod}.{nname}.{meth}"
            base_extra = _PEELS_BLOCKS.get(f"{nname}.{meth}", 0)
            for extra in (0, 1, 2):
                it = S.interp()
                ncv = it.class_value(f"{mod}.{nname}")
                mf = T.atom(f"mean_flat_{fam}", ndims={"": rank + extra})
                mf.meta["ndim"] = rank + extra
                cf = T.atom(f"chol_{fam}", ndims={"": rank + 1 + extra})
                cf.meta["ndim"] = rank + 1 + extra
                for a_ in (mf, cf):
                    a_.meta["shape"] = None
                rv = it.instantiate(ncv, [mf, cf, A("tf")], {}, "<harness>")
                seen = []
                token = T.atom(f"mapped[{extra}]")

                def vhook(itp, w, args, kwargs, site, _seen=seen, _rv=rv, _tok=token):
                    f = w.fn
                    q = f.fn.qualname if isinstance(f, BoundMethod) else getattr(f, "qualname", None)
                    if isinstance(f, (Closure, BoundMethod)) and q and ".".join(q.split(".")[:-1]).endswith("Normal") and args and args[0] is _rv:
                        _seen.append((q, len(args), site))
                        return _tok
                    return T.mk("vmap_apply", (w, *args), kwargs, origin=site)

                it.hooks["vmap.apply"] = vhook
                for other in meths:
                    if other != meth:  # modular: the other rank-tested accessors are decided on their own
                        it.method_hooks[f"{mod}.{nname}.{other}"] = lambda itp, fn, a, kw, site, _o=other: T.atom(f"self.{_o}()")
                construct = f"{nname}.{meth} with {extra} extra leading ax{'is' if extra == 1 else 'es'}"
                cfg = {"factorisation": fam, "method": meth, "extra_axes": extra}
                kind = ci.method_kind.get(meth)
                import ast as _ast

                nargs = len(ci.methods[meth].args.args) - 1 + len(ci.methods[meth].args.posonlyargs)
                try:
                    res = call(it, method(it, rv, meth), *[T.atom(f"arg{i}") for i in range(nargs)]) if kind != "property" else it.getattr(rv, meth, None)
                except _AE as e:
                    if extra + base_extra == 0 and not seen:
                        # the unbatched arm needs concrete shapes this harness does not give: the arm decision (no mapped call) is what is asked here
                        r4.ok(construct, f"takes the unbatched arm (its body is the subject of R-C15-1 / C08 / C13): {str(e)[:80]}", own, cfg)
                    elif seen:
                        r4.unknown(construct, f"mapped arm taken but the accessor did not return: {e}", own, cfg)
                    else:
                        r4.unknown(construct, str(e), own, cfg)
                    S.absorb(it)
                    continue
                except Exception as e:  # RaiseSignal and friends: the method raised on this variable
                    r4.unknown(construct, f"{type(e).__name__}: {e}", own, cfg)
                    S.absorb(it)
                    continue
                S.absorb(it)
                if extra + base_extra == 0:
                    r4.require(not seen, construct, "unbatched layout: evaluated directly, nothing is mapped over the variable", f"maps {[q for q, _n, _s in seen]} over an unbatched variable (rank test off by one: the accessor would peel a coefficient / state axis)", own, cfg)
                    continue
                ok = len(seen) == 1 and seen[0][0] == own and res is token
                r4.require(ok, construct, f"returns vmap({nname}.{meth})(self, ...)",
                           (f"mapped calls over the variable: {[q for q, _n, _s in seen] or 'none'}" + ("" if res is token else f"; returns {T.show(res, 3)} instead of the mapped value")
                            + (f" -- the batched arm must map {own} itself" if seen and seen[0][0] != own else "") + (" -- a stacked variable is evaluated as if it were a single one" if not seen else "")), own, cfg)


def run(chk, S: Session):
    _run_own(chk, S)
    batched_accessor_rules(chk, S)
    from ..harness import borrow

    rb = chk.rule("R-C15-B", "clauses of this statement decided by rules of C07 (contraction rate independent of the leaf structure), C18 (step helpers consume the whole pytree state) and C10 (the flat wrapper of a pytree problem differentiates explicit time like the flat problem)", floor=3)
    borrow(chk, S, rb, "C07", lambda r, c: r == "R-C07-3")
    borrow(chk, S, rb, "C18", lambda r, c: r == "R-C18-2" and "whole pytree" in c)
    # the Taylor coefficients of a pytree state are computed through a flat wrapper of the vector field: the wrapper must differentiate what the flat problem differentiates
    borrow(chk, S, rb, "C10", lambda r, c: r == "R-C10-1")
    # "the same numbers as the flattened problem": a state whose leaves have different dtypes is flattened to the common dtype; the unravel closures of the
    # three models must not cast a leaf back (rule of C20)
    borrow(chk, S, rb, "C20", lambda r, c: r == "R-C20-4" and "from_example" in c)
    # "returns means and standard deviations": the reported standard deviation is a function of the covariance (row norms of the factor), not of the
    # particular square root -- otherwise it is neither permutation-equivariant nor the same under jit (rule of C08)
    borrow(chk, S, rb, "C08", lambda r, c: r == "R-C08-3" and ".std" in c)
