"""C09, integrated Wiener process: the Pascal transition and the Hilbert process noise of ``system_matrices_1d_iwp``.

Two tables are computed by code at trace time.  They are decided without executing that code:

R-C09-6  ``cholesky_hilbert(n, K)`` is Kahan's recurrence.  Each ``fori_loop`` is interpreted once on a symbolic index and carry; the body must
         write one entry per iteration from the entry written by the previous iteration, the ratio new/previous must equal the ratio of
         the closed form (an identity of rational functions in the loop index and K), and the first read must hit the initial value of the
         closed form.  By induction over the trip count the loops compute the closed form for every n:

             F(j)    = Gamma(K+2j+2) / (j! Gamma(K+j+1))                     F(j)/F(j-1)   = (K+2j)(K+2j+1) / (j (K+j))
             G(i, j) = Gamma(K+2j+2) / (Gamma(K+i+j+2) (j-i)!)               G(i,j)/G(i+1,j) = (K+i+j+2) / (j-i)
             L[j, i] = sqrt(K+2i+1) G(i, j) / F(j)            (i <= j)

         That L is the Cholesky factor of H[a, b] = 1/(a+b+K+1) is Kahan's lemma; the checker re-proves it in exact rational arithmetic for
         n <= 8, K <= 3 on every run (pure arithmetic on the closed form, no repository code involved).

R-C09-7  ``system_matrices_1d_iwp(q)``: entry (i, j) of the transition is derived through the index semantics of arange / broadcasting
         indices / vmap(in_axes, out_axes) / flip and must equal C(q-i, q-j) = (q-i)! / ((j-i)! (q-j)!), which is the Taylor transition
         dt^(j-i)/(j-i)! in the coordinates of the preconditioner dt^(q-i)/(q-i)! (R-C09-4); the noise factor must have the Gram matrix
         flip(H_{q+1}): every step from the Hilbert factor to the returned factor (flip of the rows, QR of the transpose, unit-sign
         scaling of the columns) is Gram-preserving or the flip.  The three prior factories hand the same number of derivatives,
         len(tcoeffs) - 1, to the system matrices and to the preconditioner.
"""

from __future__ import annotations

from fractions import Fraction
from math import factorial

from .. import nf
from .. import terms as T
from ..harness import BLOCK, CHOL, DENSE, ISO, UTIL, A, call, method
from ..interp import Closure, RaiseSignal, WrappedFn
from ..model import AnalysisError

m_ = T.mk


# --------------------------------------------------------------------------- Kahan's lemma, exact, small cases
def _gamma_ratio(a, b):
    """Gamma(a) / Gamma(b) for positive integers."""
    return Fraction(factorial(a - 1), factorial(b - 1))


def kahan_lemma_holds(nmax=8, kmax=3):
    """L[j,i] = sqrt(K+2i+1) G(i,j)/F(j) satisfies L L^T = H_K for n <= nmax, K <= kmax (squares are rational)."""
    for K in range(kmax + 1):
        F = [_gamma_ratio(K + 2 * j + 2, K + j + 1) / factorial(j) for j in range(nmax)]
        G = [[_gamma_ratio(K + 2 * j + 2, K + i + j + 2) / factorial(j - i) if i <= j else Fraction(0) for j in range(nmax)] for i in range(nmax)]
        for a in range(nmax):
            for b in range(nmax):
                s = sum((K + 2 * i + 1) * G[i][a] * G[i][b] / (F[a] * F[b]) for i in range(min(a, b) + 1))
                if s != Fraction(1, a + b + K + 1):
                    return False, f"K={K}: (L L^T)[{a},{b}] = {s} != 1/{a + b + K + 1}"
    return True, f"closed form verified exactly for n <= {nmax}, K <= {kmax}"


# --------------------------------------------------------------------------- loops
def _interp_with_loops(S, qual, args, kwargs, hooks=None):
    it = S.interp()
    evs = []

    def fori(itp, a, kw, site):
        lo, hi, body = a[0], a[1], a[2]
        init = a[3] if len(a) > 3 else kw.get("init")
        eid = len(evs)
        idx, carry = T.atom(f"fori{eid}.i"), T.atom(f"fori{eid}.carry")
        ev = {"id": eid, "lo": lo, "hi": hi, "init": init, "idx": idx, "carry": carry, "site": site}
        evs.append(ev)
        ev["out"] = itp.call(body, [idx, carry], {}, site)
        ev["final"] = m_("fori_final", (eid,), origin=site)
        return ev["final"]

    it.hooks["flow.fori_loop"] = fori
    for k, v in (hooks or {}).items():
        it.method_hooks[k] = v
    out = it.call(it.function_value(qual), args, kwargs, "<harness>")
    S.absorb(it)
    return out, evs


def _subst_atom(t, atom, value):
    from ..harness import subst

    return subst(t, {atom.uid: value})


def _at_set(t):
    """(array, index, value) of  array.at[index].set(value)."""
    if isinstance(t, T.Term) and t.op == "at_set" and len(t.args) == 3:
        return t.args
    return None


def _reads_of(value, carry):
    return [x for x in T.subterms(value) if isinstance(x, T.Term) and x.op == "getitem" and x.args[0] is carry]


def _recurrence(r, name, ev, ratio_ref, first_value_ref, where, lo_ref, hi_ref, index_ref=None, column=None):
    """One loop  c[I(k)] = c[I(k-1)] * rho(k):  bounds, write index, read index = previous write, ratio, first read."""
    k, c = ev["idx"], ev["carry"]
    okb = nf.norm(ev["lo"]) == nf.norm(lo_ref) and nf.norm(ev["hi"]) == nf.norm(hi_ref)
    r.require(okb, f"{name} bounds", f"k = {T.show(lo_ref)} .. {T.show(hi_ref)} - 1", f"loop runs from {T.show(ev['lo'], 3)} to {T.show(ev['hi'], 3)}", where)
    st = _at_set(ev["out"])
    if st is None or st[0] is not c:
        r.fail(f"{name} body", f"not a single in-place write of the carried array: {T.show(ev['out'], 4)}", where)
        return None
    _arr, widx, val = st
    if index_ref is not None:
        r.require(nf.norm(widx) == nf.norm(index_ref), f"{name} write index", f"writes entry {T.show(index_ref, 3)}", f"writes entry {T.show(widx, 4)}", where)
    reads = _reads_of(val, c)
    prev_idx = _subst_atom(widx, k, m_("sub", (k, 1)))
    okr = len({x.uid for x in reads}) == 1 and nf.norm(reads[0].args[1]) == nf.norm(prev_idx)
    # the carry may only be used through that one read
    other_uses = [x for x in T.subterms(val) if isinstance(x, T.Term) and x is not c and c in x.args and not (x.op == "getitem" and x.args[0] is c)]
    r.require(okr and not other_uses, f"{name} reads the entry written by the previous iteration", f"reads entry {T.show(prev_idx, 3)}",
              f"reads {[T.show(x.args[1], 3) for x in reads]} (written one iteration earlier: {T.show(prev_idx, 3)}); other uses of the carry: {[T.show(x, 2) for x in other_uses[:2]]}", where)
    if not okr:
        return None
    prev = reads[0]
    pv = T.atom(f"{name}.prev")
    # value / previous must be free of the carry and equal the closed-form ratio
    from ..harness import subst

    val_s = subst(val, {prev.uid: pv})
    lhs = nf.norm(val_s)
    rhs = nf.norm(m_("mul", (pv, ratio_ref(widx))))
    r.require(nf.rat_equal(lhs, rhs), f"{name} recurrence", f"new / previous = {T.show(ratio_ref(widx), 4)} (ratio of the closed form)",
              f"new entry = {T.show(val, 6)}: new / previous is not the closed-form ratio {T.show(ratio_ref(widx), 4)}", where)
    # first read: index I(lo - 1) of the initial array
    first_idx = _subst_atom(prev_idx, k, ev["lo"])
    return widx, first_idx


def hilbert_rules(chk, S):
    r6 = chk.rule("R-C09-6", "cholesky_hilbert is Kahan's recurrence for the closed-form Cholesky factor of the (shifted) Hilbert matrix: loop bounds, write/read indices, "
                  "ratio identities (rational functions of the index and K), initial values, final scaling and transposition; the closed form itself is re-proved exactly for n <= 8", floor=12)
    where = "probdiffeq/util/cholesky_util.py"
    ok, det = kahan_lemma_holds()
    r6.require(ok, "Kahan's closed form is the Cholesky factor of the Hilbert matrix (n <= 8, K <= 3, exact)", det, det, None)
    n, K = A("n"), A("K")
    try:
        out, evs = _interp_with_loops(S, f"{CHOL}.cholesky_hilbert", [n], {"K": K})
    except (AnalysisError, RaiseSignal) as e:
        r6.unknown("cholesky_hilbert", f"not analysed: {e}", where)
        return
    if len(evs) != 3:
        r6.unknown("cholesky_hilbert loops", f"{len(evs)} fori_loops found; Kahan's recurrence has three (f, columns, entries of a column)", where)
        return
    # identify the loops: the one nested in another's body is the inner one
    inner = next((e for e in evs if any(e["final"] in list(T.subterms(o["out"])) for o in evs if o is not e)), None)
    outer = next((o for o in evs if inner is not None and o is not inner and inner["final"] in list(T.subterms(o["out"]))), None)
    floop = next((e for e in evs if e is not inner and e is not outer), None)
    if inner is None or outer is None or floop is None:
        r6.unknown("cholesky_hilbert loops", "loop nesting not recognised", where)
        return

    # ---- f: F(j) = F(j-1) (K+2j)(K+2j+1) / (j (K+j)),  F(0) = 1 + K
    def ratio_f(j):
        return m_("div", (m_("mul", (m_("add", (K, m_("mul", (2, j)))), m_("add", (m_("add", (K, m_("mul", (2, j)))), 1)))), m_("mul", (j, m_("add", (K, j))))))

    res = _recurrence(r6, "f-loop", floop, ratio_f, None, where, 1, n, index_ref=floop["idx"])
    if res is not None:
        # initial array: every entry 1 + K, in particular entry 0 = F(0)
        init = floop["init"]
        fac = nf.norm(init)
        ones = [t for t in T.subterms(init) if isinstance(t, T.Term) and t.op == "np.ones"]
        ok0 = len(ones) == 1 and nf.rat_equal(fac, nf.mul(nf.norm(ones[0]), nf.norm(m_("add", (1, K))))) and nf.norm(res[1]) == nf.const(0)
        r6.require(ok0, "f-loop initial value", "f[0] = 1 + K = F(0), first read at index 0", f"initial array {T.show(init, 4)}, first read at index {T.show(res[1], 3)}", where)
        sh = ones[0].args[0] if ones else None
        r6.require(isinstance(sh, tuple) and len(sh) == 1 and sh[0] is n, "f-loop array length", "n entries", f"np.ones({T.show(sh, 2)})", where)

    # ---- inner: G(i, j) = G(i+1, j) (K+i+j+2) / (j-i),  i = j-1-k, G(j, j) = 1
    j = outer["idx"]

    def ratio_g(i):
        return m_("div", (m_("add", (m_("add", (K, m_("add", (i, j)))), 2)), m_("sub", (j, i))))

    iref = m_("sub", (m_("sub", (j, 1)), inner["idx"]))
    res = _recurrence(r6, "column-loop", inner, ratio_g, None, where, 0, j, index_ref=iref)
    if res is not None:
        # the first read is entry j of the initial column = U[j, j] of the identity = 1 = G(j, j)
        init = inner["init"]
        full = slice(None, None, None)
        okc = isinstance(init, T.Term) and init.op == "getitem" and init.args[0] is outer["carry"] and isinstance(init.args[1], tuple) and len(init.args[1]) == 2 and _is_full(init.args[1][0]) and init.args[1][1] is j
        r6.require(okc and nf.norm(res[1]) == nf.norm(j), "column-loop initial value", "starts from column j of the carried matrix, first read at the diagonal entry",
                   f"initial column {T.show(init, 4)}, first read at index {T.show(res[1], 3)}", where)
    # ---- outer: U[:, j] = column j, for j = 1 .. n-1, starting from the identity (column 0 = e_0 = G(., 0))
    st = _at_set(outer["out"])
    oko = st is not None and st[0] is outer["carry"] and isinstance(st[1], tuple) and len(st[1]) == 2 and _is_full(st[1][0]) and st[1][1] is j and st[2] is inner["final"]
    r6.require(oko, "matrix-loop body", "writes the finished column into column j", f"{T.show(outer['out'], 4)}", where)
    # column 0 of the identity is already G(., 0); an iteration j = 0 has an empty column loop and writes the column back unchanged
    okb = nf.norm(outer["lo"]) in (nf.const(1), nf.const(0)) and nf.norm(outer["hi"]) == nf.norm(n)
    r6.require(okb, "matrix-loop bounds", "j = 1 .. n-1 (or 0 .. n-1)", f"{T.show(outer['lo'])} .. {T.show(outer['hi'])}", where)
    eye = outer["init"]
    r6.require(isinstance(eye, T.Term) and eye.op == "np.eye" and eye.args and eye.args[0] is n and len(eye.args) == 1 and not eye.kwargs, "matrix-loop initial value", "the identity (unit diagonal: G(j, j) = 1, zeros above)", f"{T.show(eye, 3)}", where)

    # ---- assembly: tril((U * (dr[:, None] * (1/f)[None, :])).T),  dr[i] = sqrt(K + 1 + 2 i)
    oka, deta = False, T.show(out, 8)
    if isinstance(out, T.Term) and out.op == "np.tril" and len(out.args) == 1 and not out.kwargs and isinstance(out.args[0], T.Term) and out.args[0].op == "attr" and out.args[0].args[1] == "T":
        prod = out.args[0].args[0]
        fs = _factors(prod)
        want_u = [x for x in fs if x is outer["final"]]
        rows = [x for x in fs if isinstance(x, T.Term) and x.op == "getitem" and _idx_kind(x.args[1]) == "rows"]
        cols = [x for x in fs if isinstance(x, T.Term) and x.op == "getitem" and _idx_kind(x.args[1]) == "cols"]
        if len(fs) == 3 and len(want_u) == 1 and len(rows) == 1 and len(cols) == 1:
            dr, finv = rows[0].args[0], cols[0].args[0]
            okd = isinstance(dr, T.Term) and dr.op == "np.sqrt" and isinstance(dr.args[0], T.Term) and dr.args[0].op == "np.arange" and len(dr.args[0].args) == 2 \
                and nf.norm(dr.args[0].args[0]) == nf.norm(m_("add", (K, 1))) and nf.norm(dr.args[0].kwargs.get("step")) == nf.const(2) \
                and nf.norm(m_("sub", (dr.args[0].args[1], dr.args[0].args[0]))) == nf.norm(m_("sub", (m_("mul", (2, n)), 1)))
            okf = nf.rat_equal(nf.norm(finv), nf.power(nf.norm(floop["final"]), -1))
            oka = okd and okf
            deta = f"row scaling {T.show(dr, 5)}, column scaling {T.show(finv, 4)}"
    r6.require(oka, "assembly", "L = tril((U * (sqrt(K+1+2i)[:, None] * (1/f)[None, :])).T)", f"returned factor: {deta}", where)
    chk.sample({"rule": "R-C09-6", "f_recurrence": T.show(floop["out"], 6), "column_recurrence": T.show(inner["out"], 6)})


def _is_full(s):
    if isinstance(s, slice):
        return s == slice(None, None, None)
    return isinstance(s, T.Term) and s.op == "slice" and all(x is None for x in s.args)


def _idx_kind(idx):
    if isinstance(idx, tuple) and len(idx) == 2:
        if _is_full(idx[0]) and idx[1] is None:
            return "rows"
        if idx[0] is None and _is_full(idx[1]):
            return "cols"
    return None


def _factors(t):
    if isinstance(t, T.Term) and t.op == "mul":
        return _factors(t.args[0]) + _factors(t.args[1])
    return [t]


# --------------------------------------------------------------------------- index semantics (arange / None-indexing / vmap / flip)
class Arr:
    """A symbolic array: shape (tuple of size terms / ints) and an entry function from index tuples to terms."""

    def __init__(self, shape, elem):
        self.shape = tuple(shape)
        self.elem = elem


class _NoIndexSemantics(Exception):
    pass


def _elementwise_formula(it, fn, nargs):
    """fn applied to atoms; must consist of elementwise operations only."""
    xs = [T.atom(f"$e{i}") for i in range(nargs)]
    body = it.call(fn, xs, {}, "<harness>")
    for x in T.subterms(body):
        if isinstance(x, T.Term) and x.op not in _ELEMENTWISE:
            raise _NoIndexSemantics(f"{x.op} in the body of the mapped function is not elementwise")
    return xs, body


def _apply(it, f, arrs):
    from ..harness import subst

    if isinstance(f, WrappedFn) and f.kind == "vmap":
        in_axes = f.kwargs.get("in_axes", 0)
        out_axis = f.kwargs.get("out_axes", 0)
        if not isinstance(in_axes, (tuple, list)):
            in_axes = (in_axes,) * len(arrs)
        if len(in_axes) != len(arrs) or not isinstance(out_axis, int):
            raise _NoIndexSemantics("vmap axes")
        sizes = [a.shape[ax] for a, ax in zip(arrs, in_axes) if ax is not None]
        if not sizes:
            raise _NoIndexSemantics("vmap without a mapped argument")
        size = sizes[0]

        def sliced(mi):
            out = []
            for a, ax in zip(arrs, in_axes):
                if ax is None:
                    out.append(a)
                else:
                    ax_ = ax % len(a.shape)
                    out.append(Arr(a.shape[:ax_] + a.shape[ax_ + 1:], (lambda a=a, ax_=ax_: lambda r: a.elem(tuple(r[:ax_]) + (mi,) + tuple(r[ax_:])))()))
            return out

        probe = _apply(it, f.fn, sliced(T.atom("$m")))
        nd = len(probe.shape) + 1
        oa = out_axis % nd
        shape = probe.shape[:oa] + (size,) + probe.shape[oa:]

        def elem(idx):
            mi = idx[oa]
            rest = tuple(idx[:oa]) + tuple(idx[oa + 1:])
            return _apply(it, f.fn, sliced(mi)).elem(rest)

        return Arr(shape, elem)
    if isinstance(f, (Closure,)) or callable(getattr(f, "__call__", None)):
        xs, body = _elementwise_formula(it, f, len(arrs))
        nd = max(len(a.shape) for a in arrs)
        shape = []
        for k in range(nd):
            dims = []
            for a in arrs:
                off = k - (nd - len(a.shape))
                if off >= 0:
                    dims.append(a.shape[off])
            big = [d for d in dims if d != 1]
            if len({(d.uid if isinstance(d, T.Term) else d) for d in big}) > 1:
                raise _NoIndexSemantics("broadcast of different sizes")
            shape.append(big[0] if big else 1)

        def elem(idx):
            mp = {}
            for x, a in zip(xs, arrs):
                off = nd - len(a.shape)
                sub = tuple(0 if a.shape[k] == 1 else idx[k + off] for k in range(len(a.shape)))
                mp[x.uid] = a.elem(sub)
            return subst(body, mp)

        return Arr(shape, elem)
    raise _NoIndexSemantics(f"callable {f!r}")


def _ev(it, t):
    if isinstance(t, T.Term) and t.op == "np.arange" and len(t.args) == 2 and not t.kwargs:
        lo, hi = t.args
        return Arr((m_("sub", (hi, lo)) if nf.norm(lo) != nf.const(0) else hi,), lambda idx: idx[0] if nf.norm(lo) == nf.const(0) else m_("add", (lo, idx[0])))
    if isinstance(t, T.Term) and t.op == "getitem":
        a = _ev(it, t.args[0])
        idx = t.args[1]
        if isinstance(idx, int) and not isinstance(idx, bool):
            return Arr(a.shape[1:], lambda r: a.elem((idx,) + tuple(r)))
        if idx is None:
            idx = (None,) + (slice(None, None, None),) * len(a.shape)
        if isinstance(idx, tuple):
            # slices keep an axis, None inserts an axis of length one
            shape, plan, k = [], [], 0
            for s in idx:
                if s is None:
                    shape.append(1)
                    plan.append(None)
                elif _is_full(s):
                    shape.append(a.shape[k])
                    plan.append(k)
                    k += 1
                else:
                    raise _NoIndexSemantics("index")
            if k != len(a.shape):
                raise _NoIndexSemantics("index rank")
            return Arr(shape, lambda r: a.elem(tuple(r[p] for p, src in enumerate(plan) if src is not None)))
        raise _NoIndexSemantics("index")
    if isinstance(t, T.Term) and t.op == "vmap_apply":
        return _apply(it, t.args[0], [_ev(it, x) for x in t.args[1:]])
    if isinstance(t, T.Term) and t.op == "np.flip" and len(t.args) == 1:
        a = _ev(it, t.args[0])
        axis = t.kwargs.get("axis")
        axes = range(len(a.shape)) if axis is None else [axis % len(a.shape)]
        return Arr(a.shape, lambda r: a.elem(tuple(m_("sub", (m_("sub", (a.shape[k], 1)), r[k])) if k in axes else r[k] for k in range(len(a.shape)))))
    if isinstance(t, T.Term) and t.op in _ELEMENTWISE and t.op != "atom":
        kids = [_ev(it, x) if isinstance(x, T.Term) else Arr((), (lambda x=x: lambda r: x)()) for x in t.args]
        nd = max(len(a.shape) for a in kids)
        shape = []
        for k in range(nd):
            dims = [a.shape[k - (nd - len(a.shape))] for a in kids if k - (nd - len(a.shape)) >= 0]
            big = [d for d in dims if d != 1]
            if len({(d.uid if isinstance(d, T.Term) else d) for d in big}) > 1:
                raise _NoIndexSemantics("broadcast of different sizes")
            shape.append(big[0] if big else 1)

        def elem(idx, t=t, kids=kids, nd=nd):
            args = []
            for a in kids:
                off = nd - len(a.shape)
                args.append(a.elem(tuple(0 if a.shape[k] == 1 else idx[k + off] for k in range(len(a.shape)))))
            return m_(t.op, tuple(args), kwargs=dict(t.kwargs))

        return Arr(shape, elem)
    raise _NoIndexSemantics(f"{getattr(t, 'op', type(t).__name__)}")


_ELEMENTWISE = {"add", "sub", "mul", "div", "neg", "pow", "np.factorial", "np.sqrt", "np.abs", "np.exp", "np.asarray", "atom"}


# --------------------------------------------------------------------------- the system matrices
def iwp_rules(chk, S):
    r7 = chk.rule("R-C09-7", "integrated Wiener process: transition entries C(q-i, q-j) (the Taylor transition in the coordinates of the preconditioner), noise factor with Gram matrix "
                  "flip(Hilbert(q+1)) by Gram-preserving steps, and the same number of derivatives for system matrices and preconditioner in every factory", floor=10)
    where = "probdiffeq/_probdiffeq/utilities.py"
    q = A("q")
    it = S.interp()

    def hil(itp, fn, a, kw, site):
        return m_("HILBERT", (a[0], kw.get("K", a[1] if len(a) > 1 else 0)), origin=site)

    it.method_hooks[f"{CHOL}.cholesky_hilbert"] = hil
    try:
        out = it.call(it.function_value(f"{UTIL}.system_matrices_1d_iwp"), [q], {}, "<harness>")
    except (AnalysisError, RaiseSignal) as e:
        r7.unknown("system_matrices_1d_iwp", f"not analysed: {e}", where)
        return
    S.absorb(it)
    if not (isinstance(out, (tuple, list)) and len(out) == 2):
        r7.unknown("system_matrices_1d_iwp", f"returns {T.show(out, 3)}", where)
        return
    a1, q1 = out
    # ---- transition
    i, j = A("i"), A("j")
    try:
        arr = _ev(it, a1)
        ok_shape = len(arr.shape) == 2 and all(nf.norm(s_) == nf.norm(m_("add", (q, 1))) for s_ in arr.shape)
        r7.require(ok_shape, "transition shape", "(q+1) x (q+1)", f"shape {[T.show(s_, 2) for s_ in arr.shape]}", where)
        entry = arr.elem((i, j))
        fact = lambda x: m_("np.factorial", (x,))  # noqa: E731
        ref = m_("div", (fact(m_("sub", (q, i))), m_("mul", (fact(m_("sub", (j, i))), fact(m_("sub", (q, j)))))))
        r7.require(nf.rat_equal(nf.norm(entry), nf.norm(ref)), "transition entries", "A[i, j] = (q-i)! / ((j-i)! (q-j)!)",
                   f"A[i, j] = {T.show(nf.canon(entry), 6)}; the Taylor transition dt^(j-i)/(j-i)! in the coordinates dt^(q-i)/(q-i)! of the preconditioner is (q-i)!/((j-i)!(q-j)!)", where)
    except _NoIndexSemantics as e:
        r7.unknown("transition entries", f"index semantics of {T.show(a1, 4)} not derived: {e}", where)
    # ---- noise factor: walk down to the Hilbert factor
    steps = []
    cur = q1
    gram = "G"  # Gram matrix of the current factor, as a transformation of the Gram matrix of what is below
    verdict = None
    # (1) unit-sign column scaling
    fs = _factors(cur)
    if len(fs) == 2:
        sc = [x for x in fs if isinstance(x, T.Term) and x.op == "getitem" and _idx_kind(x.args[1]) in ("rows", "cols")]
        if len(sc) == 1:
            s_ = sc[0]
            base = next(x for x in fs if x is not s_)
            kind = _idx_kind(s_.args[1])
            unit = _is_unit_sign(s_.args[0])
            if unit is None:
                verdict = (None, f"scaling vector {T.show(s_.args[0], 4)} not recognised as a vector of signs")
            elif kind == "rows":
                verdict = (False, f"the signs scale the ROWS ({T.show(s_, 3)}): D M M^T D differs from M M^T wherever two rows have different signs; only a column scaling M D keeps the Gram matrix")
            else:
                steps.append("columns scaled by unit signs (Gram unchanged)")
                cur = base
    # (2) (qr_r(F^T))^T
    if verdict is None:
        if isinstance(cur, T.Term) and cur.op == "attr" and cur.args[1] == "T" and isinstance(cur.args[0], T.Term) and cur.args[0].op == "linalg.qr_r" \
                and isinstance(cur.args[0].args[0], T.Term) and cur.args[0].args[0].op == "attr" and cur.args[0].args[0].args[1] == "T":
            steps.append("R = qr_r(F^T), returned R^T: R^T R = F F^T (Gram unchanged)")
            cur = cur.args[0].args[0].args[0]
        elif isinstance(cur, T.Term) and (cur.op == "linalg.qr_r" or (cur.op == "attr" and isinstance(cur.args[0], T.Term) and cur.args[0].op == "linalg.qr_r")):
            verdict = (False, f"{T.show(cur, 4)}: qr_r(M) has the Gram matrix M^T M; the lower factor with Gram F F^T is qr_r(F^T)^T")
    # (3) flip
    flipped = None
    if verdict is None:
        if isinstance(cur, T.Term) and cur.op == "np.flip" and len(cur.args) == 1:
            axis = cur.kwargs.get("axis")
            if axis in (0, None, -2):
                flipped = True
                steps.append("rows reversed: Gram J H J = flip(H)")
                cur = cur.args[0]
            else:
                verdict = (False, f"np.flip(..., axis={axis}) reverses the columns of the factor: (L J)(L J)^T = L L^T, the Hilbert matrix is not flipped")
        else:
            flipped = False
    # (4) the Hilbert factor of size q + 1
    if verdict is None:
        if isinstance(cur, T.Term) and cur.op == "HILBERT":
            okn = nf.norm(cur.args[0]) == nf.norm(m_("add", (q, 1))) and nf.norm(cur.args[1]) == nf.const(0)
            if not okn:
                verdict = (False, f"Hilbert factor of size {T.show(cur.args[0], 3)} with shift {T.show(cur.args[1], 2)}; the q-times integrated Wiener process needs size q + 1, shift 0")
            elif not flipped:
                verdict = (False, "the Hilbert factor is not flipped: the preconditioned process noise is 1/((q-i)+(q-j)+1) = flip(H)[i, j]")
            else:
                verdict = (True, "; ".join(steps) + "; Gram(Q)[i, j] = H[q-i, q-j] = 1/(2q+1-i-j)")
        else:
            verdict = (None, f"chain to the Hilbert factor not recognised at {T.show(cur, 5)}")
    r7.require(verdict[0], "noise factor Gram matrix", verdict[1], f"noise factor {T.show(q1, 6)}: {verdict[1]}", where)
    # ---- factories: same number of derivatives for both tables, len(tcoeffs) - 1 (+ diffuse derivatives)
    for mod, cls in ((DENSE, "state_space_model_dense"), (ISO, "state_space_model_isotropic"), (BLOCK, "state_space_model_blockdiag")):
        for ncoef, ndiff in ((1, 0), (3, 0), (2, 2)):
            it2 = S.interp()
            rec = []

            def h1(itp, fn, a, kw, site, rec=rec):
                rec.append(("system matrices", a[0] if a else kw.get("num_derivatives")))
                return (T.atom("A1d"), T.atom("Q1d"))

            def h2(itp, fn, a, kw, site, rec=rec):
                rec.append(("preconditioner", a[0] if a else kw.get("num_derivatives")))
                return T.atom("precon")

            it2.method_hooks[f"{UTIL}.system_matrices_1d_iwp"] = h1
            it2.method_hooks[f"{UTIL}.preconditioner_taylor"] = h2
            cfg = {"model": cls, "coefficients": ncoef, "diffuse": ndiff}
            name = f"{cls}.prior_wiener_integrated_diffuse [{ncoef} coefficients + {ndiff} diffuse]"
            try:
                ssm = it2.instantiate(it2.class_value(f"{mod}.{cls}"), [], {}, "<harness>")
                mean = [T.atom(f"m{k}", array=True) for k in range(ncoef)]
                std = [T.atom(f"s{k}", array=True) for k in range(ncoef)]
                call(it2, method(it2, ssm, "prior_wiener_integrated_diffuse"), mean, std, diffuse_derivatives=ndiff, diffuse_eps=A("deps"), output_scale=None)
            except (AnalysisError, RaiseSignal) as e:
                r7.unknown(name, f"not analysed: {e}", mod, cfg)
                continue
            S.absorb(it2)
            want = ncoef + ndiff - 1
            vals = dict(rec)
            ok = len(rec) == 2 and vals.get("system matrices") == want and vals.get("preconditioner") == want
            r7.require(ok, name, f"both tables built for {want} derivatives", f"calls {rec}; the state has {ncoef + ndiff} coefficients, i.e. {want} derivatives", mod, cfg)


def _is_unit_sign(s):
    """True if s is a vector with entries in {-1, +1}:  where(sign(x) == 0, 1, sign(x)).  None if not recognised."""
    if isinstance(s, T.Term) and s.op == "np.where" and len(s.args) == 3:
        c, a, b = s.args
        one = nf._num(a) == 1
        sg = isinstance(b, T.Term) and b.op == "np.sign"
        cz = isinstance(c, T.Term) and c.op == "eq" and any(x is b for x in c.args) and any(nf._num(x) == 0 for x in c.args)
        if one and sg and cz:
            return True
        # the mirrored form where(sign(x) != 0, sign(x), 1)
        one2 = nf._num(b) == 1
        sg2 = isinstance(a, T.Term) and a.op == "np.sign"
        cz2 = isinstance(c, T.Term) and c.op == "ne" and any(x is a for x in c.args) and any(nf._num(x) == 0 for x in c.args)
        if one2 and sg2 and cz2:
            return True
    return None


# --------------------------------------------------------------------------- prior factories: base scale and SDE assembly
def factory_rules(chk, S):
    """'Process noise scales linearly with the base output scale' and the companion form of the exponential priors, at the factories.

    R-C09-4 shows that a transition multiplies the stored factor Q (dense) / q_sqrtm * output_scale (isotropic, block-diagonal) / the dispersion B
    (exponential) by sqrt|dt| and the calibrated scale; here: what the factories store is *linear* in the user's base scale -- the processed scale
    itself, once -- and the drift / dispersion of  d(u, u', ..., u^(q)) = A (.) dt + B dW  have the companion structure: ones on the first block
    super-diagonal, the Jacobian of the user's vector field in the LAST d rows, noise entering the LAST coefficient only."""
    from ..harness import PROBLEMS, Rec

    r8 = chk.rule("R-C09-8", "prior factories: the stored noise factor is linear in the processed base scale (Q = kron(q, Lambda), B = kron(e_last, Lambda), output_scale stored unchanged); "
                  "exponential priors in companion form (shift on the first block super-diagonal, drift Jacobian in the last d rows, dispersion on the last coefficient)", floor=8)
    sq = T.atom("a_1d"), T.atom("q_1d")
    for mod, cls, fam in ((DENSE, "state_space_model_dense", "dense"), (ISO, "state_space_model_isotropic", "isotropic"), (BLOCK, "state_space_model_blockdiag", "blockdiag")):
        for ctor in ("prior_wiener_integrated_diffuse", "prior_exponential_diffuse"):
            if fam != "dense" and ctor.startswith("prior_exp"):
                continue  # documented as not implemented (C20 / C14 check the NotImplementedError)
            it = S.interp()
            it.method_hooks[UTIL + ".system_matrices_1d_iwp"] = lambda itp, fn, a, kw, site: sq
            lam = T.atom("LAMBDA")
            if fam == "dense":
                it.method_hooks[f"{mod}.{cls}._process_base_scale"] = lambda itp, fn, a, kw, site, lam=lam: lam
            mean = [T.atom(f"m{i}", array=True) for i in range(3)]
            std = [T.atom(f"s{i}", array=True) for i in range(3)]
            osc = T.atom("oscale", array=True)
            name = f"{cls}.{ctor}"
            try:
                ssm = it.instantiate(it.class_value(f"{mod}.{cls}"), [], {}, "<harness>")
                if ctor.startswith("prior_exp"):
                    ode = it.instantiate(it.class_value(PROBLEMS + ".JetOdeAutonomous"), [A("auto")], dict(jacobian=A("jac"), num_tcoeffs_in_args=3, tcoeff_indices_output=[3]), "<harness>")
                    prior = call(it, method(it, ssm, ctor), ode, mean, std, output_scale=osc)
                else:
                    prior = call(it, method(it, ssm, ctor), mean, std, output_scale=osc)
            except (AnalysisError, RaiseSignal) as e:
                r8.unknown(name, f"not analysed: {e}", mod)
                continue
            S.absorb(it)
            if not isinstance(prior, Rec):
                r8.unknown(name, f"returns {T.show(prior, 2)}", mod)
                continue
            f = prior.fields
            d_ = m_("getitem", (m_("attr", (m_("tree.ravel", (mean[0],)), "shape")), 0))
            eye_d = m_("np.eye", (d_,))
            if fam == "dense":
                r8.require(f.get("output_scale") is lam, f"{name} base scale", "the processed base scale Lambda is stored once", f"output_scale = {T.show(f.get('output_scale'), 3)}", mod)
                if ctor.startswith("prior_wiener"):
                    r8.require(f.get("Q") is m_("np.kron", (sq[1], lam)), f"{name} noise factor", "Q = kron(q_1d, Lambda): linear in the base scale, coefficient-major", f"Q = {T.show(f.get('Q'), 4)}", mod)
                    r8.require(f.get("A") is m_("np.kron", (sq[0], eye_d)), f"{name} transition", "A = kron(a_1d, I_d)", f"A = {T.show(f.get('A'), 4)}", mod)
                else:
                    b = f.get("B")
                    e_last = None
                    if isinstance(b, T.Term) and b.op == "np.kron" and len(b.args) == 2 and b.args[1] is lam:
                        e_last = b.args[0]
                    okb = False
                    if isinstance(e_last, T.Term) and e_last.op == "getitem" and _idx_kind(e_last.args[1]) == "rows":
                        row = e_last.args[0]
                        okb = isinstance(row, T.Term) and row.op == "getitem" and row.args[1] == -1 and isinstance(row.args[0], T.Term) and row.args[0].op == "np.eye" and nf.norm(row.args[0].args[0]) == nf.const(3) and len(row.args[0].args) == 1
                    r8.require(okb, f"{name} dispersion", "B = kron(e_last[:, None], Lambda): the noise enters the highest coefficient, linear in the base scale", f"B = {T.show(b, 5)}", mod)
                    a = f.get("A")
                    st = _at_set(a)
                    oka = False
                    deta = T.show(a, 5)
                    if st is not None:
                        base, where_, val = st
                        shift = base.args[0] if isinstance(base, T.Term) and base.op == "np.kron" and len(base.args) == 2 and base.args[1] is eye_d else None
                        oks = isinstance(shift, T.Term) and shift.op == "linalg.diagonal_matrix" and shift.kwargs.get("k", shift.args[1] if len(shift.args) > 1 else 0) == 1 \
                            and isinstance(shift.args[0], T.Term) and shift.args[0].op == "np.ones" and shift.args[0].args[0] == (2,)
                        rows = where_[0] if isinstance(where_, tuple) and len(where_) == 2 and _is_full(where_[1]) else None
                        lo = rows.start if isinstance(rows, slice) else (rows.args[0] if isinstance(rows, T.Term) and rows.op == "slice" else None)
                        hi = rows.stop if isinstance(rows, slice) else (rows.args[1] if isinstance(rows, T.Term) and rows.op == "slice" and len(rows.args) > 1 else None)
                        okr = lo is not None and hi is None and nf.norm(lo) == nf.norm(m_("neg", (d_,)))
                        okv = isinstance(val, T.Term) and val.op == "jac_apply"
                        oka = bool(oks and okr and okv)
                        deta = f"shift {T.show(shift, 3)}, rows {T.show(rows, 3)}, block {T.show(val, 2)}"
                    r8.require(oka, f"{name} drift", "A = kron(diag(ones(q), k=1), I_d) with the Jacobian of the vector field written into the last d rows", f"A: {deta}", mod)
            else:
                want = osc if fam == "isotropic" else m_("tree.ravel", (osc,))
                r8.require(f.get("output_scale") is want, f"{name} base scale", "the user's base scale is stored unchanged (flattened per dimension in the block-diagonal model)", f"output_scale = {T.show(f.get('output_scale'), 3)}", mod)
                r8.require(f.get("q_sqrtm") is sq[1], f"{name} noise factor", "q_sqrtm = the 1-d factor of system_matrices_1d_iwp", f"q_sqrtm = {T.show(f.get('q_sqrtm'), 3)}", mod)
                r8.require((f.get("A") if "A" in f else f.get("a")) is sq[0], f"{name} transition", "the 1-d transition of system_matrices_1d_iwp", f"{T.show(f.get('A') if 'A' in f else f.get('a'), 3)}", mod)
