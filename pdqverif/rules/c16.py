"""C16 -- two necessary conditions for AD derivatives to be the true derivatives."""

from __future__ import annotations

import ast

from .. import terms as T
from ..harness import ADAPT, SOLVERS, A, PrimV, Session, call, method, rec_of_atoms
from ..interp import Env, Interp
from ..model import AnalysisError, ModuleInfo, Program

EXPLANATION = (
    "(1) Matrix-structure analysis (upper-triangular / lower-triangular / orthonormal / general) of every custom differentiation "
    "rule in the package (functions decorated with jax.custom_jvp / custom_vjp and their defjvp rules): the tangent returned by a rule "
    "must lie in the tangent space of its primal output -- an upper-triangular primal needs an upper-triangular tangent.  "
    "(2) Stop-gradient discipline: every func.stop_gradient call sits directly under `if self.<flag>` for a constructor flag, "
    "and with the flag off no stop_gradient is executed on the step / rejection-loop paths.  "
    "(3) Finite derivatives at an exact initial state: every Normal class computes its standard deviation from the Cholesky factor through primitives "
    "whose derivative is defined at zero rows (sibling cross-check; qr_r admitted while its custom rule has no division/solve).  "
    "(4) Gram consistency of the custom triangularisation rule, R^T R_dot + R_dot^T R = M^T M_dot + M_dot^T M, decided by rewriting in a free matrix-word algebra "
    "(Q R -> M, Q^T Q -> I): the second necessary condition of a true tangent, and the reason covariances differentiate exactly."
    "  (5) Every loss_* constructor's default solve for Bayes' rule has a reverse-mode derivative wherever it has a value (known finding: the time-series loss defaults to an SVD least-squares solve)."
    "  (6) The class of inputs a custom rule treats by its 'singular' convention contains rank-deficient non-zero matrices: the convention's tangent stays in the tangent space of the primal output, or the selecting test is taken per pivot (known finding: one reduction over the whole diagonal)."
    "  (7) Reverse mode: every flow.while_loop outside the backend is the default of an injectable parameter, none is called directly (known finding: the doubling loop of exp_gram_cholesky)."
)
TRUSTED_VALUE_PRIMITIVES = ("lstsq_svd",)  # R-C16-5 is about the SVD-based solve
LEVEL = "other"
TECHNIQUE = "abstract interpretation of custom AD rules with a matrix-structure lattice and a free matrix-word algebra with rewriting; syntactic dominance + interpretation of flag-guarded stop_gradient sites; primitive-table check of zero-differentiability with sibling cross-check"
LEVEL_TEXT = (
    "Necessary conditions only (seven rules), each decided on the source for all inputs.  That JAX's own rules and their composition give the true "
    "derivative values is a statement about XLA/JAX execution and is not claimed."
)
LEVEL_NOTE = (
    "Trusted structure facts: qr(M) = (Q orthonormal columns, R upper-triangular); triu/tril; products of like-triangular matrices stay triangular; "
    "Q^T X is general; X - strictly_lower(X) is upper-triangular; a common matrix factor of a sum may be pulled out.  A rule that distinguishes input classes (where(all(diagonal(R) != 0), ., .), a static shape test) is judged per class; at a singular R the factorisation has no derivative and R-C16-1 / R-C16-4 admit any finite convention there; R-C16-6 asks that the convention is confined to where it is harmless."
)

ORDER = {"zero": 0, "diag": 1, "upper": 2, "lower": 2, "orth": 2, "general": 3}


def leq(a, b):
    """Structure a is contained in structure b."""
    if a == b or b == "general" or a == "zero":
        return True
    if a == "diag" and b in ("upper", "lower"):
        return True
    return False


def join(a, b):
    if leq(a, b):
        return b
    if leq(b, a):
        return a
    return "general"


def _flatten_sum(t, c, out):
    """t as a signed sum of terms: out gets (coefficient, term)."""
    if isinstance(t, T.Term) and t.op in ("add", "sub") and len(t.args) == 2:
        _flatten_sum(t.args[0], c, out)
        _flatten_sum(t.args[1], c if t.op == "add" else -c, out)
    elif isinstance(t, T.Term) and t.op == "neg":
        _flatten_sum(t.args[0], -c, out)
    elif isinstance(t, T.Term) and t.op == "mul" and len(t.args) == 2 and any(isinstance(x, (int, float)) and not isinstance(x, bool) for x in t.args) and any(isinstance(x, T.Term) for x in t.args):
        k = next(x for x in t.args if isinstance(x, (int, float)))
        _flatten_sum(next(x for x in t.args if isinstance(x, T.Term)), c * k, out)
    else:
        out.append((c, t))


def _matmul_struct(x, y):
    if x == y and x in ("upper", "lower", "diag"):
        return x
    if "zero" in (x, y):
        return "zero"
    if {x, y} <= {"upper", "diag"} or {x, y} <= {"lower", "diag"}:
        return "upper" if "upper" in (x, y) else ("lower" if "lower" in (x, y) else "diag")
    return "general"


def _struct_sum(items):
    """Structure of a signed sum.  Two exact identities beyond the join of the summands:
    a common matrix factor is pulled out (X R - L R + L^T R = (X - L + L^T) R), and a matrix minus its strictly lower (upper) part is its upper (lower) part."""
    items = [(c, x) for c, x in items if c != 0]
    if not items:
        return "zero"
    if len(items) > 1 and all(isinstance(x, T.Term) and x.op == "matmul" for _c, x in items):
        if all(x.args[1] is items[0][1].args[1] for _c, x in items):
            return _matmul_struct(_struct_sum([(c, x.args[0]) for c, x in items]), struct(items[0][1].args[1]))
        if all(x.args[0] is items[0][1].args[0] for _c, x in items):
            return _matmul_struct(struct(items[0][1].args[0]), _struct_sum([(c, x.args[1]) for c, x in items]))
    rest = list(items)
    parts = []
    for c, x in items:
        if not (isinstance(x, T.Term) and (x.op.endswith(".tril") or x.op.endswith(".triu")) and x.args and (c, x) in rest):
            continue
        k = x.args[1] if len(x.args) >= 2 else x.kwargs.get("k", 0)
        lower = x.op.endswith(".tril")
        if not isinstance(k, int) or (lower and k > 0) or (not lower and k < 0):
            continue
        partner = next(((c2, y) for c2, y in rest if y is x.args[0] and c2 == -c), None)
        if partner is None:
            continue
        rest.remove((c, x))
        rest.remove(partner)
        # Y - tril(Y, k<=0) keeps only entries above diagonal k: upper; Y - triu(Y, k>=0): lower
        parts.append("upper" if lower else "lower")
    out = "zero"
    for s_ in parts + [struct(x) for _c, x in rest]:
        out = join(out, s_)
    return out


def struct(t) -> str:
    if not isinstance(t, T.Term):
        return "general"
    op, a = t.op, t.args
    if op == "getitem" and isinstance(a[0], T.Term) and a[0].op.endswith("linalg.qr"):
        mode = a[0].kwargs.get("mode", "reduced")
        if mode in ("reduced", "complete") and a[1] == 0:
            return "orth"
        if mode in ("reduced", "complete") and a[1] == 1:
            return "upper"
    if op.endswith("linalg.qr") and t.kwargs.get("mode") == "r":
        return "upper"
    if op.endswith(".triu"):
        return "upper"
    if op.endswith(".tril"):
        return "lower"
    if op.endswith(".eye") or op.endswith(".identity"):
        return "diag"
    if op.endswith(".where") and len(a) == 3:
        return join(struct(a[1]), struct(a[2]))
    if op == "attr" and a[1] == "T":
        s = struct(a[0])
        return {"upper": "lower", "lower": "upper", "orth": "general"}.get(s, s)
    if op == "matmul":
        x, y = struct(a[0]), struct(a[1])
        if x == y and x in ("upper", "lower", "diag"):
            return x
        if {x, y} <= {"upper", "diag"} or {x, y} <= {"lower", "diag"}:
            return "upper" if "upper" in (x, y) else ("lower" if "lower" in (x, y) else "diag")
        return "general"
    if op in ("add", "sub", "neg"):
        items = []
        _flatten_sum(t, 1, items)
        return _struct_sum(items)
    if op == "mul":
        x, y = struct(a[0]), struct(a[1])
        # elementwise product keeps the smaller support
        for s in ("zero", "diag", "upper", "lower"):
            if s in (x, y):
                return s
        return "general"
    if op.endswith("solve_triangular") and len(a) == 2:
        x, y = struct(a[0]), struct(a[1])
        if x == y and x in ("upper", "lower"):
            return x
        return "general"
    if op.endswith("zeros_like"):
        return "zero"
    return "general"


def custom_rules(p: Program):
    """(module, primal FunctionDef, [rule FunctionDefs]) for every custom_jvp/custom_vjp function."""
    out = []
    for m in p.modules.values():
        prim = {}
        for fn in m.functions.values():
            decs = [ast.unparse(d) for d in fn.decorator_list]
            if any(d.endswith("custom_jvp") or d.endswith("custom_vjp") for d in decs):
                prim[fn.name] = (fn, [])
        for fn in m.functions.values():
            for d in fn.decorator_list:
                ds = ast.unparse(d)
                for name in prim:
                    if ds in (f"{name}.defjvp", f"{name}.defvjp"):
                        prim[name][1].append(fn)
        for name, (fn, rules) in prim.items():
            out.append((m, fn, rules))
    return out


def eval_fn(p: Program, m: ModuleInfo, fn: ast.FunctionDef, args):
    it = Interp(p)
    clo = it.make_closure(fn, Env(None, m), m, f"{m.name}.{fn.name}")
    return it.call(clo, args, {}, "<harness>")


def check_rule(p, m, fn, rule):
    """Returns (ok, detail) for the rule as a whole (kept for the positive control) -- see check_rule_cases for the per-case verdicts."""
    cases = check_rule_cases(p, m, fn, rule)
    bad = [c for c in cases if c[1] is False]
    unk = [c for c in cases if c[1] is None]
    if bad:
        return False, bad[0][2]
    if unk:
        return None, unk[0][2]
    return True, "; ".join(c[2] for c in cases)


def wide_inputs_reached(S):
    """(reached?, description): shape census of every typed qr_r application of the conditional algebra (the scenarios of C08)."""
    from .. import adomain as AD
    from .. import report
    from . import c08

    cached = getattr(S, "_qr_census", None)
    if cached is None:
        AD.QR_CALLS.clear()
        lender = report.Check("C08", "quick", 0, "", level="other")
        try:
            from ..harness import running

            with running("C08"):
                c08.run(lender, Session(S.p))
        except AnalysisError as e:
            S._qr_census = cached = (None, f"census failed: {e}")
            return cached
        calls = list(AD.QR_CALLS)
        notproven = [d for _s, tall, d in calls if not tall]
        if not calls:
            cached = (None, "no typed qr_r application found")
        elif notproven:
            cached = (True, f"{len(notproven)} of {len(calls)} typed applications are not proven tall/square, e.g. {notproven[0]}")
        else:
            cached = (False, f"all {len(calls)} typed qr_r applications of the conditional algebra have at least as many rows as columns")
        S._qr_census = cached
    return cached


def check_rule_cases(p, m, fn, rule):
    """[(label, ok, detail, kind)] -- tangent-space membership per input class distinguished by the rule itself."""
    M, Md = T.atom("M"), T.atom("M_dot")
    primal = eval_fn(p, m, fn, [M])
    res = eval_fn(p, m, rule, [(M,), (Md,)])
    if not (isinstance(res, (tuple, list)) and len(res) == 2):
        return [("every input", None, f"rule returns {T.show(res, 2)}", "all")]
    sp, sr = struct(primal), struct(res[0])
    out = []
    for label, kind, tan, _guard in rule_cases(res[1]):
        st = struct(tan)
        if kind == "singular":
            out.append((label, True, f"R has a zero on its diagonal: the factorisation is not differentiable there, the rule returns the finite convention {T.show(tan, 3)} (tangent {st})", kind))
        else:
            ok = leq(st, sp)
            if not ok and sp == "upper" and provably_upper(tan):
                ok, st = True, "upper (y R^-1 = X - strictly_lower(X) + upper words)"
            out.append((label, ok, f"primal output is {sp}, rule's primal {sr}, rule's tangent {st}: {T.show(tan, 4)}", kind))
    return out


def singular_scope(p, m, fn, rule):
    """[(label, ok, detail)] -- the class of inputs a rule treats by its 'singular' convention contains matrices that are rank-deficient but not zero
    (one exactly-zero pivot: an exact initial value next to diffuse derivatives).  There the code downstream still reads R block-wise as a triangular
    factor, so a convention whose tangent leaves the tangent space of the primal output yields finite, wrong derivatives.  The convention is harmless only
    if its tangent stays inside that space, or if the test that selects it is taken per pivot instead of over the whole diagonal."""
    M, Md = T.atom("M"), T.atom("M_dot")
    primal = eval_fn(p, m, fn, [M])
    res = eval_fn(p, m, rule, [(M,), (Md,)])
    if not (isinstance(res, (tuple, list)) and len(res) == 2):
        return []
    sp = struct(primal)
    out = []
    for label, kind, tan, guard in rule_cases(res[1]):
        if kind != "singular":
            continue
        st = struct(tan)
        inside = leq(st, sp) or (sp == "upper" and provably_upper(tan))
        whole = is_regularity_test(guard)  # all(diagonal(R) != 0): one reduction over every pivot
        ok = True if inside else (False if whole else None)
        out.append((label, ok, f"the convention {T.show(tan, 3)} has a {st} tangent (primal output: {sp}); it is selected by {T.show(guard, 3)}"
                    + (", a single test for the whole matrix: one vanishing pivot (rank-deficient, non-zero input) switches every column to the convention" if whole else "")))
    return out


def primal_consistency(p, m, fn, rule):
    """(ok, detail): the first component a custom JVP rule returns IS the function's value -- under jax.jvp / jax.grad the rule's primal replaces the plain
    evaluation, so a rule that returns something else changes *values* whenever the code is differentiated (and only then)."""
    M, Md = T.atom("M"), T.atom("M_dot")
    primal = eval_fn(p, m, fn, [M])
    res = eval_fn(p, m, rule, [(M,), (Md,)])
    if not (isinstance(res, (tuple, list)) and len(res) == 2):
        return None, f"rule returns {T.show(res, 2)}"
    got = res[0]
    if T._freeze(got) == T._freeze(primal):
        return True, f"rule's primal output = {T.show(primal, 3)}"

    def is_qr(t, mode):
        return isinstance(t, T.Term) and t.op.endswith("linalg.qr") and t.args and t.args[0] is M and t.kwargs.get("mode", "reduced") == mode

    # R of the reduced factorisation is the R factor (mode="r") of the same matrix
    if is_qr(primal, "r") and isinstance(got, T.Term) and got.op == "getitem" and got.args[1] == 1 and is_qr(got.args[0], "reduced"):
        return True, "rule's primal output = R of qr(M, mode='reduced'), the function's value qr(M, mode='r')"
    if is_qr(primal, "r") and any(is_qr(t.args[0], "reduced") for t in T.subterms(got) if isinstance(t, T.Term) and t.op == "getitem" and t.args[1] == 1):
        return False, f"rule's primal output is {T.show(got, 4)}, not the R factor the function returns: under differentiation the value of the function changes"
    return None, f"rule's primal output {T.show(got, 3)} not comparable with the function's value {T.show(primal, 3)}"


# ---------------------------------------------------------------------------
# Case analysis of a rule that distinguishes input classes with jnp.where / a static shape test
def _strip_ext(op):
    return op.rsplit(".", 1)[-1] if op.startswith("ext:") else op


def is_regularity_test(c):
    """all(diagonal(R) != 0): the rule asks whether the triangular factor is regular (no zero on its diagonal)."""
    if not (isinstance(c, T.Term) and _strip_ext(c.op) == "all" and c.args):
        return False
    inner = c.args[0]
    if not (isinstance(inner, T.Term) and inner.op == "ne" and any(isinstance(a_, (int, float)) and a_ == 0 for a_ in inner.args)):
        return False
    d = next((a_ for a_ in inner.args if isinstance(a_, T.Term)), None)
    return isinstance(d, T.Term) and _strip_ext(d.op) in ("diagonal", "diag") and bool(d.args) and struct(d.args[0]) == "upper"


def is_shape_test(c):
    """R.shape[0] != R.shape[1] (a trace-time static test that separates wide inputs)."""
    if not (isinstance(c, T.Term) and c.op in ("ne", "eq") and len(c.args) == 2):
        return False

    def dim(t, i):
        return isinstance(t, T.Term) and t.op == "getitem" and t.args[1] == i and isinstance(t.args[0], T.Term) and t.args[0].op == "attr" and t.args[0].args[1] == "shape"

    return (dim(c.args[0], 0) and dim(c.args[1], 1) and c.args[0].args[0].args[0] is c.args[1].args[0].args[0]) or (dim(c.args[0], 1) and dim(c.args[1], 0) and c.args[0].args[0].args[0] is c.args[1].args[0].args[0])


def select(t, cond, branch):
    """Replace every where(cond, a, b) inside t by a (branch True) or b (branch False)."""
    from ..harness import subst

    mapping = {}
    for x in T.subterms(t):
        if isinstance(x, T.Term) and _strip_ext(x.op) == "where" and len(x.args) == 3 and x.args[0] is cond:
            mapping[x.uid] = x.args[1] if branch else x.args[2]
    if not mapping:
        return t
    out = subst(t, mapping)
    return select(out, cond, branch) if out is not t else out


def rule_cases(tangent):
    """[(label, kind, tangent_under_the_case, guard)], kind in {'regular', 'singular', 'wide', 'all'}."""
    cases = []

    def split_where(label, tan):
        if isinstance(tan, T.Term) and _strip_ext(tan.op) == "where" and len(tan.args) == 3 and is_regularity_test(tan.args[0]):
            c = tan.args[0]
            cases.append((f"{label}regular R", "regular", select(tan.args[1], c, True), c))
            cases.append((f"{label}singular R", "singular", select(tan.args[2], c, False), c))
        else:
            cases.append((f"{label}every input" if label else "every input", "all", tan, None))

    if isinstance(tangent, T.Term) and tangent.op == "ite" and is_shape_test(tangent.args[0]):
        c = tangent.args[0]
        wide, square = (tangent.args[1], tangent.args[2]) if c.op == "ne" else (tangent.args[2], tangent.args[1])
        subject = c.args[0].args[0].args[0]
        if struct(subject) == "upper":
            # the reduced factor R is min(n, m) x m: non-square exactly for wide inputs
            cases.append(("non-square R (wide input)", "wide", wide, c))
            split_where("square R, ", square)
        else:
            # a shape test on anything else (the input itself) also sends the tall inputs to this branch, and those are what the package factorises
            cases.append((f"non-square {T.show(subject, 2)} (tall and wide inputs)", "all", wide, c))
            split_where(f"square {T.show(subject, 2)}, ", square)
    else:
        split_where("", tangent)
    return cases


# ---------------------------------------------------------------------------
# Gram consistency of a triangularisation rule.  With M = Q R, any true tangent R_dot satisfies
#     R^T R_dot + R_dot^T R = M^T M_dot + M_dot^T M            (differentiate R^T R = M^T M).
# The rule is evaluated in a free algebra of matrix words over {Q, R, M, M_dot} with the rewrites  Q R -> M,  R^T Q^T -> M^T,  Q^T Q -> I.
class _NotPoly(Exception):
    pass


def _sym_of(t):
    """('Q'|'R'|'M'|'D', transposed) for the atoms of the rule; None otherwise."""
    if t.op == "atom":
        return {"M": "M", "M_dot": "D"}.get(t.args[0])
    if t.op == "getitem" and isinstance(t.args[0], T.Term) and t.args[0].op.endswith("linalg.qr") and t.args[0].args and isinstance(t.args[0].args[0], T.Term) and t.args[0].args[0].op == "atom" and t.args[0].args[0].args[0] == "M":
        if t.args[0].kwargs.get("mode", "reduced") == "reduced":
            return {0: "Q", 1: "R"}.get(t.args[1])
    if t.op.endswith("linalg.qr") and t.kwargs.get("mode") == "r" and t.args[0].op == "atom" and t.args[0].args[0] == "M":
        return "R"
    return None


def _reduce(word):
    w = list(word)
    changed = True
    while changed:
        changed = False
        for i in range(len(w) - 1):
            a, b = w[i], w[i + 1]
            rep = None
            if a == ("Q", False) and b == ("R", False):
                rep = [("M", False)]
            elif a == ("R", True) and b == ("Q", True):
                rep = [("M", True)]
            elif a == ("Q", True) and b == ("Q", False):
                rep = []
            elif {a[0], b[0]} == {"R", "Rinv"} and a[1] == b[1]:
                rep = []  # R R^-1 = R^-1 R = I, and the transposed versions
            if rep is not None:
                w[i : i + 2] = rep
                changed = True
                break
    return tuple(w)


def _padd(p, q, c=1):
    r = dict(p)
    for w, k in q.items():
        r[w] = r.get(w, 0) + c * k
        if r[w] == 0:
            del r[w]
    return r


def _pmul(p, q):
    r = {}
    for w1, k1 in p.items():
        for w2, k2 in q.items():
            w = _reduce(w1 + w2)
            r[w] = r.get(w, 0) + k1 * k2
            if r[w] == 0:
                del r[w]
    return r


def _ptrans(p):
    return {_reduce(tuple((s, not tr) for s, tr in reversed(w))): k for w, k in p.items()}


def words(t):
    """Polynomial in matrix words of a rule expression; raises _NotPoly for anything else (solves, masks, ...)."""
    if isinstance(t, (int, float)):
        raise _NotPoly("scalar")
    if not isinstance(t, T.Term):
        raise _NotPoly(repr(t))
    s = _sym_of(t)
    if s is not None:
        return {((s, False),): 1}
    if t.op == "attr" and t.args[1] == "T":
        return _ptrans(words(t.args[0]))
    if t.op.endswith("solve_triangular") and len(t.args) == 2 and t.kwargs.get("trans", 0) in (0, "N"):
        # solve_triangular(A, B) = A^-1 B for A in {R, R^T}
        wa = words(t.args[0])
        if len(wa) == 1:
            (w, c), = wa.items()
            if c == 1 and len(w) == 1 and w[0][0] == "R":
                return _pmul({(("Rinv", w[0][1]),): 1}, words(t.args[1]))
        raise _NotPoly("solve with a matrix other than R")
    if t.op.endswith(".tril") or t.op.endswith(".triu"):
        # the triangular part of a matrix is an opaque symbol (it cancels in the Gram identity through its skew-symmetric combination)
        _TRI[t.uid] = t
        return {((f"tri#{t.uid}", False),): 1}
    if t.op == "matmul":
        return _pmul(words(t.args[0]), words(t.args[1]))
    if t.op == "add":
        return _padd(words(t.args[0]), words(t.args[1]))
    if t.op == "sub":
        return _padd(words(t.args[0]), words(t.args[1]), -1)
    if t.op == "neg":
        return _padd({}, words(t.args[0]), -1)
    if t.op == "mul" and any(isinstance(a, (int, float)) for a in t.args):
        k = next(a for a in t.args if isinstance(a, (int, float)))
        o = next(a for a in t.args if not isinstance(a, (int, float)))
        return {w: k * c for w, c in words(o).items() if k * c != 0}
    raise _NotPoly(t.op)


_TRI: dict = {}


def _mask_k(t):
    k = t.args[1] if len(t.args) >= 2 else t.kwargs.get("k", 0)
    return k if isinstance(k, int) and not isinstance(k, bool) else None


def provably_upper(y) -> bool:
    """Is the matrix expression y upper triangular for every input?  Either by the structure lattice, or by the factorisation argument
    y = Y R  with  Y = y R^-1 = X - tril(X, -1) + (upper-triangular words):  X minus its strictly lower part is upper, and upper times R is upper."""
    if struct(y) == "upper":
        return True
    try:
        p = words(y)
    except _NotPoly:
        return False
    yr = _pmul(p, {(("Rinv", False),): 1})
    rest = dict(yr)
    # pair every strictly-lower symbol L = tril(X, k<0 or k=-1) occurring as -c L with c X
    for w, c in list(yr.items()):
        if len(w) == 1 and w[0][0].startswith("tri#") and not w[0][1]:
            tt = _TRI.get(int(w[0][0][4:]))
            if tt is None or not tt.op.endswith(".tril") or _mask_k(tt) != -1:
                continue
            try:
                xw = words(tt.args[0])
            except _NotPoly:
                continue
            # remove  (-c) * X + c * L  ==  -c (X - L)  (upper)
            trial = _padd(rest, xw, c)
            trial = _padd(trial, {w: 1}, -c)
            if len(trial) < len(rest):
                rest = trial
    for w, c in rest.items():
        # what is left must be upper word by word: the transpose of a strictly lower part
        ok = len(w) == 1 and w[0][0].startswith("tri#") and w[0][1] and (lambda tt: tt is not None and tt.op.endswith(".tril") and (_mask_k(tt) or 0) <= 0)(_TRI.get(int(w[0][0][4:])))
        if not ok:
            return False
    return True


def gram_consistent(primal_out, tangent):
    """True / False / None (not decidable by rewriting) with a one-line reason."""
    if isinstance(tangent, T.Term) and tangent.op.endswith(".triu") and tangent.args and (_mask_k(tangent) or 0) == 0:
        inner = tangent.args[0]
        if provably_upper(inner):
            ok, why = gram_consistent(primal_out, inner)
            return ok, f"triu of an expression that is upper triangular for every input (y R^-1 = X - strictly_lower(X) + upper words) only removes rounding residue; {why}"
        inner_ok, _ = gram_consistent(primal_out, inner)
        if inner_ok is True and struct(inner) == "general":
            try:
                single = len(words(inner)) == 1
            except _NotPoly:
                single = False
            if single:
                return False, f"triu of the Gram-consistent general matrix {T.show(inner, 3)} drops a part whose contribution to R^T R_dot + R_dot^T R is non-zero"
        return None, f"triu of {T.show(inner, 3)}: neither proven upper triangular (harmless mask) nor a single general word (harmful mask)"
    R = {(("R", False),): 1}
    want = _padd({(("M", True), ("D", False)): 1}, {(("D", True), ("M", False)): 1})
    try:
        if words(primal_out) != R:
            return None, "rule's primal output is not R of M = Q R"
        td = words(tangent)
    except _NotPoly as e:
        # a structural mask (triu / tril / elementwise product with a mask) of a Gram-consistent general matrix is not Gram-consistent:
        # the removed strictly-lower part L = e_n e_1^T gives R^T L = R_nn e_n e_1^T whose symmetric part is non-zero for invertible R (n >= 2).
        if isinstance(tangent, T.Term) and (tangent.op.endswith(".triu") or tangent.op.endswith(".tril")) and tangent.args:
            inner_ok, _ = gram_consistent(primal_out, tangent.args[0])
            if inner_ok is True and struct(tangent.args[0]) == "general":
                return False, f"{tangent.op.rsplit('.', 1)[1]} of the Gram-consistent general matrix {T.show(tangent.args[0], 3)} drops a part whose contribution to R^T R_dot + R_dot^T R is non-zero"
        return None, f"not a polynomial in Q, R, M, M_dot ({e})"
    lhs = _pmul(_ptrans(R), td)
    lhs = _padd(lhs, _ptrans(lhs))
    if lhs == want:
        return True, "R^T R_dot + R_dot^T R rewrites to M^T M_dot + M_dot^T M (Q R -> M, Q^T Q -> I)"
    return False, f"R^T R_dot + R_dot^T R rewrites to {sorted(lhs.items())}, not to M^T M_dot + M_dot^T M"


def check_gram(p, m, fn, rule):
    cases = check_gram_cases(p, m, fn, rule)
    bad = [c for c in cases if c[1] is False]
    unk = [c for c in cases if c[1] is None]
    if bad:
        return False, bad[0][2]
    if unk:
        return None, unk[0][2]
    return True, "; ".join(c[2] for c in cases)


def check_gram_cases(p, m, fn, rule):
    M, Md = T.atom("M"), T.atom("M_dot")
    res = eval_fn(p, m, rule, [(M,), (Md,)])
    if not (isinstance(res, (tuple, list)) and len(res) == 2):
        return [("every input", None, f"rule returns {T.show(res, 2)}", "all")]
    out = []
    for label, kind, tan, _guard in rule_cases(res[1]):
        ok, det = gram_consistent(res[0], tan)
        out.append((label, ok, det, kind))
    return out


POSITIVE_CONTROL_SRC = '''
import jax
import jax.numpy as jnp

@jax.custom_jvp
def good(arr, /):
    return jnp.linalg.qr(arr, mode="r")

@good.defjvp
def good_jvp(primals, tangents):
    (M,) = primals
    (M_dot,) = tangents
    Q, R = jnp.linalg.qr(M, mode="reduced")
    R_dot = jnp.triu(Q.T @ M_dot)
    return R, R_dot

@jax.custom_jvp
def bad(arr, /):
    return jnp.linalg.qr(arr, mode="r")

@bad.defjvp
def bad_jvp(primals, tangents):
    (M,) = primals
    (M_dot,) = tangents
    Q, R = jnp.linalg.qr(M, mode="reduced")
    return R, Q.T @ M_dot
'''


def _resolves_to_flow_while_loop(m, e):
    """flow.while_loop through the module's own import table (aliases followed)."""
    if isinstance(e, ast.Attribute) and e.attr == "while_loop" and isinstance(e.value, ast.Name):
        imp = m.imports.get(e.value.id)
        return bool(imp) and (imp[-1] == "flow" or str(imp[1]).endswith("backend.flow"))
    if isinstance(e, ast.Name):
        imp = m.imports.get(e.id)
        return bool(imp) and imp[0] == "member" and str(imp[1]).endswith("backend.flow") and imp[2] == "while_loop"
    return False


def while_loop_rules(chk, S):
    """Reverse mode cannot differentiate a loop whose trip count depends on values (jax raises).  The library's answer is injection: the adaptive loop and
    the Gauss-Newton routine take ``while_loop`` as a parameter, so a bounded differentiable loop can be supplied.  A loop that is called directly has no such
    way out: every reverse-mode derivative through its caller fails."""
    r7 = chk.rule("R-C16-7", "reverse mode: every value-dependent loop outside the backend is an injectable parameter (flow.while_loop is a default of a constructor / factory parameter, never called directly)", floor=3)
    p = S.p
    injectable, direct = [], []
    for m in p.modules.values():
        if m.name.startswith("probdiffeq.backend"):
            continue
        parents = {}
        for node in ast.walk(m.tree):
            for ch in ast.iter_child_nodes(node):
                parents[ch] = node
        for node in ast.walk(m.tree):
            if isinstance(node, (ast.FunctionDef, ast.Lambda)):
                a = node.args
                pos = a.posonlyargs + a.args
                pairs = list(zip(pos[len(pos) - len(a.defaults):], a.defaults)) + [(k, d) for k, d in zip(a.kwonlyargs, a.kw_defaults) if d is not None]
                for arg, d in pairs:
                    if _resolves_to_flow_while_loop(m, d):
                        injectable.append((m, node, arg.arg))
            if isinstance(node, ast.Call) and _resolves_to_flow_while_loop(m, node.func):
                cur, names = node, []
                while cur in parents:
                    cur = parents[cur]
                    if isinstance(cur, (ast.FunctionDef, ast.ClassDef)):
                        names.append(cur.name)
                direct.append((m, node, ".".join(reversed(names))))
    for m, node, arg in injectable:
        r7.ok(f"{m.name}.{getattr(node, 'name', '<lambda>')}({arg}=flow.while_loop)", "the loop is a parameter: a differentiable replacement can be supplied", f"{m.relpath}:{node.lineno}")
    for m, node, qual in direct:
        if m.name.endswith(("solvers_via_adaptive_steps", "util.test_util")):
            # the statement is about fixed grids: the adaptive drivers and the test helpers are not on a path a fixed-grid solve can take
            r7.ok(f"{m.name}.{qual} calls flow.while_loop directly (adaptive driver / test helper)", "not on a path a fixed-grid solve can take", f"{m.relpath}:{node.lineno}")
            continue
        r7.fail(f"{m.name}.{qual} calls flow.while_loop directly", f"{ast.unparse(node)[:160]}: a value-dependent trip count with no way to supply another loop -- jax.grad / jax.vjp through every caller raises "
                   "'Reverse-mode differentiation does not work for lax.while_loop'", f"{m.relpath}:{node.lineno}", {})


def run(chk, S: Session):
    _TRI.clear()
    chk.trust("qr(M) = (Q, R) with R upper-triangular", "triu / tril", "products of like-triangular matrices are triangular")
    r1 = chk.rule("R-C16-1", "custom differentiation rules return tangents inside the tangent space of their primal output (structure lattice)", floor=1)
    r2 = chk.rule("R-C16-2", "stop_gradient only directly behind a constructor flag; none executed with the flag off", floor=4)
    r4 = chk.rule("R-C16-4", "custom triangularisation rules are Gram-consistent: R^T R_dot + R_dot^T R = M^T M_dot + M_dot^T M (exact derivatives of every quantity that depends on R through R^T R)", floor=1)
    r6 = chk.rule("R-C16-6", "the 'singular' convention of a custom rule is confined to inputs where it is harmless: its tangent stays in the tangent space of the primal output, or it is selected per pivot "
                  "(rank-deficient non-zero factors -- exact initial values next to diffuse derivatives -- are inputs of this class)", floor=1)
    p = S.p
    rules = custom_rules(p)
    if not rules:
        raise AnalysisError("no custom_jvp / custom_vjp function found (anchor vanished: backend.linalg.qr_r)")
    # positive control (always on): the analysis must accept a tangent-space-respecting rule and reject Q^T M_dot
    pcm = ModuleInfo("pdqverif_positive_control", "<memory>", POSITIVE_CONTROL_SRC)
    ok_good, d_good = check_rule(p, pcm, pcm.functions["good"], pcm.functions["good_jvp"])
    ok_bad, d_bad = check_rule(p, pcm, pcm.functions["bad"], pcm.functions["bad_jvp"])
    if ok_good is not True or ok_bad is not False:
        raise AnalysisError(f"positive control of the structure analysis failed: good -> {ok_good} ({d_good}); bad -> {ok_bad} ({d_bad})")
    g_good, gd_good = check_gram(p, pcm, pcm.functions["good"], pcm.functions["good_jvp"])
    g_bad, gd_bad = check_gram(p, pcm, pcm.functions["bad"], pcm.functions["bad_jvp"])
    if g_good is not False or g_bad is not True:
        raise AnalysisError(f"positive control of the Gram-consistency analysis failed: masked rule -> {g_good} ({gd_good}); Q^T M_dot -> {g_bad} ({gd_bad})")
    chk.extra["positive_control"] = {"good_rule": d_good, "bad_rule": d_bad, "gram_masked_rule": gd_good, "gram_plain_rule": gd_bad}
    for m, fn, rls in rules:
        if not rls:
            r1.unknown(f"{m.name}.{fn.name}", "custom-derivative function without a registered rule in the same module", m.relpath)
            continue
        for rule in rls:
            base = f"{m.name}.{fn.name}"
            where = f"{m.relpath}:{rule.lineno}"
            try:
                cases = check_rule_cases(p, m, fn, rule)
            except AnalysisError as e:
                r1.unknown(base, f"rule {rule.name} could not be analysed: {e}", where)
                continue
            try:
                okp, detp = primal_consistency(p, m, fn, rule)
            except AnalysisError as e:
                okp, detp = None, str(e)
            r1.require(okp, f"{base} primal output of the rule", detp, f"custom rule {rule.name}: {detp}", where)
            wide_reached = None
            for label, ok, detail, kind in cases:
                construct = base if (len(cases) == 1 and kind == "all") else f"{base} [{label}]"
                if kind == "wide":
                    # the simple rule is kept for non-square R: is such an input ever produced by the package?
                    wide_reached = wide_inputs_reached(S)
                    if wide_reached[0] is False:
                        r1.ok(construct, f"never exercised: {wide_reached[1]}", where)
                        continue
                r1.require(ok, construct, detail, f"custom rule {rule.name}: {detail} -- the tangent leaves the tangent space of the primal output, so derivatives through this function are not the true derivatives", where)
                chk.sample({"rule": "R-C16-1", "function": construct, "analysis": detail})
            try:
                scope = singular_scope(p, m, fn, rule)
                if not scope:
                    r6.ok(f"{base} has no whole-matrix singular convention", "the rule distinguishes no class of inputs by a single regularity test", where)
                for label, oks, ds in scope:
                    r6.require(oks, f"{base} [{label}] convention confined to vanishing pivots", ds, f"custom rule {rule.name}: {ds} -- finite but wrong derivatives of everything that reads blocks of R", where)
            except AnalysisError as e:
                r6.unknown(f"{base} singular convention", str(e), where)
            if fn.name.startswith("qr"):
                try:
                    gcases = check_gram_cases(p, m, fn, rule)
                except AnalysisError as e:
                    gcases = [("every input", None, str(e), "all")]
                for label, okg, dg, kind in gcases:
                    construct = f"{base} Gram consistency" if (len(gcases) == 1 and kind == "all") else f"{base} Gram consistency [{label}]"
                    r4.require(okg, construct, dg, f"custom rule {rule.name}: {dg} -- derivatives of covariances R^T R computed through this rule are not the true derivatives", where)
    while_loop_rules(chk, S)
    # ---------------- stop-gradient discipline (syntactic)
    sites = []
    for m in p.modules.values():
        if m.name.startswith("probdiffeq.backend"):
            continue
        parents = {}
        for node in ast.walk(m.tree):
            for ch in ast.iter_child_nodes(node):
                parents[ch] = node
        for node in ast.walk(m.tree):
            if isinstance(node, ast.Call) and ast.unparse(node.func).endswith("stop_gradient"):
                # nearest enclosing If / FunctionDef / ClassDef
                cur, guard, fn_, cls_ = node, None, None, None
                stmt = None
                while cur in parents:
                    par = parents[cur]
                    if isinstance(par, ast.If) and guard is None and cur in par.body and stmt is not None and stmt is cur:
                        guard = par
                    if isinstance(cur, ast.stmt) and stmt is None:
                        stmt = cur
                        if isinstance(par, ast.If) and cur in par.body:
                            guard = par
                    if isinstance(par, ast.FunctionDef) and fn_ is None:
                        fn_ = par
                    if isinstance(par, ast.ClassDef) and cls_ is None:
                        cls_ = par
                    cur = par
                sites.append((m, node, guard, fn_, cls_))
    for m, node, guard, fn_, cls_ in sites:
        where = f"{m.relpath}:{node.lineno}"
        name = f"{m.name}.{cls_.name if cls_ else '?'}.{fn_.name if fn_ else '?'}"
        ok = False
        detail = "not directly inside an `if self.<flag>:` block"
        if guard is not None and isinstance(guard.test, ast.Attribute) and isinstance(guard.test.value, ast.Name) and guard.test.value.id == "self" and cls_ is not None:
            flag = guard.test.attr
            init = next((s for s in cls_.body if isinstance(s, ast.FunctionDef) and s.name == "__init__"), None)
            params = [a.arg for a in (init.args.args + init.args.kwonlyargs)] if init else []
            assigned = init is not None and any(isinstance(s, ast.Assign) and ast.unparse(s.targets[0]) == f"self.{flag}" and ast.unparse(s.value) == flag for s in ast.walk(init))
            ok = flag in params and assigned
            detail = f"guarded by constructor flag self.{flag}" if ok else f"guard self.{flag} is not a constructor parameter"
        r2.require(ok, f"{name} stop_gradient site", detail, f"stop_gradient call {detail}", where)
    r2.require(len(sites) >= 2, "stop_gradient sites found", f"{len(sites)} sites", f"only {len(sites)} stop_gradient call sites found; expected >= 2 (anchor vanished)")
    # ---------------- with the flags off nothing is stopped (interpretation)
    it = S.interp()
    loopcls = it.class_value(ADAPT + ".RejectionLoop")
    for flag_on in (True, False):
        it = S.interp()
        loop = it.instantiate(loopcls, [], dict(solver=A("solver"), clip_dt=False, error=A("error"), control=A("control"), while_loop=PrimV("flow.while_loop"), stop_gradient_through_dt=flag_on), "<harness>")
        st = rec_of_atoms(it, ADAPT + "._RejectionLoopState", "st")
        call(it, method(it, loop, "step_attempt"), st, t1=A("t1"), atol=A("atol"), rtol=A("rtol"), damp=A("damp"))
        n = len([e for e in it.events if e["kind"] == "stop_gradient"])
        r2.require((n > 0) == flag_on, f"RejectionLoop.step_attempt stop_gradient_through_dt={flag_on}", f"{n} stop_gradient calls", f"{n} stop_gradient calls executed with the flag {'on' if flag_on else 'off'}")
        S.absorb(it)
    for sq in sorted(c.qualname for c in S.p.subclasses(SOLVERS + ".ProbabilisticSolver")):
        it = S.interp()
        cv = it.class_value(sq)
        init = it.p.find_class(sq).methods.get("__init__")
        params = [a.arg for a in init.args.kwonlyargs] if init else []
        kw = dict(strategy=A("strategy"), constraint=A("constraint"))
        flags = [p_ for p_ in params if p_.startswith("stop_gradient")]
        for f in flags:
            kw[f] = False
        solver = it.instantiate(cv, [], kw, "<harness>")
        state = rec_of_atoms(it, SOLVERS + ".ProbabilisticSolution", "state")
        call(it, method(it, solver, "step"), state=state, dt=A("dt"), damp=A("damp"))
        n = len([e for e in it.events if e["kind"] == "stop_gradient"])
        r2.require(n == 0, f"{sq.rsplit('.', 1)[1]}.step with stop-gradient flags off", "no stop_gradient executed", f"{n} stop_gradient calls executed although all stop-gradient flags are off")
        S.absorb(it)
    zero_state_rules(chk, S, rules)


# primitives whose derivative is undefined at a zero argument (x / |x|, 1 / (2 sqrt x)); abs is fine in JAX (sign(0) = 0)
UNDEFINED_AT_ZERO = {"linalg.vector_norm", "linalg.matrix_norm", "np.sqrt", "np.linalg.norm", "np.hypot", "linalg.cholesky", "np.log", "np.arccos"}


def _reductions(it, term, root_atom):
    """Primitives applied (directly or through vmap) to a value that depends on ``root_atom``."""
    from ..interp import Closure, WrappedFn

    found = []
    for t in T.subterms(term):
        if not isinstance(t, T.Term):
            continue
        if t.op == "vmap_apply":
            f = t.args[0]
            while isinstance(f, WrappedFn):
                f = f.fn
            args = t.args[1:]
            dep = any(root_atom in T.value_atoms(x) for x in args)
            if isinstance(f, PrimV):
                found.append((f.name, dep, t))
            elif isinstance(f, Closure) and dep:
                try:
                    inner = it.call(f, [T.atom(f"{root_atom}") if root_atom in T.value_atoms(x) else x for x in args], {}, "<harness>")
                    found.extend(_reductions(it, inner, root_atom))
                except Exception:  # noqa: BLE001 -- an un-interpretable body is reported as unknown by the caller (nothing found)
                    found.append(("<uninterpreted closure>", dep, t))
        elif t.op.startswith(("linalg.", "np.")) and t.args:
            dep = any(root_atom in T.value_atoms(x) for x in t.args)
            found.append((t.op, dep, t))
    return found


def _untranspose(t):
    while isinstance(t, T.Term) and t.op == "attr" and t.args[1] == "T":
        t = t.args[0]
    return t


def zero_state_rules(chk, S, rules):
    """An exact initial state (the default) has a zero Cholesky factor: what is reported there must have a derivative at zero."""
    from ..harness import BLOCK, DENSE, ISO

    r3 = chk.rule("R-C16-3", "standard deviations are computed from the Cholesky factor through primitives with a derivative at zero rows (exact initial state)", floor=4)
    # qr_r is admitted as zero-safe only while its custom rule has no division / solve / inverse (finite tangent for every input)
    qr_rules = [(m, fn, rls) for m, fn, rls in rules if fn.name == "qr_r"]
    safe = set()
    for m, fn, rls in qr_rules:
        bad = []
        for rl in rls:
            try:
                res = eval_fn(S.p, m, rl, [(T.atom("M"),), (T.atom("M_dot"),)])
            except AnalysisError as e:
                bad.append(f"rule could not be interpreted: {e}")
                continue
            tan = res[1] if isinstance(res, (tuple, list)) and len(res) == 2 else None
            guards = [g for _l, kind, _t, g in rule_cases(tan) if kind in ("regular", "singular") and g is not None] if tan is not None else []
            for t_ in (T.subterms(tan) if tan is not None else []):
                if not isinstance(t_, T.Term):
                    continue
                opn = _strip_ext(t_.op)
                if t_.op == "div" and isinstance(t_.args[1], T.Term):
                    bad.append(f"division by {T.show(t_.args[1], 2)}")
                if opn in ("solve_triangular", "solve", "inv", "lstsq", "pinv", "reciprocal", "divide"):
                    mat = t_.args[0] if t_.args else None
                    # JAX evaluates both branches of a where: the solve is harmless at a singular R only if its matrix is replaced there (R_safe = where(regular, R, I))
                    safe_here = bool(guards) and all(struct(select(mat, g, False)) in ("diag", "zero") or struct(_untranspose(select(mat, g, False))) == "diag" for g in guards)
                    if not safe_here:
                        bad.append(f"{opn} with {T.show(mat, 2)}, which is singular at a zero input")
        r3.require(not bad, "qr_r custom rule is finite at zero", "no division; every solve uses the identity where R is singular", f"the custom rule of qr_r contains {bad[:2]}", f"{m.relpath}:{fn.lineno}")
        if not bad:
            safe.add("linalg.qr_r")
    if not qr_rules:
        r3.unknown("qr_r custom rule is finite at zero", "no custom rule for qr_r found")
    for mod, cls, rank in ((DENSE, "DenseNormal", 1), (ISO, "IsotropicNormal", 2), (BLOCK, "BlockDiagNormal", 2)):
        it = S.interp()
        mf = T.atom(f"zs_mean_{cls}", ndims={"": rank})
        mf.meta["ndim"] = rank
        cf = T.atom(f"zs_chol_{cls}", ndims={"": rank + 1})
        cf.meta["ndim"] = rank + 1
        rv = it.instantiate(it.class_value(f"{mod}.{cls}"), [mf, cf, A("tf")], {}, "<harness>")
        try:
            sd = it.getattr(rv, "std", "<harness>")
        except AnalysisError as e:
            r3.unknown(f"{cls}.std differentiable at a zero Cholesky factor", str(e), mod)
            continue
        S.absorb(it)
        red = [(n, t) for n, dep, t in _reductions(it, sd, f"zs_chol_{cls}") if dep]
        norms = [(n, t) for n, t in red if n in UNDEFINED_AT_ZERO or n in safe or n == "linalg.qr_r" or n.startswith("<")]
        badp = sorted({n for n, _ in norms if n not in safe})
        if not norms:
            r3.unknown(f"{cls}.std differentiable at a zero Cholesky factor", f"no row-norm reduction of the Cholesky factor recognised in {T.show(sd, 4)}", mod)
            continue
        r3.require(not badp, f"{cls}.std differentiable at a zero Cholesky factor", f"row norms via {sorted({n for n, _ in norms})}",
                   f"row norms of the Cholesky factor via {badp}: the derivative is undefined (NaN) at zero rows, which is the default exact initial state", getattr(norms[0][1], "origin", None) or mod)
    svd_solve_rules(chk, S)


def svd_solve_rules(chk, S):
    """Reverse-mode derivatives through an SVD-based least-squares solve are NaN at repeated singular values (e.g. equal noise levels)."""
    from ..harness import EST

    r5 = chk.rule("R-C16-5", "differentiable losses solve Bayes' rule with a solver whose reverse-mode derivative exists wherever its value does (no SVD-based least squares by default)", floor=1)
    m = S.p.module(EST)
    n = 0
    for fname, fn in sorted(m.functions.items()):
        if not fname.startswith("loss_") or "." in fname:
            continue
        a = fn.args
        params = a.args + a.kwonlyargs
        defaults = [None] * (len(a.args) - len(a.defaults)) + list(a.defaults) + list(a.kw_defaults)
        for p_, d_ in zip(params, defaults):
            if p_.arg != "solve_triu" or d_ is None:
                continue
            n += 1
            src = ast.unparse(d_)
            bad = src.endswith("lstsq_svd") or "lstsq" in src
            r5.require(not bad, f"{fname} default solve", f"solve_triu defaults to {src}",
                       f"solve_triu defaults to {src}: jnp.linalg.lstsq differentiates through an SVD, whose reverse-mode rule divides by differences of singular values -- "
                       "NaN gradients when singular values coincide (equal observation-noise levels at an exact initial state)", f"{m.relpath}:{fn.lineno}")
    if n == 0:
        r5.unknown("loss constructors with a solve_triu parameter", "none found (anchor changed)", m.relpath)
    # the same primitive handed over explicitly inside the solvers (the initial-constraint update): a solve of a differentiated solve() must be differentiable too
    from ..harness import SOLVERS
    from .c08 import _enclosing_function

    sm = S.p.module(SOLVERS)
    for node in ast.walk(sm.tree):
        if isinstance(node, ast.keyword) and node.arg == "solve_triu" and "lstsq" in ast.unparse(node.value):
            src = ast.unparse(node.value)
            fn_ = _enclosing_function(sm, node.value.lineno)
            r5.require(False, f"{fn_} update with {src}", "",
                       f"solve_triu={src}: jnp.linalg.lstsq differentiates through an SVD, whose derivative divides by differences of singular values -- NaN derivatives (both modes) when the observed factor has "
                       "repeated or zero singular values, e.g. an initial constraint on diffuse derivatives with a common diffuse_eps", f"{sm.relpath}:{node.value.lineno}")
