"""C16 -- two necessary conditions for AD derivatives to be the true derivatives."""

from __future__ import annotations

import ast

from .. import terms as T
from ..harness import ADAPT, SOLVERS, A, PrimV, Session, call, method, rec_of_atoms
from ..interp import Env, Interp
from ..model import AnalysisError, ModuleInfo, Program

EXPLANATION = (
    "(1) Matrix-structure analysis (upper-triangular / lower-triangular / orthonormal / general) of every custom differentiation "
    "rule in the package (functions decorated with jax.custom_jvp / custom_vjp and their defjvp rules): the tangent returned by a rule "
    "must lie in the tangent space of its primal output -- an upper-triangular primal needs an upper-triangular tangent.  "
    "(2) Stop-gradient discipline: every func.stop_gradient call sits directly under `if self.<flag>` for a constructor flag, "
    "and with the flag off no stop_gradient is executed on the step / rejection-loop paths."
)
LEVEL = "other"
TECHNIQUE = "abstract interpretation of custom AD rules with a matrix-structure lattice; syntactic dominance + interpretation of flag-guarded stop_gradient sites"
LEVEL_TEXT = (
    "Two necessary conditions only, each decided on the source for all inputs.  That JAX's own rules and their composition give the true "
    "derivative values is a statement about XLA/JAX execution and is not claimed."
)
LEVEL_NOTE = (
    "Trusted structure facts: qr(M) = (Q orthonormal columns, R upper-triangular); triu/tril; products of like-triangular matrices stay triangular; "
    "Q^T X is general.  Known finding F6 (qr_r_jvp) is listed in known_findings.json."
)

ORDER = {"zero": 0, "diag": 1, "upper": 2, "lower": 2, "orth": 2, "general": 3}


def leq(a, b):
    """Structure a is contained in structure b."""
    if a == b or b == "general" or a == "zero":
        return True
    if a == "diag" and b in ("upper", "lower"):
        return True
    return False


def join(a, b):
    if leq(a, b):
        return b
    if leq(b, a):
        return a
    return "general"


def struct(t) -> str:
    if not isinstance(t, T.Term):
        return "general"
    op, a = t.op, t.args
    if op == "getitem" and isinstance(a[0], T.Term) and a[0].op.endswith("linalg.qr"):
        mode = a[0].kwargs.get("mode", "reduced")
        if mode in ("reduced", "complete") and a[1] == 0:
            return "orth"
        if mode in ("reduced", "complete") and a[1] == 1:
            return "upper"
    if op.endswith("linalg.qr") and t.kwargs.get("mode") == "r":
        return "upper"
    if op.endswith(".triu"):
        return "upper"
    if op.endswith(".tril"):
        return "lower"
    if op == "attr" and a[1] == "T":
        s = struct(a[0])
        return {"upper": "lower", "lower": "upper", "orth": "general"}.get(s, s)
    if op == "matmul":
        x, y = struct(a[0]), struct(a[1])
        if x == y and x in ("upper", "lower", "diag"):
            return x
        if {x, y} <= {"upper", "diag"} or {x, y} <= {"lower", "diag"}:
            return "upper" if "upper" in (x, y) else ("lower" if "lower" in (x, y) else "diag")
        return "general"
    if op in ("add", "sub"):
        return join(struct(a[0]), struct(a[1]))
    if op == "neg":
        return struct(a[0])
    if op == "mul":
        x, y = struct(a[0]), struct(a[1])
        # elementwise product keeps the smaller support
        for s in ("zero", "diag", "upper", "lower"):
            if s in (x, y):
                return s
        return "general"
    if op.endswith("solve_triangular") and len(a) == 2:
        x, y = struct(a[0]), struct(a[1])
        if x == y and x in ("upper", "lower"):
            return x
        return "general"
    if op.endswith("zeros_like"):
        return "zero"
    return "general"


def custom_rules(p: Program):
    """(module, primal FunctionDef, [rule FunctionDefs]) for every custom_jvp/custom_vjp function."""
    out = []
    for m in p.modules.values():
        prim = {}
        for fn in m.functions.values():
            decs = [ast.unparse(d) for d in fn.decorator_list]
            if any(d.endswith("custom_jvp") or d.endswith("custom_vjp") for d in decs):
                prim[fn.name] = (fn, [])
        for fn in m.functions.values():
            for d in fn.decorator_list:
                ds = ast.unparse(d)
                for name in prim:
                    if ds in (f"{name}.defjvp", f"{name}.defvjp"):
                        prim[name][1].append(fn)
        for name, (fn, rules) in prim.items():
            out.append((m, fn, rules))
    return out


def eval_fn(p: Program, m: ModuleInfo, fn: ast.FunctionDef, args):
    it = Interp(p)
    clo = it.make_closure(fn, Env(None, m), m, f"{m.name}.{fn.name}")
    return it.call(clo, args, {}, "<harness>")


def check_rule(p, m, fn, rule):
    """Returns (ok, detail)."""
    M, Md = T.atom("M"), T.atom("M_dot")
    primal = eval_fn(p, m, fn, [M])
    res = eval_fn(p, m, rule, [(M,), (Md,)])
    if not (isinstance(res, (tuple, list)) and len(res) == 2):
        return None, f"rule returns {T.show(res, 2)}"
    sp, sr, st = struct(primal), struct(res[0]), struct(res[1])
    ok = leq(st, sp)
    return ok, f"primal output is {sp}, rule's primal {sr}, rule's tangent {st}: {T.show(res[1], 4)}"


POSITIVE_CONTROL_SRC = '''
import jax
import jax.numpy as jnp

@jax.custom_jvp
def good(arr, /):
    return jnp.linalg.qr(arr, mode="r")

@good.defjvp
def good_jvp(primals, tangents):
    (M,) = primals
    (M_dot,) = tangents
    Q, R = jnp.linalg.qr(M, mode="reduced")
    R_dot = jnp.triu(Q.T @ M_dot)
    return R, R_dot

@jax.custom_jvp
def bad(arr, /):
    return jnp.linalg.qr(arr, mode="r")

@bad.defjvp
def bad_jvp(primals, tangents):
    (M,) = primals
    (M_dot,) = tangents
    Q, R = jnp.linalg.qr(M, mode="reduced")
    return R, Q.T @ M_dot
'''


def run(chk, S: Session):
    chk.trust("qr(M) = (Q, R) with R upper-triangular", "triu / tril", "products of like-triangular matrices are triangular")
    r1 = chk.rule("R-C16-1", "custom differentiation rules return tangents inside the tangent space of their primal output (structure lattice)", floor=1)
    r2 = chk.rule("R-C16-2", "stop_gradient only directly behind a constructor flag; none executed with the flag off", floor=4)
    p = S.p
    rules = custom_rules(p)
    if not rules:
        raise AnalysisError("no custom_jvp / custom_vjp function found (anchor vanished: backend.linalg.qr_r)")
    # positive control (always on): the analysis must accept a tangent-space-respecting rule and reject Q^T M_dot
    pcm = ModuleInfo("pdqverif_positive_control", "<memory>", POSITIVE_CONTROL_SRC)
    ok_good, d_good = check_rule(p, pcm, pcm.functions["good"], pcm.functions["good_jvp"])
    ok_bad, d_bad = check_rule(p, pcm, pcm.functions["bad"], pcm.functions["bad_jvp"])
    if ok_good is not True or ok_bad is not False:
        raise AnalysisError(f"positive control of the structure analysis failed: good -> {ok_good} ({d_good}); bad -> {ok_bad} ({d_bad})")
    chk.extra["positive_control"] = {"good_rule": d_good, "bad_rule": d_bad}
    for m, fn, rls in rules:
        if not rls:
            r1.unknown(f"{m.name}.{fn.name}", "custom-derivative function without a registered rule in the same module", m.relpath)
            continue
        for rule in rls:
            try:
                ok, detail = check_rule(p, m, fn, rule)
            except AnalysisError as e:
                r1.unknown(f"{m.name}.{fn.name}", f"rule {rule.name} could not be analysed: {e}", f"{m.relpath}:{rule.lineno}")
                continue
            r1.require(ok, f"{m.name}.{fn.name}", detail, f"custom rule {rule.name}: {detail} -- the tangent leaves the tangent space of the primal output, so derivatives through this function are not the true derivatives",
                       f"{m.relpath}:{rule.lineno}")
            chk.sample({"rule": "R-C16-1", "function": f"{m.name}.{fn.name}", "analysis": detail})
    # ---------------- stop-gradient discipline (syntactic)
    sites = []
    for m in p.modules.values():
        if m.name.startswith("probdiffeq.backend"):
            continue
        parents = {}
        for node in ast.walk(m.tree):
            for ch in ast.iter_child_nodes(node):
                parents[ch] = node
        for node in ast.walk(m.tree):
            if isinstance(node, ast.Call) and ast.unparse(node.func).endswith("stop_gradient"):
                # nearest enclosing If / FunctionDef / ClassDef
                cur, guard, fn_, cls_ = node, None, None, None
                stmt = None
                while cur in parents:
                    par = parents[cur]
                    if isinstance(par, ast.If) and guard is None and cur in par.body and stmt is not None and stmt is cur:
                        guard = par
                    if isinstance(cur, ast.stmt) and stmt is None:
                        stmt = cur
                        if isinstance(par, ast.If) and cur in par.body:
                            guard = par
                    if isinstance(par, ast.FunctionDef) and fn_ is None:
                        fn_ = par
                    if isinstance(par, ast.ClassDef) and cls_ is None:
                        cls_ = par
                    cur = par
                sites.append((m, node, guard, fn_, cls_))
    for m, node, guard, fn_, cls_ in sites:
        where = f"{m.relpath}:{node.lineno}"
        name = f"{m.name}.{cls_.name if cls_ else '?'}.{fn_.name if fn_ else '?'}"
        ok = False
        detail = "not directly inside an `if self.<flag>:` block"
        if guard is not None and isinstance(guard.test, ast.Attribute) and isinstance(guard.test.value, ast.Name) and guard.test.value.id == "self" and cls_ is not None:
            flag = guard.test.attr
            init = next((s for s in cls_.body if isinstance(s, ast.FunctionDef) and s.name == "__init__"), None)
            params = [a.arg for a in (init.args.args + init.args.kwonlyargs)] if init else []
            assigned = init is not None and any(isinstance(s, ast.Assign) and ast.unparse(s.targets[0]) == f"self.{flag}" and ast.unparse(s.value) == flag for s in ast.walk(init))
            ok = flag in params and assigned
            detail = f"guarded by constructor flag self.{flag}" if ok else f"guard self.{flag} is not a constructor parameter"
        r2.require(ok, f"{name} stop_gradient site", detail, f"stop_gradient call {detail}", where)
    r2.require(len(sites) >= 2, "stop_gradient sites found", f"{len(sites)} sites", f"only {len(sites)} stop_gradient call sites found; expected >= 2 (anchor vanished)")
    # ---------------- with the flags off nothing is stopped (interpretation)
    it = S.interp()
    loopcls = it.class_value(ADAPT + ".RejectionLoop")
    for flag_on in (True, False):
        it = S.interp()
        loop = it.instantiate(loopcls, [], dict(solver=A("solver"), clip_dt=False, error=A("error"), control=A("control"), while_loop=PrimV("flow.while_loop"), stop_gradient_through_dt=flag_on), "<harness>")
        st = rec_of_atoms(it, ADAPT + "._RejectionLoopState", "st")
        call(it, method(it, loop, "step_attempt"), st, t1=A("t1"), atol=A("atol"), rtol=A("rtol"), damp=A("damp"))
        n = len([e for e in it.events if e["kind"] == "stop_gradient"])
        r2.require((n > 0) == flag_on, f"RejectionLoop.step_attempt stop_gradient_through_dt={flag_on}", f"{n} stop_gradient calls", f"{n} stop_gradient calls executed with the flag {'on' if flag_on else 'off'}")
        S.absorb(it)
    for sq in sorted(c.qualname for c in S.p.subclasses(SOLVERS + ".ProbabilisticSolver")):
        it = S.interp()
        cv = it.class_value(sq)
        init = it.p.find_class(sq).methods.get("__init__")
        params = [a.arg for a in init.args.kwonlyargs] if init else []
        kw = dict(strategy=A("strategy"), constraint=A("constraint"))
        flags = [p_ for p_ in params if p_.startswith("stop_gradient")]
        for f in flags:
            kw[f] = False
        solver = it.instantiate(cv, [], kw, "<harness>")
        state = rec_of_atoms(it, SOLVERS + ".ProbabilisticSolution", "state")
        call(it, method(it, solver, "step"), state=state, dt=A("dt"), damp=A("damp"))
        n = len([e for e in it.events if e["kind"] == "stop_gradient"])
        r2.require(n == 0, f"{sq.rsplit('.', 1)[1]}.step with stop-gradient flags off", "no stop_gradient executed", f"{n} stop_gradient calls executed although all stop-gradient flags are off")
        S.absorb(it)
