"""C12 -- marginal-likelihood losses: index alignment, running mean, wiring."""

from __future__ import annotations

from .. import nf
from .. import tdomain as TD
from .. import terms as T
from ..harness import EST, A, Rec, Session, call, events, mcalls, method, rec_of_atoms, where_of
from ..model import AnalysisError
from ..tscen import MS

EXPLANATION = (
    "Abstract interpretation + time typestate of MarkovSequence.evaluate_lml and both loss constructors: the terminal datum and observation model "
    "(index -1) meet the terminal marginal; in the reverse scan the k-th backward conditional is applied to the carried variable at its source time and the "
    "datum / observation model consumed in that iteration carry the same index (both sliced [:-1], no offset); the running value is the exact mean "
    "(or sum) of the per-point log-densities (inductive identity in normal form, counter from 1 by 1); the observation model is to_derivative(tcoeff_index, std) "
    "of the right marginal (per time point via vmap); the terminal loss is model.marginalise(marginals).logpdf([u]); the checks on std / posterior precede everything."
)
TRUSTED_VALUE_PRIMITIVES = ("lstsq_svd",)  # default solve of loss_lml_timeseries
LEVEL = "other"
TECHNIQUE = "abstract interpretation over the AST: Markov time typestate with an inductive scan check, value-numbering normal form for the running mean, provenance of slices and indices"
LEVEL_TEXT = (
    "Index alignment and the averaging identity are decided for all data, noise levels, grids and lengths at once; equality with a dense joint Gaussian log-density is numerical and not claimed "
    "(the log-density kernels themselves are C08)."
)
LEVEL_NOTE = "Trusted: typing rules of tdomain.py; bayes_rule_and_logpdf_tree returns (log-density of the datum under the predicted observation, conditioned variable)."


def lam_slice(t):
    """For tree_map(lam(getitem(leaf, idx)), X): returns (idx, X)."""
    if isinstance(t, T.Term) and t.op == "tree.tree_map" and isinstance(t.args[0], T.Term) and t.args[0].op == "lam":
        b = t.args[0].args[1]
        if isinstance(b, T.Term) and b.op == "getitem":
            return b.args[1], t.args[-1]
    if isinstance(t, T.Term) and t.op == "getitem":
        return t.args[1], t.args[0]
    return None


def _run_own(chk, S: Session):
    chk.trust("typing rules of tdomain.py", "bayes_rule_and_logpdf_tree(data, rv) -> (logpdf, conditioned rv)")
    r1 = chk.rule("R-C12-1", "evaluate_lml: terminal datum/model at index -1 on the terminal marginal; scan aligned (conditional k, datum k, model k), inductive typing", floor=10)
    r2 = chk.rule("R-C12-2", "running mean / sum of the log-densities; counter from 1 by 1; the carried value is returned", floor=6)
    r3 = chk.rule("R-C12-3", "loss wiring: observation model = to_derivative(tcoeff_index, std) of the right marginal; marginalise + logpdf; checks first", floor=8)
    for average in (True, False):
        cfg = {"average_pdfs": average}
        it = S.interp()
        ms = rec_of_atoms(it, MS, "ms", {"reverse": True})
        data, model, solve = A("data"), A("model"), A("solve")
        out = call(it, method(it, ms, "evaluate_lml"), [data], model=model, average_pdfs=average, solve_triu=solve)
        S.absorb(it)
        scans = events(it, "scan")
        if len(scans) != 1:
            raise AnalysisError(f"evaluate_lml: expected one scan, found {len(scans)}")
        sc = scans[0]
        where = sc["site"]
        # terminal
        terms = [m for m in T.subterms(sc["init"]) if m.op == "mcall" and m.args[1] == "bayes_rule_and_logpdf_tree"]
        ok = len(terms) == 1
        if ok:
            b0 = terms[0]
            mi = lam_slice(b0.args[0])
            di = lam_slice(b0.args[2][0] if isinstance(b0.args[2], (list, tuple)) else b0.args[2])
            ok = mi is not None and di is not None and mi == (-1, model) and di == (-1, data) and b0.args[3] is ms.fields["marginal"] and b0.kwargs.get("solve_triu") is solve
        r1.require(ok, "MarkovSequence.evaluate_lml terminal value", "model[-1], data[-1] conditioned on the terminal marginal", f"{[T.show(t, 4) for t in terms]}", where, cfg)
        init = sc["init"]
        ok = isinstance(init, tuple) and len(init) == 3 and ok and init[0] is T.mk("getitem", (terms[0], 1)) and init[1] is T.mk("getitem", (terms[0], 0)) and init[2] == 1
        r1.require(ok, "MarkovSequence.evaluate_lml scan init", "(conditioned terminal variable, its log-density, 1)", f"{T.show(init, 3)}", where, cfg)
        # xs alignment
        xs = sc["xs"]
        ok = isinstance(xs, tuple) and len(xs) == 3 and xs[0] is ms.fields["conditional"]
        if ok:
            ms_, ds_ = lam_slice(xs[1]), lam_slice(xs[2][0] if isinstance(xs[2], (list, tuple)) else xs[2])
            ok = ms_ is not None and ds_ is not None and ms_[1] is model and ds_[1] is data and ms_[0] == ds_[0] == slice(None, -1, None)
        r1.require(ok, "MarkovSequence.evaluate_lml alignment", "xs = (conditional, model[:-1], data[:-1]): datum k and model k meet conditional k", f"xs = {T.show(xs, 4)}", where, cfg)
        r1.require(sc["reverse"] is True, "MarkovSequence.evaluate_lml direction", "reverse scan (backward filtering of the data)", f"reverse={sc['reverse']}", where, cfg)
        # induction
        carry, x, new = sc["carry"], sc["x"], sc["new_carry"]
        ok = isinstance(carry, tuple) and len(carry) == 3 and isinstance(x, tuple) and len(x) == 3 and isinstance(new, tuple) and len(new) == 3
        if ok:
            env = TD.TEnv()
            src, dst = A("sigma_src"), A("sigma_dst")
            env.declare(carry[0], ("N", src))
            env.declare(x[0], ("C", src, dst))
            env.declare_obs(x[1])
            tn = env.of(new[0])
            bs = [m for m in T.subterms(new) if m.op == "mcall" and m.args[1] == "bayes_rule_and_logpdf_tree"]
            okb = len(bs) == 1 and bs[0].args[0] is x[1] and (bs[0].args[2] is x[2] or bs[0].args[2] == x[2]) and bs[0].kwargs.get("solve_triu") is solve
            pred = bs[0].args[3] if okb else None
            okp = okb and pred is T.mk("mcall", (x[0], "marginalise", carry[0])) and new[0] is T.mk("getitem", (bs[0], 1))
            r1.require(tn is not None and TD.same(tn[1], dst) and not env.errors and okp, "MarkovSequence.evaluate_lml induction", "predict with conditional k from the carried variable, condition on datum k with model k",
                       f"carry {TD.show_type(tn)}; errors {env.errors[:1]}; update {[T.show(b, 3) for b in bs]}", where, cfg)
            # running value
            lp, n = carry[1], carry[2]
            lpn = T.mk("getitem", (bs[0], 0)) if okb else None
            if average:
                lhs = nf.norm(new[1])
                rhs = nf.norm(T.mk("div", (T.mk("add", (T.mk("mul", (lp, n)), lpn)), T.mk("add", (n, 1))))) if lpn is not None else None
                r2.require(rhs is not None and nf.rat_equal(lhs, rhs), "MarkovSequence.evaluate_lml running mean", "new*(n+1) == old*n + logpdf_k  (so the carried value is the mean of the first n terms)",
                           f"new = {nf.show(nf.norm(new[1]))}", where, cfg)
            else:
                r2.require(lpn is not None and nf.norm(new[1]) == nf.add(nf.norm(lp), nf.norm(lpn)), "MarkovSequence.evaluate_lml running sum", "new == old + logpdf_k", f"new = {nf.show(nf.norm(new[1]))}", where, cfg)
            r2.require(nf.norm(new[2]) == nf.add(nf.norm(n), nf.const(1)), "MarkovSequence.evaluate_lml counter", "n + 1", f"{T.show(new[2])}", where, cfg)
            fin = sc["final"]
            r2.require(isinstance(fin, tuple) and out is fin[1], "MarkovSequence.evaluate_lml returns the carried value", "", f"{T.show(out, 2)}", where, cfg)
            chk.sample({"config": cfg, "update": nf.show(nf.norm(new[1]))})
        else:
            r1.fail("MarkovSequence.evaluate_lml scan structure", f"carry {T.show(carry, 2)}", where, cfg)
    # ---------------- losses
    it = S.interp()
    idx = 1
    loss = it.call(it.function_value(EST + ".loss_lml_terminal_values"), [], {"tcoeff_index": idx}, "<harness>")
    marginals, std, u = A("marginals"), T.atom("std", array=True), T.atom("u", array=True)
    out = it.call(loss, [u], {"marginals": marginals, "std": std}, "<harness>")
    model = T.mk("mcall", (marginals, "to_derivative", idx, std))
    want = T.mk("mcall", (T.mk("mcall", (model, "marginalise", marginals)), "logpdf_tree", [u]))
    r3.require(out is want, "loss_lml_terminal_values", "to_derivative(tcoeff_index, std).marginalise(marginals).logpdf_tree([u])", f"{T.show(out, 5)}", EST)
    gs = [g for g in it.cur_guards if g["exc"] == "ValueError" and "std" in T.atoms_of(g["cond"])]
    r3.require(len(gs) >= 2, "loss_lml_terminal_values std checks", "structure and shape checks of std are passed on every path", f"{len(gs)} guards", EST)
    std_exp = [t for g in gs for t in T.subterms(g["cond"]) if t.op == "getitem" and t.args[1] == idx and t.args[0] is T.mk("attr", (marginals, "std"))]
    r3.require(bool(std_exp), "loss_lml_terminal_values std reference", "std compared with marginals.std[tcoeff_index]", "", EST)
    # time series
    for average in (True, False):
        it = S.interp()
        loss = it.call(it.function_value(EST + ".loss_lml_timeseries"), [], {"average_pdfs": average, "tcoeff_index": idx, "solve_triu": A("solve")}, "<harness>")
        post = rec_of_atoms(it, MS, "post", {"reverse": True, "marginal": T.atom("post.marginal", ndims={"mean_flat": 2}), "conditional": T.atom("post.conditional", ndims={"noise.mean_flat": 2})})
        got = {}

        def hook(itp, fn, a, kw, site, _g=got):
            _g["self"], _g["args"], _g["kw"] = a[0], a[1:], kw
            return A("lml")

        it.method_hooks[EST + ".MarkovSequence.evaluate_lml"] = hook
        out = it.call(loss, [u], {"posterior": post, "std": std}, "<harness>")
        ok = out is A("lml") and "self" in got
        r3.require(ok, "loss_lml_timeseries delegates to evaluate_lml", "", f"{T.show(out, 2)}", EST, {"average_pdfs": average})
        if not ok:
            continue
        slf = got["self"]
        # filtering distributions removed: marginal is post.marginal[-1]
        sl = lam_slice(slf.fields["marginal"]) if isinstance(slf, Rec) else None
        okm = sl is not None and sl[1] is post.fields["marginal"] and (sl[0] == (-1, Ellipsis) or sl[0] == -1) and slf.fields["conditional"] is post.fields["conditional"]
        r3.require(okm, "loss_lml_timeseries removes filtering distributions", "terminal marginal = marginal[-1], conditionals unchanged", f"{T.show(slf, 3)}", EST, {"average_pdfs": average})
        kw = got["kw"]
        r3.require(kw.get("average_pdfs") is average and kw.get("solve_triu") is A("solve") and list(got["args"][0]) == [u], "loss_lml_timeseries forwards options", "average_pdfs, solve_triu, [u]", f"{T.show(kw, 2)}", EST, {"average_pdfs": average})
        vm = [e for e in it.events if e["kind"] == "vmap"]
        okv = len(vm) == 1 and vm[0]["args"] and vm[0]["args"][0] is std and isinstance(kw.get("model"), T.Term) and kw["model"].op == "vmap_apply"
        if okv:
            s_k = A("std_k")
            one = it.call(vm[0]["fn"], [s_k], {}, "<harness>")
            okv = one is T.mk("mcall", (slf.fields["marginal"], "to_derivative", idx, s_k))
        r3.require(okv, "loss_lml_timeseries observation models", "model_k = terminal-marginal.to_derivative(tcoeff_index, std_k), one per time point (vmap over std)", f"model = {T.show(kw.get('model'), 3)}", EST, {"average_pdfs": average})
        gt = [g for g in it.cur_guards if g["exc"] == "TypeError"]
        gv = [g for g in it.cur_guards if g["exc"] == "ValueError" and "std" in T.atoms_of(g["cond"])]
        r3.require(len(gv) >= 2, "loss_lml_timeseries std checks", "std checks passed on every path", f"{len(gv)}", EST, {"average_pdfs": average})
        # the shape the std container is compared with is one std per time point of the sequence that is evaluated -- the stripped one: a sequence that still
        # carries its filtering marginals has a *batched* marginal, and a template built from it demands a shape no valid std has
        refs = [t for g in gv for t in T.subterms(g["cond"]) if t.op == "getitem" and t.args[1] == idx and isinstance(t.args[0], T.Term) and t.args[0].op == "attr" and t.args[0].args[1] == "std"]
        oks = bool(refs) and all(r_.args[0].args[0] is slf.fields["marginal"] for r_ in refs)
        r3.require(oks, "loss_lml_timeseries std template", "N copies of the std of the stripped sequence's (single) marginal",
                   f"the std container is compared with {[T.show(r_.args[0].args[0], 3) for r_ in refs[:1]]}.std[tcoeff_index] stacked N times; the sequence in this scenario still carries its filtering "
                   "marginals (a documented input), so that template has an extra time axis and every valid std is rejected", EST, {"average_pdfs": average})
    S.absorb(it)


def run(chk, S: Session):
    _run_own(chk, S)
    from ..harness import borrow

    rb = chk.rule("R-C12-B", "clause of this statement decided by a rule of C08 (the observation model selects the requested Taylor coefficient; log-density value)", floor=6)
    borrow(chk, S, rb, "C08", lambda r, c: r == "R-C08-3" and ("to_derivative" in c or "logpdf" in c))
