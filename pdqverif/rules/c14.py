"""C14 -- the three factorisations agree where theory says so (structural clauses)."""

from __future__ import annotations

from .. import adomain as AD
from .. import nf
from .. import terms as T
from ..harness import BLOCK, DENSE, ISO, UTIL, A, PrimV, Rec, Session, call, method
from ..interp import _MISSING
from ..model import AnalysisError
from . import c08

EXPLANATION = (
    "(S1) Sibling cross-check: for every interface method implemented by all three factorisations (apply_flat, marginalise, merge, revert, "
    "preconditioner_apply, whitened residual RMS, rescale_cholesky, prototype of the calibrated scale) the unit signatures *inferred* from the three "
    "implementations coincide after erasing the layout (dense (n.d), isotropic (n,d)+(n,n), block-diagonal (d,n)+(d,n,n)); a sibling that deviates is named.  "
    "(R2) Ordered composite axes: the dense state axis is coefficient-major (n major, d minor) wherever it is produced -- kron(a, I_d), kron(q, Lambda), "
    "repeat(p, d), kron(b, Lambda) of the exponential prior, and to_multivariate_normal of the isotropic and block-diagonal models; np.tile for np.repeat, "
    "swapped kron arguments or a missing transpose give (d.n) and are reported.  (3) Zeroth-order linearisation evaluates f at the mean and selects output rows "
    "without a Jacobian in all three factorisations (what makes the Kronecker argument apply); the calibrated-scale prototypes are a scalar for dense/isotropic and per-dimension for block-diagonal.  "
    "(4) The convenience factories (prior_wiener_integrated, prior_exponential) of each model only forward: standard deviations from _tcoeffs_standard_deviation(mean, is_exact, inexact_eps), "
    "then the *_diffuse constructor with diffuse_derivatives / diffuse_eps / output_scale unchanged; _add_diffuse_derivatives appends k zero means and k standard deviations diffuse_eps*ones in every sibling."
)
LEVEL = "other"
TECHNIQUE = "units/shape type inference with ordered composite axes; sibling cross-check of inferred signatures (Engler-style agreement of implementations of one interface)"
LEVEL_TEXT = "Structural reasons for the agreement of the factorisations, decided for all problems and shapes; the numerical equalities themselves are not claimed."
LEVEL_NOTE = "Trusted: primitive signatures of adomain.py; np.kron(a, b) / np.repeat / np.tile / row-major reshape ordering as documented by NumPy."


def erase(fam, t):
    """Layout-erased signature: (labels of the coefficient axes in order, scalar unit)."""
    if t is None:
        return None
    labs = []
    for ax in t.axes:
        if ax.size == fam.d:
            continue
        labs.append(tuple(sorted({s.label for s in ax.segs if not s.poly})))
    return (tuple(labs), t.scalar)


def _scaling_occurrences(t):
    """(scaling atom, 'abs' | 'signed') for every occurrence of a to_latent / to_observed field in a covariance-factor expression."""
    out = []

    def walk(x, under_abs):
        if isinstance(x, (tuple, list)):
            for y in x:
                walk(y, under_abs)
            return
        if not isinstance(x, T.Term):
            return
        if T.is_atom(x):
            nm = T.atom_name(x)
            if nm.endswith("to_latent") or nm.endswith("to_observed"):
                out.append((nm, "abs" if under_abs else "signed"))
            return
        ua = under_abs or x.op == "np.abs"
        for a in x.args:
            walk(a, ua)
        for a in x.kwargs.values():
            walk(a, ua)

    walk(t, False)
    return set(out)


def _run_own(chk, S: Session):
    chk.trust("primitive signatures of adomain.py", "NumPy ordering of kron / repeat / tile / reshape",
              "cholesky_util.triu_via_qr is one function shared by the three siblings and is typed like qr_r (its body is decided by C08, R-C08-8)")
    s1 = chk.rule("R-C14-S1", "sibling agreement of the inferred (layout-erased) unit signatures of the three factorisations", floor=20)
    r2 = chk.rule("R-C14-R2", "dense composite axes are coefficient-major (n major, d minor) at every producer", floor=9)
    r3 = chk.rule("R-C14-3", "TS0 without Jacobian in all three factorisations; calibrated-scale prototypes", floor=6)
    r4 = chk.rule("R-C14-4", "prior factories of the three models: arguments forwarded unchanged to the *_diffuse constructor; diffuse extension as documented in each sibling", floor=12)
    factory_rules(chk, S, r4)
    nin, nout, nmid = AD.dim("n_in"), AD.dim("n_out"), AD.dim("n_mid")
    sigs: dict = {}
    sign_sigs: dict = {}
    for fam in c08.FAMS:
        for meth in ("apply_flat", "marginalise", "revert", "preconditioner_apply", "merge"):
            it = S.interp()
            env = AD.AEnv()
            it.ndim_oracle = env.rank_of
            AD.install_vmap(it, env)
            c08.install_triu_contract(it)  # the one helper all three siblings share, as an opaque triangularisation (its own body is C08's subject, R-C08-8)
            cond = c08.mk_cond(it, env, fam, "c", nin, nout, c08.Ein, c08.Lin, c08.Lout, c08.Eout)
            try:
                if meth == "apply_flat":
                    out = call(it, method(it, cond, meth), c08.typed(env, "x", fam.mean(nin, c08.Ein)))
                elif meth == "marginalise":
                    out = call(it, method(it, cond, meth), c08.mk_normal(it, env, fam, "rv", nin, c08.Ein))
                elif meth == "revert":
                    out = call(it, method(it, cond, meth), c08.mk_normal(it, env, fam, "rv", nin, c08.Ein), solve_triu=PrimV("linalg.solve_triu"))
                elif meth == "preconditioner_apply":
                    out = call(it, method(it, cond, meth))
                else:
                    inner = c08.mk_cond(it, env, fam, "o", nin, nmid, c08.Ein, c08.Lin, c08.Lout, c08.Emid)
                    outer = c08.mk_cond(it, env, fam, "c2", nmid, nout, c08.Emid, c08.Lin2, c08.Lout2, c08.Eout)
                    out = call(it, method(it, outer, "merge"), inner)
            except AnalysisError as e:
                sigs.setdefault(meth, {})[fam.name] = ("error", str(e))
                continue
            S.absorb(it)
            leaves = {}

            def collect(v, path):
                if isinstance(v, Rec):
                    for k, x in v.fields.items():
                        collect(x, f"{path}.{k}")
                elif isinstance(v, (tuple, list)):
                    for i, x in enumerate(v):
                        collect(x, f"{path}[{i}]")
                elif isinstance(v, T.Term) and not path.endswith("tree_flatten"):
                    leaves[path] = erase(fam, env.of(v))

            collect(out, "out")
            sigs.setdefault(meth, {})[fam.name] = leaves
            # sign handling of the diagonal scalings on covariance factors: P C (signed) and |P| C have different Gram matrices as soon as
            # P has entries of both signs (the Taylor preconditioner of a negative time increment), so siblings must make the same choice
            signs = {}

            def collect_signs(v, path):
                if isinstance(v, Rec):
                    for k, x in v.fields.items():
                        collect_signs(x, f"{path}.{k}")
                elif isinstance(v, (tuple, list)):
                    for i, x in enumerate(v):
                        collect_signs(x, f"{path}[{i}]")
                elif isinstance(v, T.Term) and path.endswith("cholesky_flat"):
                    signs[path] = tuple(sorted(_scaling_occurrences(v)))

            collect_signs(out, "out")
            sign_sigs.setdefault(meth, {})[fam.name] = signs
    for meth, by_fam in sorted(sigs.items()):
        names = sorted(by_fam)
        if len(names) < 3:
            s1.fail(f"siblings {meth}", f"implemented by {names} only", None)
            continue
        keys = sorted(set().union(*[set(v) if isinstance(v, dict) else set() for v in by_fam.values()]))
        for k in keys:
            vals = {n: (by_fam[n].get(k) if isinstance(by_fam[n], dict) else by_fam[n]) for n in names}
            known = {n: v for n, v in vals.items() if v is not None}
            distinct = {repr(v) for v in known.values()}
            if len(known) < 3:
                s1.unknown(f"siblings {meth} {k}", f"signature not inferred for {sorted(set(names) - set(known))}")
                continue
            if len(distinct) == 1:
                s1.ok(f"siblings {meth} {k}", f"all three: {list(known.values())[0]}")
            else:
                # name the deviating sibling
                counts = {}
                for n, v in known.items():
                    counts.setdefault(repr(v), []).append(n)
                odd = min(counts.values(), key=len)
                s1.fail(f"siblings {meth} {k}", f"{odd} deviates: {vals}", None)
    s5 = chk.rule("R-C14-5", "sibling agreement on the sign of the diagonal scalings applied to covariance factors (signed P or |P| at corresponding positions of the three factorisations)", floor=5)
    for meth, by_fam in sorted(sign_sigs.items()):
        names = sorted(by_fam)
        keys = sorted(set().union(*[set(v) for v in by_fam.values()]))
        for k in keys:
            vals = {n: by_fam[n].get(k) for n in names}
            if len(names) < 3 or any(v is None for v in vals.values()):
                s5.unknown(f"scaling signs {meth} {k}", f"not derived for every sibling: {vals}")
                continue
            if len({v for v in vals.values()}) == 1:
                s5.ok(f"scaling signs {meth} {k}", f"all three: {vals[names[0]]}")
            else:
                counts = {}
                for n, v in vals.items():
                    counts.setdefault(v, []).append(n)
                odd = min(counts.values(), key=len)
                # the construct names who does what, so that a different disagreement at the same position is a different finding
                desc = "; ".join(f"{n}: " + ", ".join(f"{('|' + a.split('.')[-1] + '|') if how == 'abs' else a.split('.')[-1]}" for a, how in v) for n, v in sorted(vals.items()))
                s5.fail(f"scaling signs {meth} {k} [{desc}]", f"{odd} deviates: {vals} -- for scalings of mixed sign (negative time increments) the siblings return different covariances", None)
    chk.sample({"rule": "R-C14-S1", "revert_signature_dense": {k: repr(v) for k, v in list(sigs.get("revert", {}).get("dense", {}).items())[:4]}})
    composite_rules(chk, S, r2)
    misc_rules(chk, S, r3)


def composite_rules(chk, S, r2):
    # dense priors
    for ctor, fields in (("prior_wiener_integrated_diffuse", ("A", "Q")), ("prior_exponential_diffuse", ("A", "B"))):
        it = S.interp()
        env = AD.AEnv()
        it.ndim_oracle = env.rank_of
        n, d = nf.const(3), AD.dim("d")
        a_at, q_at = T.atom("a_1d"), T.atom("q_1d")
        env.declare(a_at, AD.AT([AD.axis(n), AD.axis(n)]))
        env.declare(q_at, AD.AT([AD.axis(n), AD.axis(n)]))

        def sysmat(itp, fn, a, kw, site):
            return (a_at, q_at)

        it.method_hooks[UTIL + ".system_matrices_1d_iwp"] = sysmat
        mean = [T.atom(f"m{i}", array=True) for i in range(3)]
        std = [T.atom(f"s{i}", array=True) for i in range(3)]
        for x in mean + std:
            env.declare(T.mk("tree.ravel", (x,)), AD.AT([AD.axis(d)]))
        env.declare(T.mk("tree.ravel", (T.mk("call", (T.mk("unravel_of", (mean[0],)), T.mk("np.ones_like", (T.mk("tree.ravel", (mean[0],)),)))),)), AD.AT([AD.axis(d)]))
        ssm = it.instantiate(it.class_value(DENSE + ".state_space_model_dense"), [], {}, "<harness>")
        try:
            if ctor.startswith("prior_exp"):
                from ..harness import PROBLEMS
                ode = it.instantiate(it.class_value(PROBLEMS + ".JetOdeAutonomous"), [A("auto")], dict(jacobian=A("jac"), num_tcoeffs_in_args=3, tcoeff_indices_output=[3]), "<harness>")
                prior = call(it, method(it, ssm, ctor), ode, mean, std)
            else:
                prior = call(it, method(it, ssm, ctor), mean, std)
        except AnalysisError as e:
            r2.unknown(f"dense {ctor}", str(e), DENSE)
            continue
        S.absorb(it)
        for f in fields:
            t = env.of(prior.fields.get(f)) if isinstance(prior, Rec) else None
            comps = None if t is None else [ax.comp for ax in t.axes]
            want_first = ("3", "d")
            ok = t is not None and comps[0] == want_first and (f == "B" or comps[1] == want_first)
            r2.require(True if ok else (None if t is None else False), f"dense {ctor} {f}", f"{f} : {AD.show(t)}", f"{f} has type {AD.show(t)}; its state axes must be coefficient-major (3.d)", DENSE)
    # transition: repeat(p, d)
    for qual, kw in ((DENSE + ".DenseWienerIntegrated", dict(A=A("A"), Q=A("Q"), q0=A("q0"), tree_flatten=A("tf"), precon_fun=A("precon"))), (DENSE + ".DenseExponential", dict(A=A("A"), B=A("B"), q0=A("q0"), tree_flatten=A("tf"), precon_fun=A("precon"), exp_gram=A("eg")))):
        it = S.interp()
        env = AD.AEnv()
        n, d = AD.dim("n"), AD.dim("d")
        dd = T.atom("d")
        pc = T.mk("call", (A("precon"), A("dt")))
        for i in (0, 1):
            env.declare(T.mk("getitem", (pc, i)), AD.AT([AD.axis(n)]))
        kw = dict(kw, d=dd)
        args = [A("init"), A("scale")] + ([kw.pop("A"), kw.pop("B")] if "B" in kw else [])
        prior = it.instantiate(it.class_value(qual), args, kw, "<harness>")
        cond = call(it, method(it, prior, "transition"), dt=A("dt"), output_scale=T.atom("os", array=True))
        S.absorb(it)
        for f in ("to_latent", "to_observed"):
            t = env.of(cond.fields[f])
            ok = t is not None and t.rank == 1 and t.axes[0].comp == ("n", "d")
            r2.require(True if ok else (None if t is None else False), f"{qual.rsplit('.', 1)[1]}.transition {f}", f"{AD.show(t)}", f"{f} has type {AD.show(t)}; the preconditioner must be repeated per coefficient (n.d), not tiled", DENSE)
    # to_multivariate_normal of isotropic / blockdiag
    for fam in c08.FAMS[1:]:
        it = S.interp()
        env = AD.AEnv()
        it.ndim_oracle = env.rank_of
        AD.install_vmap(it, env)
        n = AD.dim("n")
        rv = c08.mk_normal(it, env, fam, "rv", n, AD.ONE)
        try:
            out = call(it, method(it, rv, "to_multivariate_normal"))
        except AnalysisError as e:
            r2.unknown(f"{fam.name} to_multivariate_normal", str(e), fam.module)
            continue
        S.absorb(it)
        tm, tc = (env.of(out[0]), env.of(out[1])) if isinstance(out, (tuple, list)) and len(out) == 2 else (None, None)
        okm = tm is not None and tm.rank == 1 and tm.axes[0].comp == ("n", "d")
        okc = tc is not None and tc.rank == 2 and tc.axes[0].comp == ("n", "d") and tc.axes[1].comp == ("n", "d")
        r2.require(True if okm else (None if tm is None else False), f"{fam.name} to_multivariate_normal mean", f"{AD.show(tm)}", f"dense mean has type {AD.show(tm)}; expected coefficient-major (n.d)", fam.module)
        r2.require(True if okc else (None if tc is None else False), f"{fam.name} to_multivariate_normal covariance", f"{AD.show(tc)}", f"dense covariance has type {AD.show(tc)}; expected ((n.d), (n.d))", fam.module)
        for e in env.errors:
            r2.fail(f"{fam.name} to_multivariate_normal [{e.what}]", e.detail, getattr(e.term, "origin", None) or fam.module)
        chk.sample({"rule": "R-C14-R2", "factorisation": fam.name, "mean": AD.show(tm), "covariance": AD.show(tc)})


def misc_rules(chk, S, r3):
    from .c11 import _vfield_list, first_rec, mk_ode
    for qual in (DENSE + ".DenseOdeTs0", ISO + ".IsotropicOdeTs0", BLOCK + ".BlockDiagOdeTs0"):
        it = S.interp()
        ode = mk_ode(it, 2, vfield=_vfield_list())
        lin = it.instantiate(it.class_value(qual), [], {"ode": ode}, "<harness>")
        out = call(it, method(it, lin, "linearize"), A("rv"), A("state"), damp=A("damp"), t=A("t"))
        S.absorb(it)
        name = qual.rsplit(".", 1)[1]
        cond = first_rec(out[0])
        jac_used = "jac" in T.atoms_of(out) or any(t.op == "jac_apply" and "vfield" in "".join(T.atoms_of(t)) for t in T.subterms(out))
        r3.require(cond is not None and not jac_used, f"{name}.linearize uses no Jacobian of f", "zeroth order: A is a selector, the bias is -f(mean)", "TS0 differentiates the vector field", qual)
        vf = [t for t in T.subterms(out) if t.op == "call" and t.args[0] is A("vfield")]
        r3.require(len(vf) == 1 and "rv" in T.atoms_of(vf[0].kwargs.get("jet_coords")) and all(x.op != "attr" or x.args[1] != "cholesky_flat" for x in T.subterms(vf[0])), f"{name}.linearize evaluates f at the mean only", "", f"{[T.show(v, 3) for v in vf]}", qual)
    for fam in c08.FAMS:
        it = S.interp()
        env = AD.AEnv()
        it.ndim_oracle = env.rank_of
        rv = c08.mk_normal(it, env, fam, "rv", AD.dim("n"), AD.ONE)
        if fam.name == "blockdiag":
            mf = rv.fields["mean_flat"]
            hookd = {}

            def mean_hook(itp, fn, a, kw, site):
                return [T.atom("coef0", array=True), T.atom("coef1", array=True)]

            it.method_hooks[fam.normal_cls + "._mean_batched"] = mean_hook
            env.declare(T.mk("tree.ravel", (T.atom("coef0", array=True),)), AD.AT([AD.axis(fam.d)]))
        p = call(it, method(it, rv, "prototype_output_scale_calibrated"))
        t = env.of(p)
        want_rank = 1 if fam.name == "blockdiag" else 0
        ok = t is not None and t.rank == want_rank and (want_rank == 0 or t.axes[0].size == fam.d)
        r3.require(True if ok else (None if t is None else False), f"{fam.name} prototype_output_scale_calibrated", f"{AD.show(t)}", f"prototype has type {AD.show(t)}; expected {'one scale per dimension (d,)' if want_rank else 'a scalar'}", fam.module)


SSMS = [("dense", DENSE, "state_space_model_dense"), ("isotropic", ISO, "state_space_model_isotropic"), ("blockdiag", BLOCK, "state_space_model_blockdiag")]


def factory_rules(chk, S, r4):
    """Same user arguments -> same initial variable and prior in all three models: the convenience factories only forward."""
    from ..interp import RaiseSignal

    for fam, mod, cls in SSMS:
        qual = f"{mod}.{cls}"
        for fac, with_ode in (("prior_wiener_integrated", False), ("prior_exponential", True)):
            it = S.interp()
            ssm = it.instantiate(it.class_value(qual), [], {}, "<harness>")
            std_calls, dif_calls = [], []

            def std_hook(itp, fn, a, kw, site, _c=std_calls):
                _c.append((a[1:], kw))
                return T.atom("STD")

            def dif_hook(itp, fn, a, kw, site, _c=dif_calls):
                _c.append((a[1:], kw))
                return T.atom("PRIOR")

            it.method_hooks[f"{qual}._tcoeffs_standard_deviation"] = std_hook
            it.method_hooks[f"{qual}.{fac}_diffuse"] = dif_hook
            m = A("tcoeffs_mean")
            kw = {"is_exact": A("is_exact"), "inexact_eps": A("inexact_eps"), "diffuse_derivatives": A("ddiff"), "diffuse_eps": A("deps"), "output_scale": A("oscale")}
            args = [A("ode"), m] if with_ode else [m]
            cfg = {"model": fam, "factory": fac}
            try:
                out = call(it, method(it, ssm, fac), *args, **kw)
            except RaiseSignal as e:
                if getattr(e.exc, "cls_name", "") == "NotImplementedError":
                    r4.ok(f"{cls}.{fac}", "documented as not implemented (raises NotImplementedError before doing anything)", qual, cfg, nontrivial=False)
                else:
                    r4.fail(f"{cls}.{fac}", f"raises {e.exc}", qual, cfg)
                continue
            except AnalysisError as e:
                r4.unknown(f"{cls}.{fac}", str(e), qual, cfg)
                continue
            S.absorb(it)
            ok_std = len(std_calls) == 1 and list(std_calls[0][0]) == [m] and std_calls[0][1] == {"is_exact": kw["is_exact"], "inexact_eps": kw["inexact_eps"]}
            r4.require(ok_std, f"{cls}.{fac} initial standard deviations", "_tcoeffs_standard_deviation(mean, is_exact=is_exact, inexact_eps=inexact_eps)", f"called with {T.show(std_calls, 3)}", qual, cfg)
            want_args = [*args, T.atom("STD")]
            want_kw = {"diffuse_derivatives": kw["diffuse_derivatives"], "diffuse_eps": kw["diffuse_eps"], "output_scale": kw["output_scale"]}
            ok_dif = out is T.atom("PRIOR") and len(dif_calls) == 1 and list(dif_calls[0][0]) == want_args and dif_calls[0][1] == want_kw
            r4.require(ok_dif, f"{cls}.{fac} forwards", f"{fac}_diffuse(..., std, diffuse_derivatives=, diffuse_eps=, output_scale=) unchanged", f"called with {T.show(dif_calls, 3)}", qual, cfg)
        # default standard deviations: exact -> zeros, inexact -> inexact_eps * ones (shaped like the mean / like one scalar per coefficient)
        for exact in (True, False):
            it = S.interp()
            ssm = it.instantiate(it.class_value(qual), [], {}, "<harness>")
            m = [T.atom("sd.m0", array=True), T.atom("sd.m1", array=True)]
            try:
                sd_ = call(it, method(it, ssm, "_tcoeffs_standard_deviation"), m, is_exact=exact, inexact_eps=A("ieps"))
            except (AnalysisError, RaiseSignal) as e:
                r4.unknown(f"{cls}._tcoeffs_standard_deviation(is_exact={exact})", str(e), qual, {"model": fam})
                continue
            S.absorb(it)
            leaves = list(sd_) if isinstance(sd_, (list, tuple)) else []
            if exact:
                ok = len(leaves) == 2 and all(isinstance(x, T.Term) and x.op in ("np.zeros_like", "np.zeros") and not T.value_atoms(x) for x in leaves)
                want = "zeros"
            else:
                from ..hdomain import Hom

                ok = len(leaves) == 2
                for x in leaves:
                    hom = Hom({A("ieps"): 1}, default_atom_degree=0)
                    ok = ok and hom.deg(x) == 1 and T.value_atoms(x) == {"ieps"} and any(t_.op in ("np.ones_like", "np.ones") for t_ in T.subterms(x))
                want = "inexact_eps * ones"
            r4.require(bool(ok), f"{cls}._tcoeffs_standard_deviation(is_exact={exact})", f"one entry per coefficient, {want}", f"{T.show(sd_, 4)}", qual, {"model": fam})
        # "default scales": without an output_scale argument the stored base scale is the unit scale (one per dimension) -- the same prior in all three models
        it = S.interp()
        ssm = it.instantiate(it.class_value(qual), [], {}, "<harness>")
        m = [T.atom("unit.m0", array=False), T.atom("unit.m1", array=False)]
        sd = [T.atom("unit.s0", array=False), T.atom("unit.s1", array=False)]
        try:
            pr = call(it, method(it, ssm, "prior_wiener_integrated_diffuse"), m, sd)
            osc = pr.fields.get("output_scale") if isinstance(pr, Rec) else None
            core = osc
            while isinstance(core, T.Term) and core.op in ("linalg.diagonal_matrix", "np.asarray", "tree.ravel") and core.args:
                core = core.args[0]
            ok = isinstance(core, T.Term) and core.op in ("np.ones", "np.ones_like") and not T.value_atoms(core)
            r4.require(ok, f"{cls} default base scale", "ones (a unit scale per dimension)", f"output_scale = {T.show(osc, 4)}: without an explicit scale the prior does not have the unit diffusion the three models are compared at", qual, {"model": fam})
        except (AnalysisError, RaiseSignal) as e:
            r4.unknown(f"{cls} default base scale", str(e), qual, {"model": fam})
        S.absorb(it)
        # the *_diffuse constructors extend the state by exactly the requested number of diffuse derivatives -- one included
        for fac, with_ode in (("prior_wiener_integrated_diffuse", False), ("prior_exponential_diffuse", True)):
            for k in (0, 1, 2):
                it = S.interp()
                ssm = it.instantiate(it.class_value(qual), [], {}, "<harness>")
                seen_k = []

                def add_hook(itp, fn, a, kw, site, _s=seen_k):
                    _s.append(kw.get("diffuse_derivatives", a[3] if len(a) > 3 else None))
                    raise AnalysisError("(stop after the extension)")

                it.method_hooks[f"{qual}._add_diffuse_derivatives"] = add_hook
                m = [T.atom("ext.m0", array=False), T.atom("ext.m1", array=False)]  # (names of their own: atoms of one name share their declarations)
                sd = [T.atom("ext.s0", array=False), T.atom("ext.s1", array=False)]
                args = ([A("ode"), m, sd] if with_ode else [m, sd])
                cfg = {"model": fam, "factory": fac, "diffuse_derivatives": k}
                try:
                    call(it, method(it, ssm, fac), *args, diffuse_derivatives=k, diffuse_eps=A("deps"))
                except RaiseSignal as e:
                    if getattr(e.exc, "cls_name", "") == "NotImplementedError" and not seen_k:
                        r4.ok(f"{cls}.{fac} extension by {k}", "documented as not implemented", qual, cfg, nontrivial=False)
                        continue
                except AnalysisError:
                    pass
                S.absorb(it)
                ok = (seen_k == [k]) if k > 0 else (seen_k in ([], [0]))
                r4.require(ok, f"{cls}.{fac} extension by {k}", f"_add_diffuse_derivatives(..., diffuse_derivatives={k})" if k else "no extension (or an extension by 0)",
                           f"_add_diffuse_derivatives called with {seen_k}: the prior does not get the {k} diffuse derivative(s) that were asked for", qual, cfg)
        # flags given per coefficient: exact -> 0, not exact -> inexact_eps, selected by the coefficient's own flag
        it = S.interp()
        ssm = it.instantiate(it.class_value(qual), [], {}, "<harness>")
        m = [T.atom("sd.m0", array=True), T.atom("sd.m1", array=True)]
        flags = [T.atom("flag0", array=True), T.atom("flag1", array=True)]
        try:
            sd_ = call(it, method(it, ssm, "_tcoeffs_standard_deviation"), m, is_exact=flags, inexact_eps=A("ieps"))
            leaves = list(sd_) if isinstance(sd_, (list, tuple)) else []
            ok = len(leaves) == 2
            for k_, x in enumerate(leaves):
                ok = ok and isinstance(x, T.Term) and x.op == "np.where" and len(x.args) == 3 and x.args[1] in (0, 0.0) and x.args[2] is A("ieps") and f"flag{k_}" in T.atoms_of(x.args[0]) and f"flag{1 - k_}" not in T.atoms_of(x.args[0])
            r4.require(bool(ok), f"{cls}._tcoeffs_standard_deviation(is_exact=per-coefficient flags)", "where(own flag, 0, inexact_eps) per coefficient", f"{T.show(sd_, 4)}", qual, {"model": fam})
        except (AnalysisError, RaiseSignal) as e:
            r4.unknown(f"{cls}._tcoeffs_standard_deviation(is_exact=per-coefficient flags)", str(e), qual, {"model": fam})
        S.absorb(it)
        # the diffuse extension
        it = S.interp()
        ssm = it.instantiate(it.class_value(qual), [], {}, "<harness>")
        m = [T.atom("m0", array=True), T.atom("m1", array=True)]
        sd = [T.atom("s0", array=True), T.atom("s1", array=True)]
        for k in (1, 3):
            try:
                out = call(it, method(it, ssm, "_add_diffuse_derivatives"), m, sd, diffuse_derivatives=k, diffuse_eps=A("deps"))
            except (AnalysisError, RaiseSignal) as e:
                r4.unknown(f"{cls}._add_diffuse_derivatives", str(e), qual, {"model": fam, "k": k})
                continue
            mm, ss = out
            z = T.mk("np.zeros_like", (m[0],))
            ok = isinstance(mm, list) and isinstance(ss, list) and len(mm) == 2 + k and len(ss) == 2 + k and mm[:2] == m and ss[:2] == sd and all(x is z for x in mm[2:])
            u0 = ss[2] if ok else None
            ok = ok and all(x is u0 for x in ss[2:]) and "deps" in T.atoms_of(u0) and T.atoms_of(u0) <= ({"deps", "s0"} if fam == "isotropic" else {"deps", "s0", "m0"}) and any(t.op == "np.ones_like" for t in T.subterms(u0))
            r4.require(bool(ok), f"{cls}._add_diffuse_derivatives", f"{k} zero means like mean[0], {k} standard deviations diffuse_eps * ones like std[0], appended after the given coefficients", f"{T.show(out, 4)}", qual, {"model": fam, "k": k})
        S.absorb(it)


def signature_rules(chk, S):
    """Sibling agreement of the public factories' signatures: the three models (and the abstract interface they implement) offer the same methods with the
    same parameters and the same *default values*.  A default that differs in one sibling (diffuse_eps = 1e-6 in one model, 1.0 in the others) makes the
    'same' call construct different priors -- the contradiction is visible without knowing which value is meant."""
    import ast

    r7 = chk.rule("R-C14-7", "the public factories and constraint constructors of the three models and of the abstract interface have the same parameters with the same default values", floor=4)

    def lit(d_):
        """A default as a value where it is a literal (1.0 == 1. == 1e0), as source text otherwise."""
        try:
            return repr(ast.literal_eval(d_))
        except Exception:  # noqa: BLE001
            return ast.unparse(d_)

    def sig(fn):
        """Positional parameters by position (their names are the implementer's business), keyword-only parameters by name; each with its default."""
        a = fn.args
        out = []
        pos = (a.posonlyargs + a.args)[1:]  # without self
        dpos = [None] * (len(a.posonlyargs + a.args) - len(a.defaults)) + list(a.defaults)
        for i_, (p_, d_) in enumerate(zip(pos, dpos[1:])):
            out.append((f"positional #{i_}", None if d_ is None else lit(d_)))
        for p_, d_ in zip(a.kwonlyargs, a.kw_defaults):
            out.append((p_.arg, None if d_ is None else lit(d_)))
        return out

    classes = {fam: S.p.find_class(f"{mod}.{cls}") for fam, mod, cls in SSMS}
    from ..harness import API

    try:
        classes["interface"] = S.p.find_class(API + ".StateSpaceModel")
    except AnalysisError:
        pass
    names = sorted({n for ci in classes.values() for n in ci.methods if not n.startswith("_") and (n.startswith("prior_") or n.startswith("constraint_"))})
    for name in names:
        sigs = {fam: sig(ci.methods[name]) for fam, ci in classes.items() if name in ci.methods}
        if len(sigs) < 2:
            continue
        ref_fam = "dense" if "dense" in sigs else sorted(sigs)[0]
        ref = dict(sigs[ref_fam])
        diffs = []
        for fam, sg in sorted(sigs.items()):
            if fam == ref_fam:
                continue
            d = dict(sg)
            for k in sorted(set(d) & set(ref)):
                if d[k] != ref[k]:
                    diffs.append(f"{fam}: {k}={d[k]} ({ref_fam}: {k}={ref[k]})")
            extra = sorted(set(d) ^ set(ref))
            if extra:
                diffs.append(f"{fam}: parameters {extra} not shared with {ref_fam}")
        r7.require(not diffs, f"siblings {name} signature", f"{len(sigs)} siblings agree: {[k + ('=' + v if v is not None else '') for k, v in sigs[ref_fam]]}",
                   f"{name}: " + "; ".join(diffs) + " -- the same call builds different objects in different models", f"{classes[ref_fam].module.relpath}", {"method": name})


def run(chk, S: Session):
    _run_own(chk, S)
    signature_rules(chk, S)
    from ..harness import borrow

    rb = chk.rule("R-C14-B", "clauses of this statement decided by rules of C07 (error norms the adaptive runs of all models share), C11 (observation damping of every linearisation) and C08 (every model hands the caller's solve to the reversal kernel)", floor=6)
    borrow(chk, S, rb, "C07", lambda r, c: r == "R-C07-5")
    borrow(chk, S, rb, "C11", lambda r, c: r == "R-C11-5" and "damping" in c)
    borrow(chk, S, rb, "C08", lambda r, c: (r == "R-C08-5" and "hands its solve to the kernel" in c) or (r == "R-C08-3" and ".std" in c))
    # the three models must treat a Taylor-coefficient pytree with mixed leaf dtypes alike (promote, never cast back per leaf)
    borrow(chk, S, rb, "C20", lambda r, c: r == "R-C20-4" and "from_example" in c)
