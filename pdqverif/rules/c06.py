"""C06 -- adaptive step control is safe for every accept/reject history.

Static rules (see DESIGN.md section 5, C06).  Everything is derived from the
current source of ``solvers_via_adaptive_steps.py``, ``controllers.py`` and the
solver's interpolation wiring in ``solvers.py`` by abstract interpretation:
the solver, the error estimator and (where stated) the controller are opaque
collaborators, the loop state is a record of atoms.
"""

from __future__ import annotations

from .. import bounds as B
from .. import nf
from .. import terms as T
from ..harness import (
    ADAPT, CTRL, SOLVERS, TESTUTIL, A, PrimV, Rec, Session, call, events, mcalls, method, named, rec_of_atoms, subst, where_of,
)
from ..interp import BoundMethod, RaiseSignal
from ..model import AnalysisError
from ..zones import Zone

EXPLANATION = (
    "Abstract interpretation of RejectionLoop (init/loop/step/step_attempt/step_extract/interp_*), "
    "solve_adaptive_save_at.solve/advance, every Control subclass and ProbabilisticSolver.interpolate_fwd[_at_t1]: "
    "provenance/identity of the loop-state fields (rejected attempt pure, acceptance gate), interval and symbolic-bound "
    "analysis of the controllers under their parameter assumptions, value-number equality of the checkpoint predicates, "
    "difference-bound (zone) invariant of the interpolation brackets per TimeStepState constructor, step counting over all "
    "ProbabilisticSolution constructor calls.  Decides every clause of the property except termination of the loops."
)


def pred_form(c):
    """(polynomial p, rel) with  c  <=>  p rel 0,  rel in {'<', '<='}; None if not a comparison."""
    if not isinstance(c, T.Term):
        return None
    if c.op == "not":
        f = pred_form(c.args[0])
        if f is None:
            return None
        p, rel = f
        return nf.mul(nf.const(-1), p), ("<=" if rel == "<" else "<")
    if c.op in ("lt", "le"):
        return nf.add(nf.norm(c.args[0]), nf.norm(c.args[1]), -1), ("<" if c.op == "lt" else "<=")
    if c.op in ("gt", "ge"):
        return nf.add(nf.norm(c.args[1]), nf.norm(c.args[0]), -1), ("<" if c.op == "gt" else "<=")
    return None


def make_loop(it, clip, control=None, solver=None, stop_gradient=True):
    loopcls = it.class_value(ADAPT + ".RejectionLoop")
    kw = dict(
        solver=solver if solver is not None else A("solver"),
        clip_dt=clip,
        error=A("error"),
        control=control if control is not None else A("control"),
        while_loop=PrimV("flow.while_loop"),
    )
    if not stop_gradient:
        kw["stop_gradient_through_dt"] = False
    return it.instantiate(loopcls, [], kw, "<harness>")


def strip_sg(t):
    while isinstance(t, T.Term) and t.op in ("func.stop_gradient", "np.asarray") and t.args:
        t = t.args[0]
    return t


def _run_core(chk, S: Session):
    chk.assume("controller parameters: 0 < factor_min < 1 <= factor_max, 0 < safety < 1, exponents > 0")
    chk.assume("error_power in (0, +inf] (it is norm ** (-1/rate) of a non-negative norm; +inf when the error estimate vanishes)")
    chk.assume("save_at is strictly increasing and eps >= 0")
    chk.trust("flow.while_loop(cond, body, init): iterates body while cond", "flow.cond / flow.switch select exactly one branch",
              "flow.scan threads the carry in order", "np.minimum / np.maximum / np.where are elementwise min / max / select")
    r1 = chk.rule("R-C06-1", "acceptance gate: the rejection loop continues iff the acceptance factor of the last attempt is < 1; the factor is the error estimate of that attempt; only the loop result is promoted", floor=10)
    r2 = chk.rule("R-C06-2", "a rejected attempt leaves step_from / error_step_from untouched and the next attempt does not depend on the rejected proposal", floor=8)
    r3 = chk.rule("R-C06-3", "controllers: factor in [factor_min, factor_max]; < 1 after a rejection; controller-state invariant inductive; factor independent of dt", floor=10)
    r4 = chk.rule("R-C06-4", "clipping: attempted step <= t1 - step_from.t, and the same clipped value reaches solver, error estimator and controller", floor=8)
    r5 = chk.rule("R-C06-5", "one report per checkpoint: consistent predicates, exhaustive/exclusive switch, scan over save_at[1:] in order", floor=12)
    r6 = chk.rule("R-C06-6", "interpolation brackets: zone invariant of TimeStepState per constructor", floor=8)
    r7 = chk.rule("R-C06-7", "step counting over all ProbabilisticSolution constructor calls", floor=9)

    rejection_rules(chk, S, r1, r2, r4)
    controller_rules(chk, S, r3)
    checkpoint_rules(chk, S, r5)
    zone_rules(chk, S, r6)
    step_count_rules(chk, S, r7)


# ---------------------------------------------------------------------------
def _canon_cmp(c, f):
    """A comparison of the acceptance factor with a constant, oriented: 'f < 1.0' for both `f < 1.0` and `1.0 > f`."""
    if isinstance(c, T.Term) and c.op in ("lt", "le", "gt", "ge") and len(c.args) == 2:
        a, b = c.args
        op = c.op
        if b is f:
            a, b = b, a
            op = {"lt": "gt", "le": "ge", "gt": "lt", "ge": "le"}[op]
        if a is f:
            return f"f {dict(lt='<', le='<=', gt='>', ge='>=')[op]} {T.show(b, 2)}"
    return T.show(c, 3)


def rejection_rules(chk, S, r1, r2, r4):
    for clip in (True, False):
        cfg = {"clip_dt": clip}
        it = S.interp()
        loop = make_loop(it, clip)
        s0 = rec_of_atoms(it, ADAPT + ".TimeStepState", "s0")
        extract_args = []

        def hook(itp, fn, args, kwargs, site, _acc=extract_args):
            _acc.append((args, kwargs, site))
            from ..interp import _MISSING
            return _MISSING

        it.method_hooks[ADAPT + ".RejectionLoop.step_extract_timestep_state"] = hook
        t1 = A("t1")
        res = call(it, method(it, loop, "step"), (s0, t1, A("atol"), A("rtol"), A("damp")))
        S.absorb(it)
        ws = events(it, "while")
        if len(ws) != 1:
            raise AnalysisError(f"RejectionLoop.step: expected exactly one while-loop, found {len(ws)}")
        w = ws[0]
        st, body, init = w["state"], w["body"], w["init"]
        site = w["site"]
        for x, nm in ((st, "state"), (body, "body result"), (init, "init")):
            if not isinstance(x, Rec):
                raise AnalysisError(f"rejection loop {nm} is not a record at {site}")
        acc = st.fields.get("acceptance_factor_proposed")
        if acc is None:
            raise AnalysisError("loop state has no acceptance_factor_proposed field (anchor vanished)")

        # R1a: continue <=> accept < 1
        bb = B.Bounds()
        e_true = B.refine(bb, w["cond"], True)
        e_false = B.refine(bb, w["cond"], False)
        iv_t = B.Bounds(e_true).iv(acc)
        iv_f = B.Bounds(e_false).iv(acc)
        cond_ok = iv_t.lt1 and iv_f.ge1
        r1.require(cond_ok, "RejectionLoop.step.cond", f"continue => accept in {iv_t}; stop => accept in {iv_f}",
                   f"loop condition {T.show(w['cond'])}: continue => acceptance factor in {iv_t}, stop => in {iv_f}; expected (<1) / (>=1)", site, cfg)
        # R1b: initial value is a constant < 1
        a0 = init.fields["acceptance_factor_proposed"]
        r1.require(isinstance(a0, (int, float)) and a0 < 1.0, "RejectionLoop.step_init_loopstate.acceptance_factor_proposed",
                   f"initial acceptance factor {T.show(a0)} < 1", f"initial acceptance factor is {T.show(a0)}; the first attempt would be skipped or is not a constant", site, cfg)
        # R1c: the new factor is the first output of the error estimator of this attempt
        new_acc = body.fields["acceptance_factor_proposed"]
        est = mcalls(body, "estimate_error_norm")
        stp = mcalls(body, "step")
        # a NaN estimate may be mapped to a rejecting value first:  where(isnan(e), c, e)  with a constant c < 1
        nan_guarded = False
        core_acc = new_acc
        if isinstance(new_acc, T.Term) and new_acc.op == "np.where" and len(new_acc.args) == 3:
            c_, a_, b_ = new_acc.args
            if isinstance(c_, T.Term) and c_.op == "np.isnan" and c_.args[0] is b_ and isinstance(a_, (int, float)) and not isinstance(a_, bool) and a_ < 1.0:
                nan_guarded, core_acc = True, b_
        ok = (
            isinstance(core_acc, T.Term) and core_acc.op == "getitem" and core_acc.args[1] == 0 and len(est) == 1 and core_acc.args[0] is est[0]
            and len(stp) == 1 and named(est[0], "proposed") is stp[0]
        )
        # R1c': a NaN estimate did not pass the acceptance test.  `continue while f < 1` stops on NaN (every comparison with NaN is false), i.e. accepts;
        # `continue while not (f >= 1)` does not.
        cnd = w["cond"]
        nan_safe_cond = isinstance(cnd, T.Term) and cnd.op in ("not", "invert", "np.logical_not") and isinstance(cnd.args[0], T.Term) and cnd.args[0].op in ("ge", "gt") and cnd.args[0].args[0] is acc
        if isinstance(cnd, T.Term) and cnd.op in ("or", "np.logical_or"):
            nan_safe_cond = any(isinstance(x, T.Term) and x.op == "np.isnan" and x.args[0] is acc for x in cnd.args)
        r1.require(nan_safe_cond or nan_guarded, "RejectionLoop.step: a NaN error estimate is a rejection" + ("" if (nan_safe_cond or nan_guarded) else f" [continue while {_canon_cmp(cnd, acc)}; factor stored unguarded]"),
                   "the loop continues on NaN, or NaN is mapped to a rejecting factor",
                   f"the loop continues while {T.show(cnd, 3)}: for a NaN estimate (an attempt far above the admissible step size, e.g. an overflowing vector field) the comparison is false, the loop stops and "
                   "the attempt is promoted -- time advances through an attempt that did not pass the acceptance test; the factor is stored unguarded", site, cfg)
        r1.require(ok, "RejectionLoop.step_attempt.acceptance_factor_proposed", "factor = estimate_error_norm(..., proposed=solver.step(...))[0]",
                   f"acceptance factor of the attempt is {T.show(new_acc, 4)}; expected the first output of error.estimate_error_norm for this attempt's proposal", where_of(new_acc, site), cfg)
        new_prop = body.fields["proposed"]
        r1.require(len(stp) == 1 and new_prop is stp[0], "RejectionLoop.step_attempt.proposed", "proposed = solver.step(...) of this attempt",
                   f"proposed state is {T.show(new_prop, 3)}, not the result of this attempt's solver.step", where_of(new_prop, site), cfg)
        errp = body.fields["error_proposed"]
        r1.require(len(est) == 1 and T.mk("getitem", (est[0], 1)) is errp, "RejectionLoop.step_attempt.error_proposed", "error_proposed = estimate_error_norm(...)[1]",
                   f"error_proposed is {T.show(errp, 3)}", where_of(errp, site), cfg)
        # R1d: promotion only of the loop result
        fin = w["final"]
        ok = len(extract_args) == 1 and extract_args[0][0][1] is fin
        r1.require(ok, "RejectionLoop.step -> step_extract_timestep_state", "called once, on the while-loop result",
                   f"step_extract_timestep_state called {len(extract_args)} times / not on the loop result", site, cfg)
        if isinstance(res, Rec):
            exp = {"step_from": "proposed", "interp_from": "step_from", "dt": "dt", "control": "control", "error_step_from": "error_proposed"}
            for f, src in exp.items():
                got = res.fields.get(f)
                want = fin.fields[src]
                r1.require(got is want, f"RejectionLoop.step_extract_timestep_state.{f}", f"{f} = accepted loop state .{src}",
                           f"TimeStepState.{f} after an accepted step is {T.show(got, 3)}; expected the loop result's .{src}", where_of(got, site), cfg)
        else:
            r1.fail("RejectionLoop.step", f"does not return a TimeStepState record: {T.show(res, 3)}", site, cfg)

        # R1e: what the rejection loop starts from is the carried time-step state: its dt, its step_from / error state, and the controller's state
        #      (the proportional-integral controller's memory is the error of the last *accepted* attempt of the whole run, not of this checkpoint interval)
        for f in ("dt", "control", "step_from", "error_step_from"):
            r1.require(init.fields.get(f) is s0.fields[f], f"RejectionLoop.step_init_loopstate.{f}", f"{f} of the carried TimeStepState",
                       f"the rejection loop starts with {f} = {T.show(init.fields.get(f), 3)} instead of the carried state's {f}"
                       + (" -- the controller's memory is reset at every step" if f == "control" else ""), site, cfg)
        # R2: rejected attempt pure
        for f in ("step_from", "error_step_from"):
            r2.require(body.fields[f] is st.fields[f], f"RejectionLoop.step_attempt.{f}", "passed through unchanged",
                       f"{f} of the loop state is rewritten by an attempt: {T.show(body.fields[f], 3)}", where_of(body.fields[f], site), cfg)
        if len(stp) == 1:
            r2.require(named(stp[0], "state") is st.fields["step_from"], "RejectionLoop.step_attempt solver.step(state=)", "steps from state.step_from",
                       f"solver.step starts from {T.show(stp[0].kwargs.get('state'), 3)} instead of state.step_from", where_of(stp[0], site), cfg)
        if len(est) == 1:
            e = est[0]
            pos = [named(e, "state")]
            ok = named(e, "state") is st.fields["error_step_from"]
            r2.require(ok, "RejectionLoop.step_attempt estimate_error_norm(state)", "error state of step_from",
                       f"error estimator receives {T.show(pos[:1], 3)} instead of state.error_step_from", where_of(e, site), cfg)
            r2.require(named(e, "previous") is st.fields["step_from"], "RejectionLoop.step_attempt estimate_error_norm(previous=)", "previous = state.step_from",
                       f"previous = {T.show(e.kwargs.get('previous'), 3)}", where_of(e, site), cfg)
        forbidden = {T.atom_name(st.fields[k]) for k in ("proposed", "error_proposed", "acceptance_factor_proposed")}
        dep = T.atoms_of(body) & forbidden
        r2.require(not dep, "RejectionLoop.step_attempt depends-on-rejected-proposal", "the next attempt reads nothing of the rejected proposal",
                   f"the attempt depends on fields of the previous (rejected) attempt: {sorted(dep)}", site, cfg)

        # R4: clipping and identity of the step
        if len(stp) == 1 and len(est) == 1:
            d = named(stp[0], "dt")
            appl = mcalls(body, "apply")
            ok_same = named(est[0], "dt") is d and len(appl) == 1 and len(appl[0].args) > 2 and appl[0].args[2] is d
            r4.require(ok_same, "RejectionLoop.step_attempt dt identity", "solver.step, error estimator and controller receive the same dt",
                       f"different step sizes: solver {T.show(d, 3)}, estimator {T.show(est[0].kwargs.get('dt'), 3)}, controller {T.show(appl[0].args[2] if appl and len(appl[0].args) > 2 else None, 3)}",
                       where_of(d, site), cfg)
            if len(appl) == 1:
                a = appl[0]
                r4.require(len(a.args) > 3 and a.args[3] is st.fields["control"] and a.kwargs.get("error_power") is new_acc, "RejectionLoop.step_attempt control.apply wiring",
                           "controller gets its own state and this attempt's error power", f"control.apply receives {T.show(a.args[2:], 3)} / {T.show(a.kwargs, 3)}", where_of(a, site), cfg)
                r4.require(body.fields["dt"] is T.mk("getitem", (a, 0)) and body.fields["control"] is T.mk("getitem", (a, 1)), "RejectionLoop.step_attempt new dt/control",
                           "next proposal and controller state come from control.apply", f"dt={T.show(body.fields['dt'], 3)}, control={T.show(body.fields['control'], 3)}", site, cfg)
            room = T.mk("sub", (t1, T.mk("attr", (st.fields["step_from"], "t"))))
            bb = B.Bounds()
            le_room = bb.prove_le(d, room)
            le_prop = bb.prove_le(d, st.fields["dt"]) or strip_sg(d) is st.fields["dt"]
            if clip:
                r4.require(le_room, "RejectionLoop.step_attempt clip", "dt <= t1 - step_from.t",
                           f"with clip_dt the attempted step {T.show(d, 4)} is not bounded by t1 - step_from.t", where_of(d, site), cfg)
            else:
                r4.require(strip_sg(d) is st.fields["dt"], "RejectionLoop.step_attempt no-clip", "dt is the proposal",
                           f"without clip_dt the attempted step is {T.show(d, 4)}, not the proposal", where_of(d, site), cfg)
            r4.require(le_prop, "RejectionLoop.step_attempt dt<=proposal", "attempt never exceeds the proposal",
                       f"attempted step {T.show(d, 4)} is not bounded by the current proposal", where_of(d, site), cfg)
            chk.sample({"rule": "R-C06-4", "config": cfg, "attempted_dt": T.show(d, 5), "bound": T.show(room, 4)})



# ---------------------------------------------------------------------------
# Extended-real hazards.  A vanishing error estimate is legitimate (the prior can be exact) and gives error_power = +inf;
# inf / inf, inf - inf and 0 * inf are NaN, and np.minimum / np.maximum propagate NaN, so clipping does not repair it.
def _may_inf(t, inf_atoms, memo):
    if not isinstance(t, T.Term):
        return isinstance(t, float) and t in (float("inf"), float("-inf"))
    if t.uid in memo:
        return memo[t.uid]
    op, a = t.op, t.args
    if op == "atom":
        r = t in inf_atoms
    elif op == "np.minimum":
        r = all(_may_inf(x, inf_atoms, memo) for x in a)
    elif op in ("np.where", "ite"):
        r = _may_inf(a[1], inf_atoms, memo) or _may_inf(a[2], inf_atoms, memo)
    elif op == "div":
        r = _may_inf(a[0], inf_atoms, memo) and not _may_inf(a[1], inf_atoms, memo)
    elif op in ("lt", "le", "gt", "ge", "eq", "ne", "np.finfo_eps"):
        r = False
    else:
        r = any(_may_inf(x, inf_atoms, memo) for x in a)
    memo[t.uid] = r
    return r


def _may_zero(t, inf_atoms, memo):
    """Can the (positive) quantity underflow to exactly 0 because it is divided by +inf?"""
    if not isinstance(t, T.Term):
        return False
    if t.op == "div":
        return _may_inf(t.args[1], inf_atoms, memo) or _may_zero(t.args[0], inf_atoms, memo)
    if t.op in ("pow", "np.power", "mul", "np.minimum", "np.maximum", "np.where", "ite"):
        return any(_may_zero(x, inf_atoms, memo) for x in t.args)
    return False


def nan_hazards(t, inf_atoms):
    memo, out = {}, []
    for x in T.subterms(t):
        if not isinstance(x, T.Term):
            continue
        if x.op == "div" and _may_inf(x.args[0], inf_atoms, memo) and _may_inf(x.args[1], inf_atoms, memo):
            out.append((x, "inf / inf"))
        if x.op == "sub" and _may_inf(x.args[0], inf_atoms, memo) and _may_inf(x.args[1], inf_atoms, memo):
            out.append((x, "inf - inf"))
        if x.op == "mul" and ((_may_inf(x.args[0], inf_atoms, memo) and _may_zero(x.args[1], inf_atoms, memo)) or (_may_inf(x.args[1], inf_atoms, memo) and _may_zero(x.args[0], inf_atoms, memo))):
            out.append((x, "0 * inf"))
    return out, memo


# ---------------------------------------------------------------------------
def controller_rules(chk, S, r3):
    subs = S.p.subclasses(CTRL + ".Control")
    if len(subs) < 2:
        raise AnalysisError(f"expected >= 2 Control subclasses, found {[c.qualname for c in subs]}")
    for ci in subs:
        it = S.interp()
        cv = it.class_value(ci.qualname)
        _o, init_node = it.find_method_node(cv, "__init__")
        params = [a.arg for a in init_node.args.kwonlyargs] + [a.arg for a in init_node.args.args[1:]] if init_node else []
        kw = {p: A(f"param.{p}") for p in params}
        ctrl = it.instantiate(cv, [], kw, "<harness>")
        env = B.Env()
        known = True
        for p in params:
            a = kw[p]
            if p == "safety":
                env.assume(a, B.Iv(0, 1, True, True))
            elif p == "factor_min":
                env.assume(a, B.Iv(0, 1, True, True))
            elif p == "factor_max":
                env.assume(a, B.Iv(1, B.INF, False, True))
            elif p.startswith("exponent"):
                env.assume(a, B.Iv(0, B.INF, True, True))
            else:
                known = False
        state0 = call(it, method(it, ctrl, "init"), A("dt0"))
        # symbolic controller state: numeric leaves become atoms with the invariant "state >= 1"
        from ..interp import map_leaves
        leaves = []

        def mk_leaf(leaf, path, _l=leaves, _n=ci.name):
            a = A(f"ctrl_state{path}")
            _l.append((a, leaf))
            return a

        cstate = map_leaves(state0, mk_leaf)
        for a, _ in leaves:
            env.assume(a, B.Iv(1, B.INF, False, True))
        E, dt = A("error_power"), A("dt")
        out = call(it, method(it, ctrl, "apply"), dt, cstate, error_power=E)
        S.absorb(it)
        name = ci.name
        if not (isinstance(out, (tuple, list)) and len(out) == 2):
            r3.fail(f"{name}.apply", f"does not return (dt, state): {T.show(out, 3)}")
            continue
        dt_new, state_new = out
        where = where_of(dt_new, ci.module.relpath)
        factor = nf.canon(T.mk("div", (dt_new, dt)))
        dep = "dt" in T.atoms_of(factor)
        r3.require(not dep, f"{name}.apply factor-independent-of-dt", "dt_new = factor * dt with factor independent of dt",
                   f"proposed step {T.show(dt_new, 5)} is not dt times a dt-independent factor", where)
        fmin, fmax = kw.get("factor_min"), kw.get("factor_max")
        e_any = B.Env(env)
        e_any.assume(E, B.Iv(0, B.INF, True, True))
        bb = B.Bounds(e_any)
        status = (lambda ok: True if ok else (False if known and not bb.unknown_ops else None))
        if fmin is not None and fmax is not None:
            lo_ok = bb.prove_le(fmin, factor)
            hi_ok = bb.prove_le(factor, fmax)
            r3.require(status(lo_ok), f"{name}.apply factor>=factor_min", "factor_min <= factor", f"cannot derive factor_min <= {T.show(factor, 6)} (interval {bb.iv(factor)})", where)
            r3.require(status(hi_ok), f"{name}.apply factor<=factor_max", "factor <= factor_max", f"cannot derive {T.show(factor, 6)} <= factor_max (interval {bb.iv(factor)})", where)
        else:
            r3.unknown(f"{name}.apply bounds", "controller has no factor_min/factor_max parameters")
        ivp = bb.iv(factor)
        r3.require(status(ivp.pos), f"{name}.apply factor>0", f"factor in {ivp}", f"factor interval {ivp} is not strictly positive", where)
        e_rej = B.Env(env)
        e_rej.assume(E, B.Iv(0, 1, True, True))
        br = B.Bounds(e_rej)
        ivr = br.iv(factor)
        r3.require(True if ivr.lt1 and ivr.pos else (False if known and not br.unknown_ops else None), f"{name}.apply rejection=>smaller", f"error_power < 1 => factor in {ivr}",
                   f"after a rejection (error_power < 1) the factor interval is {ivr}: the retry is not provably strictly smaller", where)
        # state invariant: init satisfies it, apply preserves it (for every error_power > 0)
        init_ok = all(B.Bounds().iv(v).ge1 for _, v in leaves)
        r3.require(init_ok, f"{name}.init invariant", f"initial state {T.show(state0)} satisfies state >= 1", f"initial controller state {T.show(state0)} violates the invariant state >= 1", ci.module.relpath)
        new_leaves = []
        map_leaves(state_new, lambda leaf, path: new_leaves.append(leaf) or leaf)
        if len(new_leaves) != len(leaves):
            r3.fail(f"{name}.apply state shape", f"state structure changes: {T.show(state0)} -> {T.show(state_new, 3)}", where)
        else:
            ok = all(bb.iv(v).ge1 for v in new_leaves)
            r3.require(status(ok), f"{name}.apply invariant-inductive", "state >= 1 is preserved for every error_power > 0 (memory only updated on acceptance)",
                       f"controller state after apply is {T.show(state_new, 5)} with interval {[str(bb.iv(v)) for v in new_leaves]}: the invariant state >= 1 is not preserved (memory updated on rejections?)", where)
        # (v) a rejection (error_power < 1) leaves the controller state unchanged: the memory is the last *accepted* error ratio
        if len(new_leaves) == len(leaves):
            same = all(B.select_under(br, v) is a for v, (a, _init) in zip(new_leaves, leaves))
            r3.require(same if same else (False if known and not br.unknown_ops else None), f"{name}.apply rejection keeps the controller state", "error_power < 1 => state unchanged",
                       f"after a rejection the controller state becomes {[T.show(B.select_under(br, v), 4) for v in new_leaves]} instead of staying {[T.show(a) for a, _ in leaves]}", where)
        # (vi) a vanishing error estimate (error_power = +inf) never produces NaN: the controller state stays finite (inductive) and,
        #      with a finite state, the proposal contains no inf/inf, inf-inf or 0*inf
        hz, memo = nan_hazards((dt_new, state_new), {E})
        r3.require(not hz, f"{name}.apply no NaN for error_power = inf", "no inf/inf, inf-inf, 0*inf with a finite controller state",
                   f"{[(T.show(x, 3), why) for x, why in hz[:2]]}: NaN when the error estimate vanishes", where_of(hz[0][0], where) if hz else where)
        st_inf = [v for v in new_leaves if _may_inf(v, {E}, {})]
        r3.require(not st_inf, f"{name}.apply controller state stays finite", "finite state is preserved for error_power in (0, +inf]",
                   f"the controller state becomes {[T.show(v, 4) for v in st_inf[:1]]}, which is +inf when the error estimate vanishes; the next proportional gain is then inf / inf = NaN "
                   "and min / max clipping propagates it", where_of(st_inf[0], where) if st_inf else where)
        chk.sample({"rule": "R-C06-3", "controller": name, "factor": T.show(factor, 6), "interval_any": str(ivp), "interval_rejected": str(ivr)})


# ---------------------------------------------------------------------------
def run_solve(it, solver=None, clip=False):
    """Abstractly run solve_adaptive_save_at(...)(u, save_at, ...)."""
    mk = it.function_value(ADAPT + ".solve_adaptive_save_at")
    solver = solver if solver is not None else A("solver")
    solve = it.call(mk, [], dict(solver=solver, error=A("error"), control=A("control"), clip_dt=clip, warn=False), "<harness>")
    save_at = A("save_at")
    out = it.call(solve, [A("u"), save_at, A("atol"), A("rtol")], dict(dt0=A("dt0"), eps=A("eps"), damp=A("damp")), "<harness>")
    return out, save_at


def checkpoint_rules(chk, S, r5):
    it = S.interp()
    out, save_at = run_solve(it)
    S.absorb(it)
    scans = events(it, "scan")
    whiles_adv = [e for e in events(it, "while") if str(e["fn"]).endswith("advance")]
    conds = events(it, "cond")
    sw = events(it, "switch")
    if len(scans) != 1 or len(whiles_adv) != 1 or len(conds) != 1 or len(sw) != 1:
        raise AnalysisError(f"solve_adaptive_save_at: expected 1 scan/1 advance-while/1 cond/1 switch, found {len(scans)}/{len(whiles_adv)}/{len(conds)}/{len(sw)}")
    sc, wa, cd, swi = scans[0], whiles_adv[0], conds[0], sw[0]
    eps = A("eps")
    # scan over save_at[1:], in order, starting from solver.init(t=save_at[0])
    xs = sc["xs"]
    ok = isinstance(xs, T.Term) and xs.op == "getitem" and xs.args[0] is save_at and xs.args[1] == slice(1, None, None) and sc["reverse"] is False
    r5.require(ok, "solve_adaptive_save_at.solve scan", "scan over save_at[1:], forward", f"scan runs over {T.show(xs)} reverse={sc['reverse']}", sc["site"])
    init = sc["init"]
    sol0 = init[0] if isinstance(init, (tuple, list)) and len(init) == 2 else None
    inits = mcalls(init, "init", A("solver"))
    ok = len(inits) == 1 and sol0 is inits[0] and named(inits[0], "t") is T.mk("getitem", (save_at, 0))
    r5.require(ok, "solve_adaptive_save_at.solve solution0", "solution0 = solver.init(t=save_at[0])", f"initial solution {T.show(sol0, 3)}", sc["site"])
    st0 = init[1] if sol0 is not None else None
    ok = isinstance(st0, Rec) and st0.fields.get("step_from") is sol0 and st0.fields.get("interp_from") is sol0 and st0.fields.get("dt") is A("dt0")
    r5.require(ok, "RejectionLoop.init", "step_from = interp_from = solution0, dt = dt0", f"initial loop state {T.show(st0, 3)}", sc["site"])
    t_next = sc["x"]
    # advance: while-state (do_continue, solution, loopstate); loop.loop called with t1 = t_next
    body = wa["body"]
    state = wa["state"]
    if not (isinstance(body, Rec) and isinstance(state, Rec)):
        raise AnalysisError("advance while-loop state is not a record")
    ls = state.fields["loopstate"]
    # predicate 1: cond before the step (on the incoming loop state)
    f1 = pred_form(cd["pred"])
    want1 = nf.add(nf.add(nf.norm(T.mk("attr", (ls.fields["step_from"], "t")) if isinstance(ls, Rec) else T.mk("attr", (T.mk("attr", (ls, "step_from")), "t"))), nf.norm(eps)), nf.norm(t_next), -1)
    r5.require(f1 is not None and f1[1] == "<" and f1[0] == want1, "RejectionLoop.loop is_before_t1 (pre-step)", "step_from.t + eps < t1",
               f"pre-step predicate is {T.show(cd['pred'])}; expected step_from.t + eps < t1", cd["site"])
    # ---- R-C06-9: the conditional step itself and what is handed to it (not only its predicate)
    r9 = chk.rule("R-C06-9", "the driver hands the caller's tolerances, damping and the current checkpoint to every attempt: arms and operands of the conditional step in RejectionLoop.loop; "
                  "atol / rtol / damp of every estimate_error_norm and solver.step / solver.init call; the clip bound is the current checkpoint", floor=6)
    atol_, rtol_, damp_ = A("atol"), A("rtol"), A("damp")
    ops = cd.get("operands")
    okop = isinstance(ops, list) and len(ops) == 1 and isinstance(ops[0], (tuple, list)) and len(ops[0]) == 5 and ops[0][0] is ls and ops[0][1] is t_next \
        and ops[0][2] is atol_ and ops[0][3] is rtol_ and ops[0][4] is damp_
    r9.require(okop, "RejectionLoop.loop conditional step operands", "(state0, t1, atol, rtol, damp) of this call", f"operands {T.show(ops, 3)}", cd["site"])
    r9.require(cd.get("false") is ls, "RejectionLoop.loop conditional step: no step when the checkpoint is not ahead", "the loop state is returned unchanged", f"the arm for 'not before t1' returns {T.show(cd.get('false'), 3)}", cd["site"])
    tr = cd.get("true")
    whiles_rej = [e for e in events(it, "while") if not str(e["fn"]).endswith("advance")]
    okt = isinstance(tr, Rec) and len(whiles_rej) == 1 and any(x is whiles_rej[0]["final"].fields.get("proposed") if isinstance(whiles_rej[0]["final"], Rec) else False for x in [tr.fields.get("step_from")])
    r9.require(okt, "RejectionLoop.loop conditional step: one rejection loop when the checkpoint is ahead", "the new step_from is the accepted proposal of the rejection loop",
               f"the arm for 'before t1' returns {T.show(tr, 3)}", cd["site"])
    everything = [sc["new_carry"], sc["y"], sc["init"]] + [e["body"] for e in whiles_rej]
    ests = mcalls(everything, "estimate_error_norm", A("error"))
    r9.require(bool(ests) and all(e.kwargs.get("atol") is atol_ and e.kwargs.get("rtol") is rtol_ and e.kwargs.get("damp") is damp_ for e in ests), "estimate_error_norm receives the caller's atol, rtol, damp",
               f"{len(ests)} call(s)", f"{[(T.show(e.kwargs.get('atol')), T.show(e.kwargs.get('rtol')), T.show(e.kwargs.get('damp'))) for e in ests]}", sc["site"])
    steps = [m_ for m_ in mcalls(everything, "step", A("solver"))]
    r9.require(bool(steps) and all(m_.kwargs.get("damp") is damp_ for m_ in steps), "solver.step receives the caller's damp", f"{len(steps)} call(s)", f"{[T.show(m_.kwargs.get('damp')) for m_ in steps]}", sc["site"])
    r9.require(bool(inits) and all(m_.kwargs.get("damp") is damp_ and m_.kwargs.get("u") is A("u") for m_ in inits), "solver.init receives the caller's u and damp", "", f"{[T.show(m_, 3) for m_ in inits]}", sc["site"])
    # the state after the conditional step
    post = swi["operand"][0]
    S_t = T.mk("attr", (post.fields["step_from"], "t")) if isinstance(post, Rec) else None
    idx = swi["index"]
    ok_idx = isinstance(idx, T.Term) and idx.op == "np.where" and idx.args[1] == 0 and isinstance(idx.args[2], T.Term) and idx.args[2].op == "np.where" and idx.args[2].args[1:] == (1, 2)
    r5.require(ok_idx, "RejectionLoop.loop branch index form", "where(before, 0, where(after, 1, 2))", f"branch index {T.show(idx, 4)} is not a nested selection 0/1/2", swi["site"])
    if ok_idx and S_t is not None:
        c0, c1 = idx.args[0], idx.args[2].args[0]
        f0, fa = pred_form(c0), pred_form(c1)
        before = nf.add(nf.add(nf.norm(S_t), nf.norm(eps)), nf.norm(t_next), -1)
        after = nf.add(nf.add(nf.norm(t_next), nf.norm(eps)), nf.norm(S_t), -1)
        r5.require(f0 is not None and f0 == (before, "<"), "RejectionLoop.loop is_before_t1 (post-step)", "step_from.t + eps < t1 on the post-step state",
                   f"post-step 'before' predicate is {T.show(c0, 4)}", swi["site"])
        r5.require(fa is not None and fa == (after, "<"), "RejectionLoop.loop is_after_t1", "step_from.t > t1 + eps on the post-step state",
                   f"'after' predicate is {T.show(c1, 4)}", swi["site"])
        # same value number as the pre-step predicate modulo the state it is evaluated on
        if isinstance(ls, Rec):
            pre_on_post = subst(cd["pred"], {T.mk("attr", (ls.fields["step_from"], "t")).uid: S_t})
            r5.require(pred_form(pre_on_post) == f0, "RejectionLoop.loop predicate agreement", "pre- and post-step 'before' predicates are the same function of the state",
                       f"pre-step predicate {T.show(cd['pred'])} and post-step predicate {T.show(c0, 4)} differ", swi["site"])
    # arms: 0 skip (identity), 1 interpolate_fwd, 2 interpolate_fwd_at_t1
    outs = swi["outs"]
    if len(outs) != 3:
        r5.fail("RejectionLoop.loop switch arms", f"{len(outs)} arms instead of 3", swi["site"])
    else:
        o0, o1, o2 = outs
        ok0 = isinstance(o0, (tuple, list)) and o0[1] is post and o0[0] is post.fields["step_from"]
        r5.require(ok0, "RejectionLoop.interp_skip", "arm 0 (before): state unchanged", f"arm 0 returns {T.show(o0, 3)}", swi["site"])
        for k, (o, nm) in enumerate(((o1, "interpolate_fwd"), (o2, "interpolate_fwd_at_t1")), start=1):
            ms = mcalls(o, nm, A("solver"))
            others = mcalls(o, "interpolate_fwd_at_t1" if nm == "interpolate_fwd" else "interpolate_fwd", A("solver"))
            ok = len(ms) == 1 and not others and ms[0].kwargs.get("t") is t_next and ms[0].kwargs.get("interp_from") is post.fields["interp_from"] and ms[0].kwargs.get("interp_to") is post.fields["step_from"]
            r5.require(ok, f"RejectionLoop arm {k}", f"arm {k}: solver.{nm}(t=t1, interp_from, interp_to=step_from)", f"arm {k} is {T.show(o, 3)}", swi["site"])
            if ok:
                m = ms[0]
                sol_ok = o[0] is T.mk("getitem", (m, 0))
                res = T.mk("getitem", (m, 1))
                ns = o[1]
                st_ok = isinstance(ns, Rec) and ns.fields["step_from"] is T.mk("attr", (res, "step_from")) and ns.fields["interp_from"] is T.mk("attr", (res, "interp_from"))
                keep_ok = isinstance(ns, Rec) and all(ns.fields[f] is post.fields[f] for f in ("dt", "control", "error_step_from"))
                r5.require(sol_ok and st_ok, f"RejectionLoop arm {k} rewiring", "solution and new step_from/interp_from come from the interpolation result", f"arm {k}: {T.show(o, 3)}", swi["site"])
                r5.require(keep_ok, f"RejectionLoop arm {k} passes dt/control/error state", "dt, control, error_step_from unchanged by interpolation", f"arm {k} state {T.show(ns, 3)}", swi["site"])
    # advance.body_fun: do_continue predicate on the new loop state, same form
    new_ls = body.fields["loopstate"]
    dc = body.fields["do_continue"]
    fd = pred_form(dc)
    nt = T.mk("attr", (new_ls.fields["step_from"], "t")) if isinstance(new_ls, Rec) else None
    wantd = None if nt is None else nf.add(nf.add(nf.norm(nt), nf.norm(eps)), nf.norm(t_next), -1)
    r5.require(fd is not None and wantd is not None and fd == (wantd, "<"), "solve_adaptive_save_at.advance.body_fun do_continue", "continue iff step_from.t + eps < t_next",
               f"do_continue is {T.show(dc, 4)}", wa["site"])
    r5.require(wa["cond"] is state.fields["do_continue"], "solve_adaptive_save_at.advance.cond_fun", "loop on do_continue", f"cond is {T.show(wa['cond'])}", wa["site"])
    ai = wa["init"]
    r5.require(isinstance(ai, Rec) and ai.fields["do_continue"] is True, "solve_adaptive_save_at.advance init", "always enter the rejection loop once", f"init {T.show(ai, 3)}", wa["site"])
    # advance returns the last iteration's solution and state
    fin = wa["final"]
    nc, y = sc["new_carry"], sc["y"]
    ok = isinstance(nc, (tuple, list)) and len(nc) == 2 and nc[0] is fin.fields["solution"] and nc[1] is fin.fields["loopstate"] and y is fin.fields["solution"]
    r5.require(ok, "solve_adaptive_save_at.advance return", "returns the solution/state of the last loop iteration", f"advance returns {T.show((nc, y), 3)}", sc["site"])
    r5.require(body.fields["solution"] is not None and isinstance(new_ls, Rec), "solve_adaptive_save_at.advance.body_fun state", "body stores loop.loop's (solution, state)", "", wa["site"])
    # userfriendly_output gets solution0, the stacked reports, and the final step_from
    ufo = mcalls(out, "userfriendly_output", A("solver"))
    ok = len(ufo) == 1 and out is ufo[0] and ufo[0].kwargs.get("solution0") is sol0 and ufo[0].kwargs.get("solution") is sc["ys"]
    fin_state = sc["final"][1] if isinstance(sc["final"], (tuple, list)) else None
    ok = ok and isinstance(fin_state, Rec) and ufo[0].kwargs.get("solution1") is fin_state.fields["step_from"]
    r5.require(ok, "solve_adaptive_save_at.solve userfriendly_output", "solution0 once, stacked checkpoint reports, final step_from", f"output {T.show(out, 3)}", sc["site"])
    chk.sample({"rule": "R-C06-5", "branch_index": T.show(idx, 6)})


# ---------------------------------------------------------------------------
class _NullRule:
    """Swallows obligations (used when another check borrows only part of what a rule function decides)."""

    def require(self, *a, **k):
        return None

    ok = fail = unknown = require


class _NullCheck:
    def sample(self, *a, **k):
        return None


def zero_length_interpolation_rules(S, rule):
    """C05's clause "checkpoints separated by less than eps": the obligations of zone_rules that concern the length of the interpolating transition."""
    zone_rules(_NullCheck(), S, _NullRule(), zero_len_rule=rule)


def zone_rules(chk, S, r6, zero_len_rule=None):
    """Interpolation brackets.  Times are terms; facts are difference bounds in units of eps."""
    eps = A("eps")
    for sq in sorted(c.qualname for c in S.p.subclasses(SOLVERS + ".ProbabilisticSolver")):
        it = S.interp()
        scv = it.class_value(sq)
        solver = it.instantiate(scv, [], dict(strategy=A("strategy"), constraint=A("constraint")), "<harness>")
        loop = make_loop(it, False, solver=solver)
        tk, tn = A("t_k"), A("t_next")  # previous and current checkpoint, t_k <= t_next
        PS = SOLVERS + ".ProbabilisticSolution"

        def timestep_state(name, it=it):
            return rec_of_atoms(it, ADAPT + ".TimeStepState", name, {
                "step_from": rec_of_atoms(it, PS, f"{name}.step_from"),
                "interp_from": rec_of_atoms(it, PS, f"{name}.interp_from"),
            })

        s = timestep_state("s")
        sT, iT = s.fields["step_from"].fields["t"], s.fields["interp_from"].fields["t"]
        beyond = call(it, method(it, loop, "interp_beyond_t1"), (s, tn))
        at = call(it, method(it, loop, "interp_at_t1"), (s, tn))
        S.absorb(it)
        cfg = {"solver": sq.rsplit(".", 1)[1]}
        where = "probdiffeq/_ivpsolve/solvers_via_adaptive_steps.py"
        for nm, o in (("interp_beyond_t1", beyond), ("interp_at_t1", at)):
            if not (isinstance(o, (tuple, list)) and len(o) == 2 and isinstance(o[1], Rec) and isinstance(o[0], Rec)):
                raise AnalysisError(f"RejectionLoop.{nm} with {sq}: unexpected result shape {T.show(o, 2)}")
        # reported time labels
        r6.require(beyond[0].fields["t"] is tn, "interp_beyond_t1 reported time", "reported t = t_next", f"reported time {T.show(beyond[0].fields['t'])}", config=cfg)
        r6.require(at[0].fields["t"] is sT, "interp_at_t1 reported time", "reported t = step_from.t (|.-t_next| <= eps by the branch guards)", f"reported time {T.show(at[0].fields['t'])}", config=cfg)
        # constructors of TimeStepState and the facts they establish about (interp_from.t, step_from.t)
        nb, na = beyond[1], at[1]
        cons = {
            "init": [("eq", "i", "s"), ("eq", "i", "k")],  # interp_from = step_from = solution0 at save_at[0]
            "step_extract": [("lt_eps", "i", "n")],  # interp_from.t + eps < t_next (guard under which step ran)
        }
        # derive the facts of the two interpolating constructors from their abstract results
        zb = Zone(eps_nonneg=True)
        facts_b = {"interp_from.t": nb.fields["interp_from"].fields["t"], "step_from.t": nb.fields["step_from"].fields["t"]}
        r6.require(facts_b["interp_from.t"] is tn and facts_b["step_from.t"] is sT, "interp_beyond_t1 new state times", "interp_from.t = t_next, step_from.t unchanged",
                   f"new interp_from.t = {T.show(facts_b['interp_from.t'])}, step_from.t = {T.show(facts_b['step_from.t'])}", config=cfg)
        facts_a = {"interp_from.t": na.fields["interp_from"].fields["t"], "step_from.t": na.fields["step_from"].fields["t"]}
        r6.require(facts_a["interp_from.t"] is sT and facts_a["step_from.t"] is sT, "interp_at_t1 new state times", "interp_from.t = step_from.t = old step_from.t",
                   f"new interp_from.t = {T.show(facts_a['interp_from.t'])}, step_from.t = {T.show(facts_a['step_from.t'])}", config=cfg)
        # Obligation in arm 'beyond' (guard t_next + eps < step_from.t) for each constructor of the incoming state:
        #    interp_from.t <= t_next < step_from.t     (or the arm is infeasible)
        for cname in ("init", "step_extract", "interp_beyond_t1", "interp_at_t1", "interp_skip"):
            z = Zone(eps_nonneg=True)
            z.le("k", "n")  # t_k <= t_next  (save_at non-decreasing)
            if cname == "init":
                z.eq("i", "s")
                z.eq("i", "k")
            elif cname == "step_extract":
                z.lt_eps("i", "n")  # interp_from.t + eps < t_next
            elif cname == "interp_beyond_t1":
                # state built at the previous checkpoint t_k: interp_from.t = t_k (from facts_b, checked above)
                if facts_b["interp_from.t"] is tn:
                    z.eq("i", "k")
            elif cname == "interp_at_t1":
                # built at previous checkpoint t_k under guards  not(s+eps<t_k) and not(s>t_k+eps): |s - t_k| <= eps
                if facts_a["interp_from.t"] is sT and facts_a["step_from.t"] is sT:
                    z.eq("i", "s")
                z.le_eps("s", "k")  # s <= t_k + eps
                z.le_eps("k", "s")  # t_k <= s + eps
            elif cname == "interp_skip":
                # skip leaves the state as it was; covered by the constructor that built it
                continue
            # guard of arm beyond:  t_next + eps < s
            z.lt_eps("n", "s")
            if z.infeasible():
                r6.ok(f"bracket in interp_beyond_t1 after {cname}", "arm infeasible for states built by this constructor (guards contradict)", config=cfg)
                if zero_len_rule is not None:
                    zero_len_rule.ok(f"{cfg['solver']}: interpolation length in interp_beyond_t1 after {cname}", "arm infeasible for states built by this constructor", where, cfg)
                continue
            if zero_len_rule is not None:
                # The transition interp_from -> checkpoint has dt = t_next - interp_from.t, and the prior's preconditioner holds dt^-k: a zero-length transition is
                # 0 * inf.  Save-at grids are non-decreasing, and the statement's quantifier includes checkpoints closer than eps, equal ones too.
                zero_len_rule.require(z.proves_lt("i", "n"), f"{cfg['solver']}: interpolation length in interp_beyond_t1 after {cname}", "interp_from.t < t_next: the interpolating transition has positive length",
                                      f"for a state built by {cname} only interp_from.t <= t_next follows (t_k <= t_next, guard t_next + eps < step_from.t): a checkpoint repeated inside one step "
                                      "(t_next = t_k) interpolates over dt = 0, where the preconditioner dt^-k is infinite and the reported marginal (and a smoother's backward factor) is NaN", where, cfg)
            ok = z.proves_le("i", "n") and z.proves_lt("n", "s")
            r6.require(ok, f"bracket in interp_beyond_t1 after {cname}", "interp_from.t <= t_next < step_from.t",
                       f"cannot derive interp_from.t <= t_next < step_from.t for a state built by {cname}", config=cfg)
        # the solver's interpolate_fwd must use exactly these brackets for its transitions
        prior_calls = [t for t in T.subterms(beyond) if t.op == "mcall" and t.args[1] == "transition"]
        dts = {nf.show(nf.norm(t.kwargs.get("dt"))) for t in prior_calls}
        want = {nf.show(nf.add(nf.norm(tn), nf.norm(iT), -1)), nf.show(nf.add(nf.norm(sT), nf.norm(tn), -1))}
        r6.require(dts == want, "ProbabilisticSolver.interpolate_fwd transitions", "dt = t - interp_from.t and interp_to.t - t",
                   f"transition step sizes {sorted(dts)}; expected {sorted(want)}", config=cfg)
        chk.sample({"rule": "R-C06-6", "solver": cfg["solver"], "transitions": sorted(dts)})


# ---------------------------------------------------------------------------
def step_count_rules(chk, S, r7):
    PS = SOLVERS + ".ProbabilisticSolution"
    for ci in S.p.subclasses(SOLVERS + ".ProbabilisticSolver"):
        sq = ci.qualname
        name = ci.name
        it = S.interp()
        scv = it.class_value(sq)
        solver = it.instantiate(scv, [], dict(strategy=A("strategy"), constraint=A("constraint")), "<harness>")
        state = rec_of_atoms(it, PS, "state")
        # init
        o = call(it, method(it, solver, "init"), A("t0"), A("prior"), damp=A("damp"))
        r7.require(isinstance(o, Rec) and o.fields.get("num_steps") == 0 and not isinstance(o.fields.get("num_steps"), bool), f"{name}.init num_steps", "num_steps = 0",
                   f"initial num_steps is {T.show(o.fields.get('num_steps') if isinstance(o, Rec) else o)}", ci.module.relpath)
        r7.require(isinstance(o, Rec) and o.fields.get("t") is A("t0"), f"{name}.init t", "t = t0", "", ci.module.relpath)
        # step
        o = call(it, method(it, solver, "step"), state=state, dt=A("dt"), damp=A("damp"))
        want = nf.add(nf.norm(state.fields["num_steps"]), nf.const(1))
        got = o.fields.get("num_steps") if isinstance(o, Rec) else None
        r7.require(got is not None and nf.norm(got) == want, f"{name}.step num_steps", "num_steps = state.num_steps + 1",
                   f"step sets num_steps to {T.show(got)}", where_of(got, ci.module.relpath))
        # interpolation: identity copies
        a, b = rec_of_atoms(it, PS, "interp_from"), rec_of_atoms(it, PS, "interp_to")
        for m in ("interpolate_fwd", "interpolate_fwd_at_t1"):
            res = call(it, method(it, solver, m), t=A("t"), interp_from=a, interp_to=b)
            sol, ir = res
            for lbl, rec_, src in (("reported", sol, b), ("step_from", ir.fields["step_from"], b), ("interp_from", ir.fields["interp_from"], a)):
                r7.require(rec_.fields["num_steps"] is src.fields["num_steps"], f"{name}.{m} {lbl}.num_steps", f"copied from {'interp_to' if src is b else 'interp_from'}",
                           f"{lbl}.num_steps = {T.show(rec_.fields['num_steps'])}", ci.module.relpath)
        # userfriendly_output
        sol = rec_of_atoms(it, PS, "solution")
        o = call(it, method(it, solver, "userfriendly_output"), solution0=rec_of_atoms(it, PS, "solution0"), solution=sol, solution1=rec_of_atoms(it, PS, "solution1"))
        r7.require(isinstance(o, Rec) and o.fields["num_steps"] is sol.fields["num_steps"], f"{name}.userfriendly_output num_steps", "reported num_steps are the checkpoint values",
                   f"num_steps = {T.show(o.fields['num_steps'] if isinstance(o, Rec) else o)}", ci.module.relpath)
        S.absorb(it)

LEVEL = "other"
TECHNIQUE = "abstract interpretation over the AST: provenance/identity dataflow, interval + symbolic-bound analysis with guard refinement, value-numbering normal form, difference-bound zones"
LEVEL_TEXT = (
    "Static proof obligations derived from the current source on every run: inductive invariants over the constructors of the "
    "loop-state records (not samples of histories), so every accept/reject history and checkpoint layout is covered at once; "
    "all clauses of the property except loop termination are decided."
)
LEVEL_NOTE = (
    "Trusted: semantics of flow.while_loop/cond/switch/scan and np.minimum/maximum/where as modelled in interp.py/bounds.py; "
    "controller parameter assumptions 0<factor_min<1<=factor_max, 0<safety<1, exponents>0, error_power>0; save_at non-decreasing, eps>=0. "
    "Solver and error estimator are opaque collaborators here (their own behaviour is C02/C07). Termination is not decided."
)


def driver_loop_rules(chk, S):
    """Python-level driver loops around RejectionLoop.loop must use the loop's own 'before t1' predicate.

    RejectionLoop.loop steps only while step_from.t + eps < t1 and otherwise returns the state unchanged; a driver that keeps
    calling it while step_from.t < t1 spins forever once a step ends within eps below t1 (clipping + rounding is enough).
    """
    import ast

    from ..interp import Env

    r8 = chk.rule("R-C06-8", "Python driver loops around RejectionLoop.loop continue exactly while step_from.t + eps < t1 (the loop's own predicate)", floor=1)
    found = 0
    seen = set()
    for m in S.p.modules.values():
        if ".backend" in m.name:
            continue
        # innermost enclosing function first, each while statement once
        fns = sorted((n for n in ast.walk(m.tree) if isinstance(n, ast.FunctionDef)), key=lambda n: -(n.lineno))
        for fn_ in fns:
            for w in [n for n in ast.walk(fn_) if isinstance(n, ast.While)]:
                if (m.name, w.lineno) in seen:
                    continue
                seen.add((m.name, w.lineno))
                body_src = "".join(ast.unparse(b) for b in w.body)
                fn_src = ast.unparse(fn_)
                if "loop" not in body_src or ".loop" not in fn_src:
                    continue
                # the loop body must call something bound to <RejectionLoop>.loop
                calls = [c for b in w.body for c in ast.walk(b) if isinstance(c, ast.Call) and any(k.arg == "t1" for k in c.keywords) and any(k.arg == "eps" for k in c.keywords)]
                if not calls:
                    continue
                found += 1
                c0 = calls[0]
                t1_e = next(k.value for k in c0.keywords if k.arg == "t1")
                eps_e = next(k.value for k in c0.keywords if k.arg == "eps")
                st_e = c0.args[0] if c0.args else None
                it = S.interp()
                env = Env(None, m)
                names = {n.id for n in ast.walk(w.test) if isinstance(n, ast.Name)} | {n.id for e_ in (t1_e, eps_e, st_e) if e_ is not None for n in ast.walk(e_) if isinstance(n, ast.Name)}
                for nm in names:
                    env.vars[nm] = A(f"drv.{nm}")
                where = f"{m.relpath}:{w.lineno}"
                try:
                    test = it.eval(w.test, env)
                    t1_v, eps_v = it.eval(t1_e, env), it.eval(eps_e, env)
                    st_v = it.eval(st_e, env) if st_e is not None else None
                except AnalysisError as e:
                    r8.unknown(f"{m.name}.{fn_.name} driver loop", str(e), where)
                    continue
                S.absorb(it)
                f = pred_form(test)
                want = nf.add(nf.add(nf.norm(T.mk("attr", (T.mk("attr", (st_v, "step_from")), "t"))), nf.norm(eps_v)), nf.norm(t1_v), -1) if st_v is not None else None
                r8.require(f is not None and want is not None and f == (want, "<"), f"{m.name}.{fn_.name} driver loop predicate", "continues while state.step_from.t + eps < t1",
                           f"the driver continues while {ast.unparse(w.test)}, but RejectionLoop.loop(state, t1={ast.unparse(t1_e)}, eps={ast.unparse(eps_e)}) only advances while step_from.t + eps < t1: "
                           "once a step ends within eps below t1 the driver spins forever", where)
    if found == 0:
        r8.unknown("driver loops", "no Python while-loop around RejectionLoop.loop found (anchor vanished: util.test_util.solve_adaptive_save_every_step)")


def run(chk, S: Session):
    _run_core(chk, S)
    driver_loop_rules(chk, S)
    from ..harness import borrow

    rb = chk.rule("R-C06-B", "the terminal-value routine runs the same loop with the caller's controller, error estimator, clipping flag and options (rule of C05)", floor=6)
    borrow(chk, S, rb, "C05", lambda r, c: r == "R-C05-3" and c.startswith("solve_adaptive_terminal_values"))
    # an option passed to a constructor arrives in the attribute of its own name (the rules above read options through those attributes)
    from .ctor_wiring import ctor_wiring_rules

    rcw = chk.rule("R-C06-W", "constructor wiring of the controllers and the rejection loop: every attribute that carries a constructor parameter's name holds that parameter, not another one", floor=12)
    ctor_wiring_rules(chk, S, rcw, ["probdiffeq._ivpsolve.controllers.control_proportional_integral", "probdiffeq._ivpsolve.controllers.control_integral", ADAPT + ".RejectionLoop"])
