"""Constructor wiring: an option a caller passes to a constructor must arrive in the attribute of its own name.

Every option-bearing class of the library stores its constructor parameters in like-named attributes (`self.clip_dt = clip_dt`), and every rule of the
checks reads options *through those attributes*.  A store that takes the value of another parameter (`self.stop_gradient_through_calibration =
re_linearize_after_calibration`, a copy/paste slip) makes two options aliases of each other; each rule that instantiates the class with an atom per option
would be none the wiser as long as it reads the attribute it set itself.  Decided by interpretation: the class is instantiated with one distinct atom per
parameter; an attribute that has the name of a parameter must depend, by value, on that parameter and on no other one.  (Attributes that are computed from
several parameters do not carry a parameter's name in this library; one that does is reported as inconclusive, not as a violation.)

Second obligation per stored option: it is *read* -- an attribute load of that name exists somewhere in the package outside display methods and
constructors.  `jacobian_materialize.jacfun` was stored, shown by __repr__ and never read: the three methods hard-coded forward mode (F34).
"""

from __future__ import annotations

import ast

from .. import terms as T
from ..interp import RaiseSignal, Rec
from ..model import AnalysisError


def _params(ci):
    """Parameters of the class's own or inherited __init__ (first one found along the bases is the one that runs)."""
    fn = ci.methods.get("__init__")
    return fn


_DISPLAY = {"__repr__", "__str__", "__eq__", "__hash__", "__init__"}
_READS = {}


def _attribute_reads(p):
    """{attribute name: [(module, function)]} for every attribute LOAD outside display methods and constructors, over the whole package."""
    key = id(p)
    if key in _READS:
        return _READS[key]
    out = {}

    def walk(m, node, fn):
        for ch in ast.iter_child_nodes(node):
            f2 = ch.name if isinstance(ch, (ast.FunctionDef, ast.AsyncFunctionDef)) else fn
            if isinstance(ch, ast.Attribute) and isinstance(ch.ctx, ast.Load) and fn not in _DISPLAY:
                out.setdefault(ch.attr, []).append((m.name, fn))
            walk(m, ch, f2)

    for m in p.modules.values():
        walk(m, m.tree, None)
    _READS.clear()
    _READS[key] = out
    return out


def _option_is_read(S, rule, cname, nm, where):
    """A stored option nobody reads is an option that is ignored: whatever the caller passes, the methods do what they always do."""
    reads = _attribute_reads(S.p).get(nm, [])
    rule.require(bool(reads), f"{cname}.{nm} is read by the code", f"{len(reads)} read(s), e.g. in {reads[0][0]}.{reads[0][1]}" if reads else "",
                 f"self.{nm} is stored by the constructor and read nowhere in the package outside __repr__ / __init__: the option `{nm}` is ignored", where)


def ctor_wiring_rules(chk, S, rule, class_quals):
    n = 0
    extra = "; and every option a constructor stores is read somewhere in the package outside __repr__ / __init__ (an option nobody reads is ignored)"
    if extra not in rule.text:
        rule.text += extra
    for qual in class_quals:
        try:
            ci = S.p.find_class(qual)
        except AnalysisError:
            rule.unknown(f"{qual.rsplit('.', 1)[1]} constructor", "class not found (anchor vanished)")
            continue
        fn = ci.methods.get("__init__")
        if fn is None:
            continue  # dataclass or inherited constructor: decided where the constructor is written
        a = fn.args
        names = [p.arg for p in (a.posonlyargs + a.args)[1:]] + [p.arg for p in a.kwonlyargs]
        if not names:
            continue
        it = S.interp()
        atoms = {nm: T.atom(f"ctor.{nm}") for nm in names}
        pos = [atoms[p.arg] for p in (a.posonlyargs + a.args)[1:]]
        kw = {p.arg: atoms[p.arg] for p in a.kwonlyargs}
        cname = qual.rsplit(".", 1)[1]
        where = f"{ci.module.relpath}:{fn.lineno}"
        try:
            obj = it.instantiate(it.class_value(qual), pos, kw, "<harness>")
        except (AnalysisError, RaiseSignal) as e:
            # constructors that validate their arguments reject opaque atoms: fall back to the stores as written (self.<name> = <expression>)
            obj = None
            stores = {}
            for node in ast.walk(fn):
                if isinstance(node, ast.Assign) and len(node.targets) == 1 and isinstance(node.targets[0], ast.Attribute) and isinstance(node.targets[0].value, ast.Name) and node.targets[0].value.id == "self":
                    stores[node.targets[0].attr] = {x.id for x in ast.walk(node.value) if isinstance(x, ast.Name)} & set(names)
            for nm in names:
                if nm in stores:
                    n += 1
                    others = sorted(stores[nm] - {nm})
                    _option_is_read(S, rule, cname, nm, where)
                    rule.require(nm in stores[nm] and not others, f"{cname}.{nm} holds the constructor argument {nm}", f"self.{nm} is computed from {nm}",
                                 f"self.{nm} is computed from {sorted(stores[nm]) or 'no parameter'}: the option `{nm}` is an alias of {others or 'a constant'}", where)
            continue
        S.absorb(it)
        if not isinstance(obj, Rec):
            rule.unknown(f"{cname} constructor", f"instantiation gives {T.show(obj, 2)}", where)
            continue
        for nm in names:
            if nm not in obj.fields:
                continue  # not stored under its own name (consumed by the constructor)
            n += 1
            _option_is_read(S, rule, cname, nm, where)
            deps = {d for d in T.atoms_of(obj.fields[nm]) if d.startswith("ctor.")}
            own = f"ctor.{nm}"
            others = sorted(d[5:] for d in deps if d != own)
            if own in deps and others:
                rule.unknown(f"{cname}.{nm} holds the constructor argument {nm}", f"self.{nm} also depends on {others}: a computed attribute under a parameter's name", where)
            else:
                rule.require(own in deps and not others, f"{cname}.{nm} holds the constructor argument {nm}", f"self.{nm} is computed from {nm}",
                             f"self.{nm} = {T.show(obj.fields[nm], 3)} depends on {others or 'no constructor argument'}: the option `{nm}` is an alias of {others or 'a constant'}", where)
    return n
