"""The trusted base, decided semantically.

Every domain gives the primitives of ``probdiffeq.backend`` a fixed meaning and never looks at the wrappers that implement them.  This module decides,
for the primitives a check actually *met* (see __main__.run_check), that /repo's wrapper still computes what the reference wrapper computes:

    reference  = pdqverif/backend_reference/<module>.py.txt -- the wrappers as read and confirmed when the domains were written (one-line forwards to the
                 like-named jax routine; the few with a body of their own are listed in backend_contract.EXPRESSIONS with their meaning in words)
    comparison = both wrappers are *interpreted* by the abstract interpreter on the same symbolic arguments, with every jax routine an uninterpreted
                 function; the two values are brought to a canonical form and compared as terms.

Because the comparison is on interpreted values, not on text, the usual rewrites of a wrapper are the same value: local variables, helper functions (private
or module-level), nested functions vs lambdas, unpacking a result by name instead of by index, parameter names, keyword vs positional spelling (callee
signatures tabled), keywords spelled out with the library's documented default (tabled), commuted sums and products (polynomial normal form).

Usage-aware: optional parameters that no code path of the property supplies are left at their defaults on both sides, so a wrapper that stops forwarding an
option nobody here uses is the same value, while a changed default is not.

Verdicts: different routing / constants under the same library routine -> refuted, naming the argument; a value that is a different expression altogether
(another routine, extra computation) -> inconclusive: the primitive would have to be re-read, the check does not guess.
"""

from __future__ import annotations

import ast
import os

from .. import nf
from .. import terms as T
from ..interp import BoundMethod, Closure, Env, Interp, PartialV, PrimV, WrappedFn
from ..model import AnalysisError, ModuleInfo
from . import backend_contract as BC

REF_DIR = os.path.join(os.path.dirname(os.path.dirname(os.path.abspath(__file__))), "backend_reference")
REF_PREFIX = "pdqverif_reference"
MODULES = ("linalg", "np", "flow", "func", "random", "tree")

# positional parameter names of the library routines the wrappers call (so that f(a, b) and f(a, y=b) are the same call)
SIGNATURES = {
    "jax.numpy.linalg.qr": ["a", "mode"], "jax.numpy.linalg.norm": ["x", "ord", "axis", "keepdims"], "jax.scipy.linalg.solve_triangular": ["a", "b", "trans", "lower", "unit_diagonal"],
    "jax.numpy.linalg.solve": ["a", "b"], "jax.numpy.linalg.lstsq": ["a", "b", "rcond"], "jax.numpy.linalg.inv": ["a"], "jax.numpy.linalg.pinv": ["a"], "jax.numpy.dot": ["a", "b"],
    "jax.numpy.diagonal": ["a", "offset", "axis1", "axis2"], "jax.numpy.trace": ["a", "offset", "axis1", "axis2"], "jax.numpy.diag": ["v", "k"], "jax.numpy.triu": ["m", "k"],
    "jax.numpy.tril": ["m", "k"], "jax.scipy.linalg.expm": ["A"], "jax.numpy.einsum": ["subscripts"],
    "jax.lax.scan": ["f", "init", "xs", "length", "reverse", "unroll"], "jax.lax.fori_loop": ["lower", "upper", "body_fun", "init_val"], "jax.lax.while_loop": ["cond_fun", "body_fun", "init_val"],
    "jax.lax.cond": ["pred", "true_fun", "false_fun"], "jax.lax.switch": ["index", "branches"],
    "jax.vmap": ["fun", "in_axes", "out_axes"], "jax.jit": ["fun"], "jax.jvp": ["fun", "primals", "tangents"], "jax.experimental.jet.jet": ["fun", "primals", "series"],
    "jax.random.split": ["key", "num"], "jax.random.normal": ["key", "shape", "dtype"], "jax.random.rademacher": ["key", "shape", "dtype"], "jax.random.PRNGKey": ["seed"],
    "jax.numpy.where": ["condition", "x", "y"], "jax.numpy.arange": ["start", "stop", "step"], "jax.numpy.reshape": ["a", "shape", "order"], "jax.numpy.concatenate": ["arrays", "axis"],
    "jax.numpy.stack": ["arrays", "axis"], "jax.numpy.mean": ["a", "axis"], "jax.numpy.std": ["a", "axis"], "jax.numpy.flip": ["m", "axis"], "jax.numpy.diff": ["a", "n", "axis"],
    "jax.numpy.asarray": ["a", "dtype"], "jax.numpy.ones": ["shape", "dtype"], "jax.numpy.zeros": ["shape", "dtype"], "jax.numpy.eye": ["N", "M", "k", "dtype"],
    "jax.numpy.transpose": ["a", "axes"], "jax.numpy.tile": ["A", "reps"], "jax.numpy.repeat": ["a", "repeats"], "jax.numpy.linspace": ["start", "stop", "num", "endpoint"],
    "jax.numpy.power": ["x1", "x2"], "jax.numpy.minimum": ["x", "y"], "jax.numpy.maximum": ["x", "y"], "jax.numpy.kron": ["a", "b"], "jax.numpy.hypot": ["x1", "x2"],
    "jax.numpy.searchsorted": ["a", "v"], "jax.numpy.logical_and": ["x", "y"],
    "jax.tree_util.tree_flatten": ["tree", "is_leaf"], "jax.tree_util.tree_leaves": ["tree", "is_leaf"], "jax.tree_util.tree_unflatten": ["treedef", "leaves"],
    "jax.tree_util.tree_structure": ["tree"], "jax.tree_util.register_pytree_node": ["nodetype", "flatten_func", "unflatten_func"],
}
# documented defaults of the library routines (a keyword spelled out with its default is the same call)
LIB_DEFAULTS = {
    "jax.numpy.linalg.qr": {"mode": "reduced"}, "jax.numpy.linalg.norm": {"ord": None, "axis": None, "keepdims": False},
    "jax.scipy.linalg.solve_triangular": {"trans": 0, "lower": False, "unit_diagonal": False, "overwrite_b": False, "check_finite": True},
    "jax.numpy.linalg.lstsq": {"rcond": None, "numpy_resid": False}, "jax.numpy.diagonal": {"offset": 0, "axis1": 0, "axis2": 1}, "jax.numpy.trace": {"offset": 0, "axis1": 0, "axis2": 1, "dtype": None, "out": None},
    "jax.numpy.diag": {"k": 0}, "jax.numpy.triu": {"k": 0}, "jax.numpy.tril": {"k": 0}, "jax.numpy.dot": {"precision": None, "preferred_element_type": None},
    "jax.numpy.einsum": {"optimize": "optimal", "precision": None, "out": None},
    "jax.lax.scan": {"length": None, "reverse": False, "unroll": 1}, "jax.vmap": {"in_axes": 0, "out_axes": 0, "axis_name": None, "axis_size": None, "spmd_axis_name": None},
    "jax.jit": {"static_argnums": None, "static_argnames": None}, "jax.random.normal": {"dtype": None}, "jax.random.split": {},
    "jax.numpy.arange": {"step": None, "dtype": None}, "jax.numpy.reshape": {"order": "C"}, "jax.numpy.concatenate": {"axis": 0, "dtype": None}, "jax.numpy.stack": {"axis": 0, "out": None, "dtype": None},
    "jax.numpy.mean": {"axis": None, "dtype": None, "out": None, "keepdims": False, "where": None}, "jax.numpy.std": {"axis": None, "dtype": None, "out": None, "ddof": 0, "keepdims": False, "where": None},
    "jax.numpy.flip": {"axis": None}, "jax.numpy.diff": {"n": 1, "axis": -1, "prepend": None, "append": None}, "jax.numpy.asarray": {"dtype": None, "order": None, "copy": None},
    "jax.numpy.ones": {"dtype": None}, "jax.numpy.zeros": {"dtype": None}, "jax.numpy.eye": {"M": None, "k": 0, "dtype": None}, "jax.numpy.transpose": {"axes": None},
    "jax.numpy.linspace": {"num": 50, "endpoint": True, "retstep": False, "dtype": None, "axis": 0}, "jax.numpy.squeeze": {"axis": None}, "jax.numpy.sum": {"axis": None},
    "jax.numpy.amax": {"axis": None}, "jax.numpy.amin": {"axis": None}, "jax.numpy.any": {"axis": None}, "jax.numpy.all": {"axis": None}, "jax.numpy.cumsum": {"axis": None},
    "jax.numpy.argmin": {"axis": None}, "jax.tree_util.tree_flatten": {"is_leaf": None}, "jax.tree_util.tree_leaves": {"is_leaf": None}, "jax.tree.map": {"is_leaf": None},
    "jax.experimental.jet.jet": {}, "jax.flatten_util.ravel_pytree": {},
}
ARITH = {"add", "sub", "mul", "div", "neg", "pow"}
# library routines that return a fixed-length tuple: (r[0], ..., r[n-1]) is r
RESULT_ARITY = {"jax.tree_util.tree_flatten": 2, "jax.experimental.jet.jet": 2, "jax.flatten_util.ravel_pytree": 2, "jax.lax.scan": 2, "jax.jvp": 2, "jax.linearize": 2, "jax.vjp": 2,
                "jax.numpy.linalg.lstsq": 4}


def load_reference(S):
    """A private copy of the program model with the reference wrappers added as modules.  (Never the shared model: rules that take a census over all
    modules -- C16's stop_gradient sites -- must not see the reference text as library code.)"""
    import copy

    prog = copy.copy(S.p)
    prog.modules = dict(S.p.modules)
    for short in MODULES:
        name = f"{REF_PREFIX}.{short}"
        path = os.path.join(REF_DIR, f"{short}.py.txt")
        if not os.path.exists(path):
            raise AnalysisError(f"reference wrappers {path} missing")
        with open(path, encoding="utf-8") as fh:
            prog.modules[name] = ModuleInfo(name, path, fh.read())
    return prog


class _Canon:
    """Canonical form of an interpreted value (see module docstring)."""

    def __init__(self, it):
        self.it = it
        self.n_probe = 0
        self.memo = {}  # one canonical form per term / function object (fresh probes are drawn once per function)

    def probe(self):
        self.n_probe += 1
        return T.atom(f"_probe{self.n_probe}")

    def __call__(self, v, depth=0):
        if depth > 40:
            raise AnalysisError("canonical form: nesting too deep")
        c = lambda x: self(x, depth + 1)  # noqa: E731
        if isinstance(v, (T.Term, Closure, BoundMethod, PartialV, WrappedFn)):
            key = ("t", v.uid) if isinstance(v, T.Term) else ("f", id(v))
            if key not in self.memo:
                self.memo[key] = (v, self._canon(v, depth, c))  # (the object is kept alive with its key)
            return self.memo[key][1]
        return self._canon(v, depth, c)

    def _canon(self, v, depth, c):
        if isinstance(v, T.Term):
            if v.op.startswith("ext:"):
                callee = v.op[4:]
                sig = SIGNATURES.get(callee, [])
                kw = {}
                pos = []
                for i, a in enumerate(v.args):
                    if i < len(sig):
                        kw[sig[i]] = c(a)
                    else:
                        pos.append(c(a))
                for k, a in v.kwargs.items():
                    kw[k] = c(a)
                for k, d in LIB_DEFAULTS.get(callee, {}).items():
                    if k in kw and T._freeze(kw[k]) == T._freeze(d):
                        del kw[k]
                return T.mk(v.op, tuple(pos), kw)
            if v.op == "atom":
                return v
            args = tuple(c(a) for a in v.args)
            kwargs = {k: c(a) for k, a in v.kwargs.items()}
            t = T.mk(v.op, args, kwargs)
            if v.op in ARITH:
                try:
                    return nf.canon(t)
                except Exception:  # noqa: BLE001 -- outside the polynomial fragment: keep the rebuilt term
                    return t
            return t
        if isinstance(v, (Closure, BoundMethod, PartialV, WrappedFn)):
            return self.closure(v, depth)
        if isinstance(v, PrimV):
            return T.mk("prim", (v.name,))
        if isinstance(v, (list, tuple)):
            items = [c(e) for e in v]
            # a result unpacked by name and re-packed: (r[0], ..., r[n-1]) of an n-tuple result r is r
            if isinstance(v, tuple) and items and all(isinstance(e, T.Term) and e.op == "getitem" and e.args[1] == i and isinstance(e.args[0], T.Term) for i, e in enumerate(items)):
                base = items[0].args[0]
                if all(e.args[0] is base for e in items) and base.op.startswith("ext:") and RESULT_ARITY.get(base.op[4:]) == len(items):
                    return base
            return type(v)(items)
        if isinstance(v, dict):
            return {k: c(e) for k, e in v.items()}
        if isinstance(v, slice):
            return slice(c(v.start), c(v.stop), c(v.step))
        return v

    def closure(self, f, depth):
        """lam(arity, canonical value on fresh probes): functions are compared by what they return."""
        node = None
        g = f
        while isinstance(g, (BoundMethod, PartialV, WrappedFn)):
            g = g.fn
        if isinstance(g, Closure):
            node = g.node
        if node is None:
            return T.mk("fn", (repr(f),))
        a = node.args
        n_pos = len(a.posonlyargs) + len(a.args)
        bound = len(f.args) if isinstance(f, PartialV) else 0
        if isinstance(f, BoundMethod):
            bound += 1
        n = max(n_pos - bound, 0)
        probes = [self.probe() for _ in range(n)]
        extra = [self.probe(), self.probe()] if a.vararg is not None else []
        try:
            out = self.it.call(f, probes + extra, {}, "<canonical form>")
        except AnalysisError as e:
            return T.mk("fn", (f"{getattr(g, 'qualname', f)}: {str(e)[:60]}",))
        body = self(out, depth + 1)
        # probes are numbered in order of creation on both sides, so equal functions give equal terms
        return T.mk("lam", (n, bool(extra), body))


def _call_wrapper(it, mi, name, supplied, canon):
    """Interpret module function ``name`` on symbolic arguments; ``supplied`` = optional parameters to pass (others keep their defaults)."""
    fn_node = mi.functions.get(name)
    if fn_node is None:
        raise AnalysisError(f"{mi.name}.{name} not found")
    f = it.make_closure(fn_node, Env(None, mi), mi, f"{mi.name}.{name}")  # the plain function: decorators (custom_jvp) do not change the primal
    a = fn_node.args
    pos = [p.arg for p in a.posonlyargs + a.args]
    n_required = len(pos) - len(a.defaults)
    args, kwargs = [], {}
    for i, p in enumerate(pos):
        if i < n_required or p in supplied:
            if len(args) == i:
                args.append(T.atom(f"p{i}"))
            else:
                kwargs[p] = T.atom(f"p{i}")
    for p, d in zip(a.kwonlyargs, a.kw_defaults):
        if d is None or p.arg in supplied:
            kwargs[p.arg] = T.atom(f"kw_{p.arg}")
    if a.vararg is not None:
        args = args + [T.atom("va0"), T.atom("va1")]
    if a.kwarg is not None:
        kwargs["kwx"] = T.atom("kwx")
    out = it.call(f, args, kwargs, "<trusted base>")
    return canon(out)


def _optional_params(fn_node):
    a = fn_node.args
    pos = [p.arg for p in a.posonlyargs + a.args]
    out = pos[len(pos) - len(a.defaults):]
    out += [p.arg for p, d in zip(a.kwonlyargs, a.kw_defaults) if d is not None]
    return out, pos


def _diff(got, want, path="result"):
    """First differences between two canonical values, as text; ([], simple?)"""
    out = []
    if isinstance(got, T.Term) and isinstance(want, T.Term):
        if got is want:
            return out
        if got.op != want.op or len(got.args) != len(want.args):
            return [(path, T.show(got, 3), T.show(want, 3), False)]
        if got.op.startswith("ext:"):
            for k in sorted(set(got.kwargs) | set(want.kwargs)):
                g, w = got.kwargs.get(k, "<library default>"), want.kwargs.get(k, "<library default>")
                if T._freeze(g) != T._freeze(w):
                    sub = _diff(g, w, f"{path}: argument {k!r} of {got.op[4:]}") if isinstance(g, T.Term) and isinstance(w, T.Term) and g.op == w.op and g.op != "atom" else None
                    out += sub if sub else [(f"{path}: argument {k!r} of {got.op[4:]}", T.show(g, 3), T.show(w, 3), True)]
            for i, (g, w) in enumerate(zip(got.args, want.args)):
                if T._freeze(g) != T._freeze(w):
                    out.append((f"{path}: positional argument {i} of {got.op[4:]}", T.show(g, 3), T.show(w, 3), True))
            return out
        for i, (g, w) in enumerate(zip(got.args, want.args)):
            if T._freeze(g) != T._freeze(w):
                out += _diff(g, w, f"{path}.{got.op}[{i}]")
        for k in sorted(set(got.kwargs) | set(want.kwargs)):
            g, w = got.kwargs.get(k), want.kwargs.get(k)
            if T._freeze(g) != T._freeze(w):
                out += _diff(g, w, f"{path}.{got.op}[{k}]")
        return out or [(path, T.show(got, 3), T.show(want, 3), False)]
    if isinstance(got, (list, tuple)) and isinstance(want, (list, tuple)) and len(got) == len(want):
        for i, (g, w) in enumerate(zip(got, want)):
            if T._freeze(g) != T._freeze(w):
                out += _diff(g, w, f"{path}[{i}]")
        return out
    if T._freeze(got) != T._freeze(want):
        simple = not isinstance(got, (T.Term, list, tuple)) or not isinstance(want, (T.Term, list, tuple)) or (isinstance(got, T.Term) and got.op == "atom") or (isinstance(want, T.Term) and want.op == "atom")
        out.append((path, T.show(got, 3), T.show(want, 3), simple))
    return out


def trusted_base_rules(chk, S, rule, prims, usage=None):
    """One obligation per met primitive that is a function of one of the six backend modules."""
    ref_prog = load_reference(S)
    prims = set(prims)
    todo = list(prims)
    while todo:
        for dep in BC.DEPENDS.get(todo.pop(), ()):
            if dep not in prims:
                prims.add(dep)
                todo.append(dep)
    done = []
    for prim in sorted(prims):
        short, _, name = prim.partition(".")
        if short not in MODULES or "." in name or prim in BC.SKIP:
            continue
        ref = ref_prog.modules[f"{REF_PREFIX}.{short}"]
        if name not in ref.functions:
            continue  # a re-exported constant or type, not a wrapper the domains give a meaning to
        try:
            mi = S.p.module(f"probdiffeq.backend.{short}")
        except AnalysisError:
            rule.unknown(f"backend.{prim} is what its signature assumes", f"module probdiffeq.backend.{short} not found (anchor vanished)")
            continue
        done.append(prim)
        meaning = (BC.CONTRACTS.get(name, (None, None))[1] if short == "linalg" else None) or BC.EXPRESSIONS.get(prim, (None, None))[1] or f"transparent forward to the like-named library routine"
        construct = f"backend.{prim} is what its signature assumes"
        cfg = {"primitive": prim}
        fn_node = mi.functions.get(name)
        if fn_node is None:
            rule.unknown(construct, f"probdiffeq.backend.{prim} not found (anchor vanished)", mi.relpath, cfg)
            continue
        loc = f"{mi.relpath}:{fn_node.lineno}"
        optional, pos = _optional_params(ref.functions[name])
        use = (usage or {}).get(prim)

        def supplied_in(shape, p, _pos=pos):
            nargs, kws = shape
            return p in kws or (p in _pos and _pos.index(p) < nargs)

        if use is None or not use:
            scenarios = [set(optional), set()] if optional else [set()]
        else:
            ever = {p for p in optional if any(supplied_in(sh, p) for sh in use)}
            omitted = {p for p in optional if any(not supplied_in(sh, p) for sh in use)}
            scenarios = [ever]
            if ever & omitted:
                scenarios.append(ever - omitted)
        verdict, details = True, []
        for sc in scenarios:
            it = Interp(ref_prog)  # (not S.interp(): what these interpreters meet is not part of the check's own coverage)
            canon = _Canon(it)
            try:
                want = _call_wrapper(it, ref, name, sc, canon)
            except AnalysisError as e:
                raise AnalysisError(f"reference wrapper {prim} not interpretable: {e}") from e
            it2 = Interp(S.p)
            canon2 = _Canon(it2)
            try:
                got = _call_wrapper(it2, mi, name, sc, canon2)
            except AnalysisError as e:
                verdict = None
                details.append(f"the wrapper could not be interpreted on the reference's arguments ({str(e)[:120]}); its meaning '{meaning}' would have to be re-read")
                break
            except Exception as e:  # noqa: BLE001 -- a raise inside the wrapper on plain symbolic arguments
                verdict = None
                details.append(f"the wrapper raised {type(e).__name__} on symbolic arguments; its meaning '{meaning}' would have to be re-read")
                break
            if T._freeze(got) == T._freeze(want):
                continue
            diffs = _diff(got, want)
            with_opts = f" (options supplied: {sorted(sc) or 'none'})"
            if diffs and all(d[3] for d in diffs):
                verdict = False
                details += [f"{p_}{with_opts} is {g_} (assumed: {w_})" for p_, g_, w_, _s in diffs[:3]]
            else:
                if verdict is not False:
                    verdict = None
                details.append(f"computes {T.show(got, 4)}{with_opts}, not the assumed {T.show(want, 4)}; its meaning '{meaning}' would have to be re-read")
        if verdict is True:
            rule.ok(construct, f"same value as the reference wrapper on symbolic arguments ({len(scenarios)} option scenario(s)): {meaning}", loc, cfg)
        elif verdict is False:
            rule.fail(construct, "; ".join(details) + f" -- assumed meaning: {meaning}", loc, cfg)
        else:
            rule.unknown(construct, "; ".join(details), loc, cfg)
    return done
