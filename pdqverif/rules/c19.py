"""C19 -- constrained least-squares (Gauss-Newton) structure."""

from __future__ import annotations

from .. import nf
from .. import terms as T
from ..harness import DENSE, JETEXP, TPOINTS, A, Rec, Session, call, events, method, where_of
from ..interp import WrappedFn
from ..model import AnalysisError
from .c06 import pred_form

EXPLANATION = (
    "Abstract interpretation of every LstSqConstrained subclass (constraint, lstsq and while_loop opaque) and of "
    "taylor_point_maximum_a_posteriori: affine normal form of the Gauss-Newton update (x+ = m - L*lstsq(J L, f + J(m - x)), "
    "one Jacobian per iteration used in both places), the termination conjunction and iteration counter, truthfulness of the "
    "State records and of the reported statistics, and the wiring of mean / Cholesky factor / start value into the solver "
    "and of the returned point into the dense residual linearisation and jetexpand_residual."
    "  The continuation condition is read semantically: simplified under i == 0 it may only contain the budget (the first Gauss-Newton step is always taken, so a feasible but non-optimal start cannot be returned unchanged), simplified under i >= 1 its conjuncts are exactly {constraint tolerance, budget, increment}."
)
TRUSTED_VALUE_PRIMITIVES = ("lstsq_svd",)  # default least-squares solve of the Gauss-Newton iteration
LEVEL = "other"
TECHNIQUE = "abstract interpretation over the AST: value-numbering with affine normal form, provenance/identity of record fields, inductive check of the while-loop state"
LEVEL_TEXT = (
    "The range clause (displacement from the mean lies in the range of L), the iteration budget and the truthfulness of the statistics "
    "are decided for every constraint, mean, covariance factor, tolerance and budget as identities on the loop body."
)
LEVEL_NOTE = (
    "Trusted: lstsq(H, r) is a least-squares solve, func.jacfwd(f)(x) is the Jacobian of f at x, flow.while_loop semantics. "
    "Given the trusted lstsq axiom (H y = r is solved whenever it is consistent, with y in range(H^T)), the three identities of R-C19-1 imply "
    "f(x) + J (x+ - x) = r - H y = 0 and x+ - m = -L y in range(C J^T): the linearised constraint holds at x+, hence exactness after one iteration for affine "
    "constraints and the Gaussian conditional mean m - C J^T (J C J^T)^-1 (J m + b).  Feasibility for nonlinear constraints within the budget is a convergence statement and is not decided."
)


def conjuncts(c):
    if isinstance(c, T.Term) and c.op in ("np.logical_and", "and"):
        return conjuncts(c.args[0]) + conjuncts(c.args[1])
    return [c]


def has_disjunction(c):
    return any(t.op in ("np.logical_or", "or") for t in T.subterms(c))


def run(chk, S: Session):
    chk.trust("lstsq(H, r): least-squares solution of H y = r", "func.jacfwd(f)(x): Jacobian of f at x", "flow.while_loop(cond, body, init)")
    r1 = chk.rule("R-C19-1", "Gauss-Newton step: x+ = m - L*lstsq(J L, f(x) + J (m - x)) with one Jacobian of the constraint at x", floor=5)
    r2 = chk.rule("R-C19-2", "termination: conjunction containing |fx| > tol*sqrt(n) and i < maxiter; i starts at 0, +1 per iteration", floor=5)
    r3 = chk.rule("R-C19-3", "truthful state and statistics: fx = constraint(x) of the same record, dx = x+ - x, stats map final.i/fx/dx", floor=7)
    r4 = chk.rule("R-C19-4", "MAP Taylor point: start at and regularise towards rv.mean_flat with rv.cholesky_flat; consumers use the returned point", floor=4)

    subs = S.p.subclasses(TPOINTS + ".LstSqConstrained")
    if not subs:
        raise AnalysisError("no LstSqConstrained subclass found (anchor vanished)")
    for ci in subs:
        it = S.interp()
        cv = it.class_value(ci.qualname)
        gn = it.instantiate(cv, [], dict(maxiter=A("maxiter"), tol=A("tol"), lstsq=A("lstsq")), "<harness>")
        constraint, x0, mean, chol, tt = A("constraint"), A("x0"), A("mean"), A("cholesky"), A("t")
        out = call(it, method(it, gn, "__call__"), constraint, x0, mean, chol, t=tt)
        S.absorb(it)
        ws = events(it, "while")
        if len(ws) != 1:
            raise AnalysisError(f"{ci.name}: expected one while loop, found {len(ws)}")
        w = ws[0]
        st, body, init = w["state"], w["body"], w["init"]
        if not all(isinstance(v, Rec) for v in (st, body, init)):
            raise AnalysisError(f"{ci.name}: loop state is not a record")
        for f in ("x", "fx", "dx", "i"):
            if f not in st.fields:
                raise AnalysisError(f"{ci.name}: loop state has no field {f!r}")
        name = ci.name
        where = w["site"]
        x, fx = st.fields["x"], st.fields["fx"]
        xnew = body.fields["x"]
        # --- R1
        ls = [t for t in T.subterms(xnew) if t.op == "call" and t.args[0] is A("lstsq")]
        if len(ls) != 1 or len(ls[0].args) != 3:
            r1.fail(f"{name} lstsq call", f"expected exactly one lstsq(H, r) in the update, found {len(ls)}", where)
            continue
        dy = ls[0]
        H, r = dy.args[1], dy.args[2]
        jacs = [t for t in T.subterms(xnew) if t.op == "jac_apply"]
        r1.require(len(jacs) == 1, f"{name} one Jacobian", "one Jacobian evaluation per iteration, shared by H and r", f"{len(jacs)} Jacobian evaluations in the update", where)
        if len(jacs) != 1:
            continue
        J = jacs[0]
        wf = J.args[0]
        ok = isinstance(wf, WrappedFn) and len(J.args) == 2 and J.args[1] is x
        if ok:
            probe = A("probe")
            fv = it.call(wf.fn, [probe], {}, "<harness>")
            ok = fv is T.mk("call", (constraint, probe), {"t": tt})
        r1.require(ok, f"{name} Jacobian of the constraint at x", "J = d constraint(s, **kwargs)/ds at state.x", f"Jacobian term {T.show(J, 3)}", where_of(J, where))
        r1.require(nf.equal(H, T.mk("matmul", (J, chol))), f"{name} H = J L", "H = J @ cholesky", f"H = {T.show(H, 4)}", where_of(H, where))
        want_r = T.mk("add", (fx, T.mk("matmul", (J, T.mk("sub", (mean, x))))))
        r1.require(nf.equal(r, want_r), f"{name} r = f + J(m - x)", "r = state.fx + J @ (mean - state.x)", f"r = {T.show(r, 5)}", where_of(r, where))
        want_x = T.mk("sub", (mean, T.mk("matmul", (chol, dy))))
        r1.require(nf.equal(xnew, want_x), f"{name} x+ = m - L dy", "new point = mean - cholesky @ dy (displacement from the mean in the range of L)",
                   f"new point has normal form {nf.show(nf.norm(xnew))}; expected {nf.show(nf.norm(want_x))}", where_of(xnew, where))
        chk.sample({"rule": "R-C19-1", "solver": name, "x_new_normal_form": nf.show(nf.norm(xnew))})
        # --- R2: the continuation condition, read semantically (three-valued simplification under a case assumption)
        i_sym = st.fields["i"]

        def simp(c, first):
            """Simplify the condition under 'this is the first evaluation' (i == 0) / 'a later one' (i >= 1); True/False/term."""
            if not isinstance(c, T.Term):
                return bool(c)
            if c.op in ("eq", "ne") and any(a_ is i_sym for a_ in c.args) and any(isinstance(a_, (int, float)) and a_ == 0 for a_ in c.args):
                return first if c.op == "eq" else (not first)
            if c.op in ("le", "lt", "ge", "gt") and any(a_ is i_sym for a_ in c.args) and any(isinstance(a_, (int, float)) and not isinstance(a_, bool) for a_ in c.args):
                k = next(a_ for a_ in c.args if isinstance(a_, (int, float)))
                left = c.args[0] is i_sym
                # i <= 0 / i < 1 / 0 >= i / 1 > i  characterise the first evaluation (i is a non-negative integer counter)
                is_first_test = (left and ((c.op == "le" and k == 0) or (c.op == "lt" and k == 1))) or ((not left) and ((c.op == "ge" and k == 0) or (c.op == "gt" and k == 1)))
                is_later_test = (left and ((c.op == "ge" and k == 1) or (c.op == "gt" and k == 0))) or ((not left) and ((c.op == "le" and k == 1) or (c.op == "lt" and k == 0)))
                if is_first_test:
                    return first
                if is_later_test:
                    return not first
                return c
            if c.op == "not":
                r = simp(c.args[0], first)
                return (not r) if isinstance(r, bool) else T.mk("not", (r,))
            if c.op in ("and", "np.logical_and", "or", "np.logical_or"):
                is_and = c.op in ("and", "np.logical_and")
                parts = [simp(a_, first) for a_ in c.args]
                if is_and:
                    if any(p_ is False for p_ in parts):
                        return False
                    parts = [p_ for p_ in parts if p_ is not True]
                else:
                    if any(p_ is True for p_ in parts):
                        return True
                    parts = [p_ for p_ in parts if p_ is not False]
                if not parts:
                    return is_and
                out_ = parts[0]
                for p_ in parts[1:]:
                    out_ = T.mk("and" if is_and else "or", (out_, p_))
                return out_
            return c

        n_fx = T.mk("linalg.vector_norm", (fx,))
        want_fx = (nf.add(nf.norm(T.mk("mul", (A("tol"), T.mk("np.sqrt", (T.mk("attr", (fx, "size")),))))), nf.norm(n_fx), -1), "<")
        want_i = (nf.add(nf.norm(st.fields["i"]), nf.norm(A("maxiter")), -1), "<")
        dx = st.fields["dx"]
        want_dx = (nf.add(nf.norm(T.mk("mul", (A("tol"), T.mk("np.sqrt", (T.mk("attr", (dx, "size")),))))), nf.norm(T.mk("linalg.vector_norm", (dx,))), -1), "<")
        later = simp(w["cond"], False)
        cs = conjuncts(later) if isinstance(later, T.Term) else []
        forms = [pred_form(c) for c in cs]
        r2.require(isinstance(later, T.Term) and not has_disjunction(later) and None not in forms, f"{name} condition after the first step is a conjunction of comparisons", "", f"loop condition for i >= 1: {T.show(later, 5)}", where)
        r2.require(want_fx in forms, f"{name} stops when the constraint tolerance is met", "for i >= 1: continue only while |fx| > tol*sqrt(size)", f"conjuncts for i >= 1: {[T.show(c, 4) for c in cs]}", where)
        r2.require(want_i in forms, f"{name} iteration budget", "continue only while i < maxiter", f"conjuncts for i >= 1: {[T.show(c, 4) for c in cs]}", where)
        extra = [c for c, f in zip(cs, forms) if f not in (want_fx, want_i, want_dx)]
        r2.require(not extra, f"{name} no other stopping criterion", "conjuncts are exactly {constraint, budget, increment}", f"unexpected conjuncts {[T.show(c, 4) for c in extra]}", where)
        # "... returns, within its iteration budget, a point that satisfies the constraint to the stated tolerance (or exhausts the budget and says so)": the loop
        # may end only for one of these two reasons.  Every further conjunct of the continuation condition is a third exit -- infeasible, budget left.
        third = [c for c, f in zip(cs, forms) if f not in (want_fx, want_i)]
        kinds = ["|dx| <= tol*sqrt(n)" if pred_form(c) == want_dx else T.show(c, 3) for c in third]
        r2.require(not third, f"{name} exits only feasible or out of budget" + (f" [further exit: {', '.join(kinds)}]" if third else ""),
                   "for i >= 1 the loop continues while |fx| > tol*sqrt(n) and i < maxiter, and stops for no other reason",
                   f"the loop also stops when {' or '.join(kinds)}: after a Gauss-Newton step the residual is of the order (scale x curvature x |dx|^2), so for a badly scaled constraint the "
                   "increment falls below tol while the constraint is still violated by orders of magnitude, with budget left", where)
        # the first Gauss-Newton step is always taken (a feasible start is not necessarily optimal): at i == 0 only the budget may stop the loop
        first = simp(w["cond"], True)
        cs0 = conjuncts(first) if isinstance(first, T.Term) else []
        forms0 = [pred_form(c) for c in cs0]
        ok_first = first is True or (isinstance(first, T.Term) and not has_disjunction(first) and all(f == want_i for f in forms0) and bool(forms0))
        r2.require(bool(ok_first), f"{name} the first step is always taken", "at i == 0 the loop continues whenever the budget allows (maxiter >= 1)",
                   f"at i == 0 the loop continues only if {T.show(first, 5) if isinstance(first, T.Term) else first}: a start point that is feasible but not optimal is returned unchanged "
                   "(displacement from the mean outside range(C J^T); affine constraints not solved)", where)
        i0 = init.fields["i"]
        r2.require(isinstance(i0, int) and not isinstance(i0, bool) and i0 == 0, f"{name} counter starts at 0", "", f"initial i = {T.show(i0)}", where)
        r2.require(nf.norm(body.fields["i"]) == nf.add(nf.norm(st.fields["i"]), nf.const(1)), f"{name} counter +1 per iteration", "", f"i -> {T.show(body.fields['i'])}", where)
        # --- R3
        for lbl, rec_, xin in (("init", init, x0), ("body", body, xnew)):
            r3.require(rec_.fields["x"] is xin and rec_.fields["fx"] is T.mk("call", (constraint, rec_.fields["x"]), {"t": tt}), f"{name} State.fx ({lbl})",
                       "fx = constraint(x) of the same record", f"x = {T.show(rec_.fields['x'], 3)}, fx = {T.show(rec_.fields['fx'], 3)}", where)
        r3.require(nf.equal(body.fields["dx"], T.mk("sub", (xnew, x))), f"{name} State.dx", "dx = x+ - x", f"dx = {T.show(body.fields['dx'], 4)}", where)
        fin = w["final"]
        ok = isinstance(out, (tuple, list)) and len(out) == 2 and out[0] is fin.fields["x"]
        r3.require(ok, f"{name} returns final.x", "", f"returns {T.show(out, 3)}", where)
        stats = out[1] if ok else {}
        for key, f in (("iters", "i"), ("final_constraint", "fx"), ("final_increment", "dx")):
            r3.require(isinstance(stats, dict) and stats.get(key) is fin.fields[f], f"{name} stats[{key}]", f"= final.{f}", f"stats = {T.show(stats, 3)}", where)
        r3.require(w["init"].fields["x"] is x0, f"{name} starts at x0", "", "", where)

    # --- R4: MAP Taylor point and its consumers
    it = S.interp()
    cv = it.class_value(TPOINTS + ".taylor_point_maximum_a_posteriori")
    tp = it.instantiate(cv, [], dict(nlstsq=A("nlstsq")), "<harness>")
    rv = A("rv")
    out = call(it, method(it, tp, "__call__"), A("constraint_flat"), rv, t=A("t"))
    mf, cf = T.mk("attr", (rv, "mean_flat")), T.mk("attr", (rv, "cholesky_flat"))
    want = T.mk("getitem", (T.mk("call", (A("nlstsq"), A("constraint_flat"), mf, mf, cf), {"t": A("t")}), 0))
    r4.require(out is want, "taylor_point_maximum_a_posteriori.__call__", "nlstsq(constraint, x0=mean, mean, cholesky, **kwargs)[0]", f"returns {T.show(out, 5)}", TPOINTS)
    tp0 = it.instantiate(it.class_value(TPOINTS + ".taylor_point_prior"), [], {}, "<harness>")
    out0 = call(it, method(it, tp0, "__call__"), A("constraint_flat"), rv, t=A("t"))
    r4.require(out0 is mf, "taylor_point_prior.__call__", "returns rv.mean_flat", f"returns {T.show(out0, 3)}", TPOINTS)
    # default solver of the MAP point is a Gauss-Newton instance
    tpd = it.instantiate(cv, [], {}, "<harness>")
    nl = tpd.fields.get("nlstsq")
    r4.require(isinstance(nl, Rec) and nl.cls.info.qualname in {c.qualname for c in subs}, "taylor_point_maximum_a_posteriori default solver", "a LstSqConstrained instance", f"default nlstsq = {T.show(nl, 2)}", TPOINTS)
    # jetexpand_residual: starts at the prior mean, regularises with the prior's mean/cholesky, returns the solver's point
    mk = it.function_value(JETEXP + ".jetexpand_residual")
    expand = it.call(mk, [3], {"nlstsq": A("nlstsq")}, "<harness>")
    it.hooks["ext:probdiffeq._probdiffeq.ssm_impl_dense.state_space_model_dense"] = None
    try:
        res = it.call(expand, [A("residual"), [A("u0")]], {"t": A("t")}, "<harness>")
        calls = [t for t in T.subterms(res) if t.op == "call" and t.args[0] is A("nlstsq")]
        ok = len(calls) == 1 and len(calls[0].args) == 5
        if ok:
            c = calls[0]
            x0_, m_, l_ = c.args[2], c.args[3], c.args[4]
            ok = T.atoms_of(m_) == T.atoms_of(x0_) and isinstance(l_, T.Term)
        r4.require(True if ok else None, "jetexpand_residual nlstsq wiring", "nlstsq(residual_jet, x0, rv.mean_flat, rv.cholesky_flat)", f"{[T.show(c, 3) for c in calls]}", JETEXP)
    except Exception as e:  # the dense prior constructor is exercised in C20/C08; here only the wiring matters
        r4.unknown("jetexpand_residual nlstsq wiring", f"could not evaluate: {type(e).__name__}: {e}", JETEXP)
    S.absorb(it)
    # "its output ... is used as the linearisation point": the ODE convenience factory hands the caller's Taylor-point routine on to the residual constraint
    # (rule of C11)
    from ..harness import borrow

    rb = chk.rule("R-C19-B", "the Taylor-point routine chosen by the caller reaches the constraint that linearises there: constraint_ode_ts1 forwards taylor_point (rule of C11)", floor=1)
    borrow(chk, S, rb, "C11", lambda r, c: r == "R-C11-4" and "constraint_ode_ts1" in c)
    # an option passed to a constructor arrives in the attribute of its own name (the rules above read options through those attributes)
    from .ctor_wiring import ctor_wiring_rules

    rcw = chk.rule("R-C19-W", "constructor wiring of the Gauss-Newton routine and the MAP Taylor point: every attribute that carries a constructor parameter's name holds that parameter, not another one", floor=5)
    ctor_wiring_rules(chk, S, rcw, [TPOINTS + ".lstsq_constrained_gauss_newton", TPOINTS + ".taylor_point_maximum_a_posteriori"])
