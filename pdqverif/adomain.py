"""Domain A: axis-typed arrays = symbolic shape x units of measure.

An array type is a tuple of *axes* plus a scalar unit.  An axis is a sequence
of *segments* (direct sum); a segment has a symbolic size (a polynomial in
dimension symbols) and a *label*: a monomial over vector-unit symbols that says
how the coordinates along this axis scale (``Lout``, ``Lin^-1``, ``Ein`` ...).
The scalar unit is a monomial over scalar base units (``sb`` = prior base scale,
``sc`` = calibrated scale ...).  Entry (i, j, ...) of the array carries the unit
``scalar * label_0[i] * label_1[j] * ...``.

A program that type-checks is invariant under every positive rescaling of the
base units (Kennedy's parametricity for units of measure), which is exactly the
"for all scalings" quantifier of the properties; shapes are checked at the same
time with named dimensions, so a contraction over unlike axes or a transposed
layout is a type error even where a square test case would hide it.

Type errors carry both sides and the source location of the offending term.
Unknown constructs yield ``None`` (inconclusive), never an error.
"""

from __future__ import annotations

from fractions import Fraction

from . import nf
from . import terms as T
from .interp import Rec

ONE: tuple = ()


# ------------------------------------------------------------------ monomials
def mono(d=None, **kw) -> tuple:
    d = dict(d or {})
    d.update(kw)
    return tuple(sorted((k, Fraction(v)) for k, v in d.items() if v != 0))


def m_mul(a: tuple, b: tuple) -> tuple:
    d = dict(a)
    for k, v in b:
        d[k] = d.get(k, 0) + v
    return mono(d)


def m_pow(a: tuple, e) -> tuple:
    return mono({k: v * Fraction(e) for k, v in a})


def m_inv(a):
    return m_pow(a, -1)


def m_show(a) -> str:
    if not a:
        return "1"
    return "*".join(k if v == 1 else f"{k}^{v}" for k, v in a)


# ------------------------------------------------------------------ types
class Seg:
    __slots__ = ("size", "label", "poly", "comp")

    def __init__(self, size, label=ONE, poly=False, comp=None):
        self.size = size  # nf polynomial
        self.label = label
        self.poly = poly  # a block of literal zeros: unit-polymorphic
        self.comp = comp  # ordered composite axis: names of the factors, major -> minor (e.g. ('n', 'd'))

    def __repr__(self):
        c = f"<{'.'.join(self.comp)}>" if self.comp else ""
        return f"{nf.show(self.size)}{c}:{'*' if self.poly else m_show(self.label)}"


class Axis:
    __slots__ = ("segs",)

    def __init__(self, segs):
        self.segs = tuple(segs)

    @property
    def size(self):
        r = {}
        for s in self.segs:
            r = nf.add(r, s.size)
        return r

    @property
    def uniform(self):
        labs = {s.label for s in self.segs if not s.poly}
        return len(labs) <= 1

    @property
    def label(self):
        for s in self.segs:
            if not s.poly:
                return s.label
        return self.segs[0].label

    def relabel(self, f):
        return Axis(Seg(s.size, f(s.label), s.poly, s.comp) for s in self.segs)

    @property
    def comp(self):
        return self.segs[0].comp if len(self.segs) == 1 else None

    def __repr__(self):
        return "(" + " + ".join(map(repr, self.segs)) + ")"


def axis(size, label=ONE):
    return Axis([Seg(size, label)])


class AT:
    """Array type."""

    __slots__ = ("axes", "scalar", "zero", "unitless_ok")

    def __init__(self, axes, scalar=ONE, zero=False):
        self.axes = tuple(axes)
        self.scalar = scalar
        self.zero = zero  # literal zeros are unit-polymorphic

    @property
    def rank(self):
        return len(self.axes)

    def __repr__(self):
        z = "0:" if self.zero else ""
        return f"{z}[{', '.join(map(repr, self.axes))}]*{m_show(self.scalar)}"


def dim(name):
    return nf.var(T.atom(name))


def same_size(a, b):
    return a == b


def is_one(p):
    return p == nf.const(1)


class AErr:
    def __init__(self, what, term, detail):
        self.what, self.term, self.detail = what, term, detail

    def __repr__(self):
        return f"{self.what}: {self.detail} at {getattr(self.term, 'origin', None)}"


QR_CALLS: list = []  # (site, rows >= cols proven?, description) for every typed qr_r application in this process


class AEnv:
    def __init__(self):
        self.types: dict = {}
        self.cache: dict = {}
        self.errors: list = []
        self.unknown: list = []
        self.sizes: dict = {}  # uid of a static dim term -> polynomial

    def declare(self, term, ty: AT):
        self.types[term.uid] = ty
        return term

    def err(self, what, term, detail):
        self.errors.append(AErr(what, term, detail))

    # ---------------------------------------------------------------- dims
    def dim_of(self, v):
        """Polynomial size of a static dimension expression."""
        if isinstance(v, bool):
            return None
        if isinstance(v, int):
            return nf.const(v)
        if isinstance(v, dict):
            return v
        if not isinstance(v, T.Term):
            return None
        if v.op == "getitem" and isinstance(v.args[0], T.Term) and v.args[0].op == "attr" and v.args[0].args[1] == "shape" and isinstance(v.args[1], int):
            t = self.of(v.args[0].args[0])
            if t is None:
                return None
            i = v.args[1]
            if -t.rank <= i < t.rank:
                return t.axes[i].size
            return None
        if v.op in ("add", "sub", "mul"):
            a, b = self.dim_of(v.args[0]), self.dim_of(v.args[1])
            if a is None or b is None:
                return None
            return nf.add(a, b) if v.op == "add" else (nf.add(a, b, -1) if v.op == "sub" else nf.mul(a, b))
        if v.op == "attr" and v.args[1] == "size":
            t = self.of(v.args[0])
            if t is None:
                return None
            r = nf.const(1)
            for ax in t.axes:
                r = nf.mul(r, ax.size)
            return r
        if v.op == "floordiv":
            a, b = self.dim_of(v.args[0]), self.dim_of(v.args[1])
            if a is None or b is None:
                return None
            q = nf.mul(a, nf.power(b, -1))
            return q
        if v.op == "len":
            t = self.of(v.args[0])
            return t.axes[0].size if t is not None and t.rank else None
        if v.op == "atom":
            return nf.var(v)
        return None

    def rank_of(self, v):
        t = self.of(v)
        return None if t is None else t.rank

    # ---------------------------------------------------------------- types
    def of(self, v):
        if isinstance(v, (int, float)) and not isinstance(v, bool):
            return AT((), ONE, zero=(v == 0))
        if not isinstance(v, T.Term):
            return None
        if v.uid in self.types:
            return self.types[v.uid]
        if v.uid in self.cache:
            return self.cache[v.uid]
        self.cache[v.uid] = None
        try:
            t = self._of(v)
        except _Unknown as u:
            # static dimension expressions (x.size, x.shape[i], products) are unit-free scalars
            t = AT((), ONE) if self.dim_of(v) is not None else None
            if t is None:
                self.unknown.append((v, str(u)))
        self.cache[v.uid] = t
        return t

    def need(self, v):
        t = self.of(v)
        if t is None:
            raise _Unknown(f"untyped operand {T.show(v, 2)}")
        return t

    def _of(self, v: T.Term):
        op, a = v.op, v.args
        if op in ("mul", "div"):
            x, y = self.need(a[0]), self.need(a[1])
            if op == "div":
                y = AT([ax.relabel(m_inv) for ax in y.axes], m_inv(y.scalar), zero=False)
            return self._broadcast(v, x, y, "mul")
        if op in ("add", "sub"):
            x, y = self.need(a[0]), self.need(a[1])
            return self._broadcast(v, x, y, "add")
        if op in ("neg", "np.abs", "np.asarray", "func.stop_gradient"):
            return self.need(a[0])
        if op == "np.sign":
            t = self.need(a[0])  # signs are pure numbers of the operand's shape
            return AT([ax.relabel(lambda _l: ONE) for ax in t.axes], ONE, False)
        if op == "matmul":
            return self._matmul(v, self.need(a[0]), self.need(a[1]))
        if op == "attr":
            if a[1] == "T":
                t = self.need(a[0])
                return AT(tuple(reversed(t.axes)), t.scalar, t.zero)
            raise _Unknown(f"attribute {a[1]}")
        if op == "np.transpose":
            t = self.need(a[0])
            axes = v.kwargs.get("axes", a[1] if len(a) > 1 else None)
            if axes is None:
                return AT(tuple(reversed(t.axes)), t.scalar, t.zero)
            return AT(tuple(t.axes[i] for i in axes), t.scalar, t.zero)
        if op == "getitem":
            return self._getitem(v, self.need(a[0]), a[1])
        if op in ("np.zeros", "np.ones", "np.zeros_like", "np.ones_like"):
            if op.endswith("_like"):
                t = self.need(a[0])
                axes = [Axis(Seg(s.size, ONE) for s in ax.segs) for ax in t.axes]
            elif isinstance(a[0], T.Term) and a[0].op == "attr" and a[0].args[1] == "shape":
                t = self.need(a[0].args[0])
                axes = [Axis(Seg(s.size, ONE) for s in ax.segs) for ax in t.axes]
            else:
                shp = a[0] if isinstance(a[0], (tuple, list)) else (a[0],)
                sizes = [self.dim_of(s) for s in shp]
                if any(s is None for s in sizes):
                    raise _Unknown("shape of zeros/ones")
                axes = [axis(s) for s in sizes]
            return AT(axes, ONE, zero=op.startswith("np.zeros"))
        if False:
            pass
        if op == "np.eye":
            n = self.dim_of(a[0])
            m = self.dim_of(a[1]) if len(a) > 1 and a[1] is not None else n
            if n is None or m is None:
                raise _Unknown("shape of eye")
            return AT([axis(n), axis(m)], ONE)
        if op == "np.concatenate":
            parts = a[0]
            k = v.kwargs.get("axis", a[1] if len(a) > 1 else 0)
            return self._concat(v, [self.need(p) for p in parts], k)
        if op == "np.block":
            rows = a[0]
            rts = []
            for row in rows:
                rts.append(self._concat(v, [self.need(p) for p in row], 1))
            return self._concat(v, rts, 0)
        if op == "np.stack":
            parts = [self.need(p) for p in a[0]]
            first = parts[0]
            for p in parts[1:]:
                self._unify_add(v, first, p)
            return AT((axis(nf.const(len(parts))), *first.axes), first.scalar)
        if op == "linalg.qr_r":
            t = self.need(a[0])
            if t.rank != 2:
                raise _Unknown("qr_r of non-matrix")
            rows, cols = t.axes
            if not rows.uniform or rows.label != ONE:
                self.err("qr_r mixes rows with different units", v, f"row axis {rows} must be unit-uniform (white-noise axis)")
            # shape census (used by C16): the stacked matrix has at least as many rows as columns iff one row segment alone has the column count
            tall = same_size(rows.size, cols.size) or any(same_size(sg.size, cols.size) for sg in rows.segs) or is_one(cols.size)
            QR_CALLS.append((getattr(v, "origin", None), bool(tall), f"rows {rows} x cols {cols}"))
            return AT([axis(cols.size), cols], t.scalar)
        if op in ("linalg.solve_triu", "linalg.solve_tril"):
            return self._solve(v, self.need(a[0]), self.need(a[1]), v.kwargs.get("trans", 0))
        if op == "call" and isinstance(a[0], T.Term) and a[0].meta.get("role") in ("solve_triu", "lstsq"):
            return self._solve(v, self.need(a[1]), self.need(a[2]), 0)
        if op == "linalg.lstsq_svd":
            return self._solve(v, self.need(a[0]), self.need(a[1]), 0)
        if op == "linalg.vector_norm":
            t = self.need(a[0])
            for ax in t.axes:
                if not ax.uniform or ax.label != ONE:
                    self.err("norm over coordinates with different units", v, f"axis {ax}")
            return AT((), t.scalar)
        if op == "linalg.vector_dot":
            x, y = self.need(a[0]), self.need(a[1])
            if x.rank == 1 and y.rank == 1:
                if m_mul(x.axes[0].label, y.axes[0].label) != ONE and not (x.zero or y.zero):
                    self.err("dot product of vectors whose units do not cancel", v, f"{x.axes[0]} . {y.axes[0]}")
                return AT((), m_mul(x.scalar, y.scalar))
            return self._matmul(v, x, y)
        if op == "np.sqrt":
            t = self.need(a[0])
            return AT([ax.relabel(lambda l: m_pow(l, Fraction(1, 2))) for ax in t.axes], m_pow(t.scalar, Fraction(1, 2)), t.zero)
        if (op == "np.sum" and v.kwargs.get("axis") is not None) or (op == "mcall" and len(a) >= 2 and a[1] == "sum" and (v.kwargs.get("axis") is not None or len(a) > 2)):
            # a sum over named axes: the remaining axes keep their types
            t = self.need(a[0])
            k = v.kwargs.get("axis", a[2] if (op == "mcall" and len(a) > 2) else None)
            kk_ = k if isinstance(k, (tuple, list)) else (k,)
            if not all(isinstance(q, int) and not isinstance(q, bool) for q in kk_):
                raise _Unknown("sum over a non-static axis")
            ks = {q % t.rank for q in kk_}
            if len(ks) != len(kk_):
                raise _Unknown("sum over a repeated axis")
            src = a[0]
            if isinstance(src, T.Term) and src.op == "jac_apply" and len(ks) >= 2:
                red = [t.axes[i] for i in sorted(ks)]
                if any(same_size(x_.size, y_.size) for i_, x_ in enumerate(red) for y_ in red[i_ + 1:]):
                    # d f_i^k / d x_j^l summed over k AND l adds every cross block (k != l); the sum 'over dimensions' pairs them (a trace)
                    self.err("two axes of a Jacobian of equal size are summed independently (a trace pairs them)", v, f"axes {sorted(ks)} of {t}")
            return AT([ax for i, ax in enumerate(t.axes) if i not in ks], t.scalar)
        if op == "np.sum":
            t = self.need(a[0])
            for ax in t.axes:
                if not ax.uniform or ax.label != ONE:
                    self.err("sum over coordinates with different units", v, f"axis {ax}")
            return AT((), t.scalar)
        if op == "np.mean":
            t = self.need(a[0])
            k = v.kwargs.get("axis")
            if k is None:
                return AT((), t.scalar)
            ks = {kk % t.rank for kk in (k if isinstance(k, (tuple, list)) else (k,)) if isinstance(kk, int) and not isinstance(kk, bool)}
            if not ks or len(ks) != len(k if isinstance(k, (tuple, list)) else (k,)):
                raise _Unknown("mean over a non-static axis")
            return AT([ax for i, ax in enumerate(t.axes) if i not in ks], t.scalar)
        if op == "linalg.diagonal_matrix":
            t = self.need(a[0])
            if t.rank != 1:
                raise _Unknown("diagonal_matrix of non-vector")
            k = v.kwargs.get("k", a[1] if len(a) > 1 else 0)
            if k != 0:
                if not isinstance(k, int):
                    raise _Unknown("diagonal offset")
                sz = nf.add(t.axes[0].size, nf.const(abs(k)))
                return AT([axis(sz), axis(sz)], t.scalar, t.zero)
            return AT([t.axes[0], Axis(Seg(s.size, ONE) for s in t.axes[0].segs)], t.scalar, t.zero)
        if op in ("np.einsum", "linalg.einsum"):
            return self._einsum(v, a[0], [self.need(x) for x in a[1:]])
        if op == "np.reshape":
            return self._reshape(v, self.need(a[0]), a[1])
        if op in ("ite", "np.where"):
            x, y = self.of(a[1]), self.of(a[2])
            if x is None or y is None:
                raise _Unknown("branch type")
            self._unify_add(v, x, y)
            return x
        if op == "random.normal":
            shp = v.kwargs.get("shape", a[1] if len(a) > 1 else None)
            if isinstance(shp, T.Term) and shp.op == "attr" and shp.args[1] == "shape":
                t = self.need(shp.args[0])
                return AT([Axis(Seg(s.size, ONE) for s in ax.segs) for ax in t.axes], ONE)
            if isinstance(shp, (tuple, list)):
                sizes = [self.dim_of(s) for s in shp]
                if all(s is not None for s in sizes):
                    return AT([axis(s) for s in sizes], ONE)
            raise _Unknown("shape of normal draw")
        if op == "random.rademacher":
            shp = v.kwargs.get("shape", a[1] if len(a) > 1 else None)
            if isinstance(shp, (tuple, list)):
                sizes = [self.dim_of(s) for s in shp]
                if all(s is not None for s in sizes):
                    return AT([axis(s) for s in sizes], ONE)
            raise _Unknown("shape of rademacher draw")
        if op == "shape_struct":
            return self.need(a[0])
        if op == "linalg.trace":
            t = self.need(a[0])
            i, j = v.kwargs.get("axis1", 0) % t.rank, v.kwargs.get("axis2", 1) % t.rank
            if not t.zero:
                self._contract(v, t.axes[i], t.axes[j])
            return AT([ax for k_, ax in enumerate(t.axes) if k_ not in (i, j)], t.scalar, t.zero)
        if op == "np.repeat":
            t = self.need(a[0])
            k = self.dim_of(a[1])
            if t.rank != 1 or k is None:
                raise _Unknown("repeat")
            # np.repeat(p, d): every entry repeated d times in place -> composite axis (n major, d minor)
            return AT([Axis([Seg(nf.mul(t.axes[0].size, k), t.axes[0].label, comp=(nf.show(t.axes[0].size), nf.show(k)))])], t.scalar)
        if op == "np.tile":
            t = self.need(a[0])
            k = self.dim_of(a[1])
            if t.rank != 1 or k is None:
                raise _Unknown("tile")
            # np.tile(p, d): the whole vector repeated d times -> composite axis (d major, n minor)
            return AT([Axis([Seg(nf.mul(t.axes[0].size, k), t.axes[0].label, comp=(nf.show(k), nf.show(t.axes[0].size)))])], t.scalar)
        if op == "np.kron":
            x, y = self.need(a[0]), self.need(a[1])
            if x.rank != y.rank:
                raise _Unknown("kron of different ranks")
            axes = []
            for p_, q_ in zip(x.axes, y.axes):
                axes.append(Axis([Seg(nf.mul(p_.size, q_.size), m_mul(p_.label, q_.label), comp=(nf.show(p_.size), nf.show(q_.size)))]))
            return AT(axes, m_mul(x.scalar, y.scalar), x.zero or y.zero)
        if op == "at_set":
            return self.need(a[0])
        if op == "tree.ravel" and isinstance(a[0], (list, tuple)) and a[0]:
            parts = [self.need(T.mk("tree.ravel", (c,))) if not isinstance(c, T.Term) or c.op != "tree.ravel" else self.need(c) for c in a[0]]
            first = parts[0]
            if first.rank != 1:
                raise _Unknown("ravel of non-vector leaves")
            return AT([Axis([Seg(nf.mul(nf.const(len(parts)), first.axes[0].size), first.axes[0].label, comp=(str(len(parts)), nf.show(first.axes[0].size)))])], first.scalar)
        raise _Unknown(f"primitive {op}")

    # ------------------------------------------------------------ helpers
    def _unify_add(self, v, x: AT, y: AT):
        if x.zero or y.zero:
            return
        if x.scalar != y.scalar:
            self.err("addition of quantities with different scalar units", v, f"{m_show(x.scalar)} vs {m_show(y.scalar)}")

    def _broadcast(self, v, x: AT, y: AT, kind):
        r = max(x.rank, y.rank)
        xa = (None,) * (r - x.rank) + x.axes
        ya = (None,) * (r - y.rank) + y.axes
        out = []
        for i, (p, q) in enumerate(zip(xa, ya)):
            if p is None or (is_one(p.size) and q is not None and not is_one(q.size)):
                if kind == "mul" and p is not None and p.label != ONE:
                    out.append(q.relabel(lambda l, pl=p.label: m_mul(l, pl)))
                else:
                    out.append(q)
                continue
            if q is None or (is_one(q.size) and not is_one(p.size)):
                if kind == "mul" and q is not None and q.label != ONE:
                    out.append(p.relabel(lambda l, ql=q.label: m_mul(l, ql)))
                else:
                    out.append(p)
                continue
            if not same_size(p.size, q.size):
                self.err("shape mismatch in elementwise operation", v, f"axis {i}: {nf.show(p.size)} vs {nf.show(q.size)}")
                out.append(p)
                continue
            if kind == "mul":
                if len(p.segs) == len(q.segs):
                    out.append(Axis(Seg(s.size, m_mul(s.label, t_.label)) for s, t_ in zip(p.segs, q.segs)))
                elif len(q.segs) == 1:
                    out.append(p.relabel(lambda l, ql=q.label: m_mul(l, ql)))
                elif len(p.segs) == 1:
                    out.append(q.relabel(lambda l, pl=p.label: m_mul(l, pl)))
                else:
                    raise _Unknown("segment mismatch")
            else:
                if not (x.zero or y.zero):
                    lp = [s.label for s in p.segs] if len(p.segs) >= len(q.segs) else [p.label] * len(q.segs)
                    lq = [s.label for s in q.segs] if len(q.segs) >= len(p.segs) else [q.label] * len(p.segs)
                    if lp != lq:
                        self.err("addition of quantities whose coordinates scale differently", v, f"axis {i}: {p} vs {q}")
                out.append(q if x.zero and not y.zero else p)
        if kind == "mul":
            return AT(out, m_mul(x.scalar, y.scalar), x.zero or y.zero)
        self._unify_add(v, x, y)
        return AT(out, y.scalar if x.zero and not y.zero else x.scalar, x.zero and y.zero)

    def _contract(self, v, p: Axis, q: Axis):
        if not same_size(p.size, q.size):
            self.err("contraction over axes of different size", v, f"{nf.show(p.size)} vs {nf.show(q.size)}")
            return
        if len(p.segs) == len(q.segs):
            pairs = zip(p.segs, q.segs)
        elif len(q.segs) == 1:
            pairs = ((s, q.segs[0]) for s in p.segs)
        elif len(p.segs) == 1:
            pairs = ((p.segs[0], s) for s in q.segs)
        else:
            raise _Unknown("segment mismatch in contraction")
        rem = None
        for s, t_ in pairs:
            m = m_mul(s.label, t_.label)
            if m != ONE:
                self.err("contraction over an axis whose units do not cancel", v, f"{s} against {t_} leaves {m_show(m)}")
                return

    def _matmul(self, v, x: AT, y: AT):
        if x.rank < 1 or y.rank < 1:
            raise _Unknown("matmul of scalars")
        z = x.zero or y.zero
        if y.rank == 1:
            if not z:
                self._contract(v, x.axes[-1], y.axes[0])
            return AT(x.axes[:-1], m_mul(x.scalar, y.scalar), z)
        if x.rank == 1:
            if not z:
                self._contract(v, x.axes[0], y.axes[-2])
            return AT((*y.axes[:-2], y.axes[-1]), m_mul(x.scalar, y.scalar), z)
        if not z:
            self._contract(v, x.axes[-1], y.axes[-2])
        bx, by = x.axes[:-2], y.axes[:-2]
        batch = bx if len(bx) >= len(by) else by
        for p, q in zip(reversed(bx), reversed(by)):
            if not same_size(p.size, q.size) and not is_one(p.size) and not is_one(q.size):
                self.err("batch shape mismatch in matmul", v, f"{nf.show(p.size)} vs {nf.show(q.size)}")
        return AT((*batch, x.axes[-2], y.axes[-1]), m_mul(x.scalar, y.scalar), z)

    def _solve(self, v, r: AT, b: AT, trans):
        if r.rank != 2:
            raise _Unknown("solve with non-matrix")
        rows, cols = r.axes
        if trans in (1, "T"):
            rows, cols = cols, rows
        if not (rows.uniform and cols.uniform):
            raise _Unknown("segmented triangular solve")
        brow = b.axes[0]
        if not b.zero:
            if not same_size(brow.size, rows.size):
                self.err("triangular solve: right-hand side has the wrong number of rows", v, f"{nf.show(brow.size)} vs {nf.show(rows.size)}")
            elif not brow.uniform or brow.label != rows.label:
                self.err("triangular solve: right-hand side rows do not carry the matrix's row units", v, f"rhs rows {brow} vs matrix rows {rows}")
        out_row = Axis([Seg(cols.size, m_inv(cols.label))])
        return AT((out_row, *b.axes[1:]), m_mul(b.scalar, m_inv(r.scalar)), b.zero)

    def _concat(self, v, parts, k):
        first = parts[0]
        k = k % first.rank
        segs = []
        off = [list(ax.segs) if not first.zero else [Seg(s.size, s.label, True) for s in ax.segs] for ax in first.axes]
        scalar, have_scalar = first.scalar, not first.zero
        for p in parts:
            if p.rank != first.rank:
                self.err("concatenation of arrays of different rank", v, f"{p.rank} vs {first.rank}")
                continue
            for i, bx in enumerate(p.axes):
                if i == k:
                    continue
                cur = off[i]
                if not same_size(_sum(cur), bx.size):
                    self.err("concatenation: off-axis shape mismatch", v, f"axis {i}: {nf.show(_sum(cur))} vs {nf.show(bx.size)}")
                    continue
                bs = [Seg(s_.size, s_.label, s_.poly or p.zero) for s_ in bx.segs]
                if len(bs) == 1 and len(cur) > 1:
                    bs = [Seg(c.size, bs[0].label, bs[0].poly) for c in cur]
                if len(cur) == 1 and len(bs) > 1:
                    cur = [Seg(b_.size, cur[0].label, cur[0].poly) for b_ in bs]
                if len(cur) != len(bs):
                    raise _Unknown("segment structure mismatch in concatenation")
                merged = []
                for c, b_ in zip(cur, bs):
                    if c.poly:
                        merged.append(b_)
                    elif b_.poly:
                        merged.append(c)
                    else:
                        if c.label != b_.label:
                            self.err("concatenation of blocks whose coordinates scale differently", v, f"axis {i}: {c} vs {b_}")
                        merged.append(c)
                off[i] = merged
            if not p.zero:
                if have_scalar and p.scalar != scalar:
                    self.err("concatenation of blocks with different scalar units", v, f"{m_show(scalar)} vs {m_show(p.scalar)}")
                if not have_scalar:
                    scalar, have_scalar = p.scalar, True
            segs.extend(Seg(s_.size, s_.label, s_.poly or p.zero) for s_ in p.axes[k].segs)
        axes = [Axis(o) for o in off]
        axes[k] = Axis(segs)
        return AT(axes, scalar, all(p.zero for p in parts))

    def _getitem(self, v, t: AT, idx):
        items = idx if isinstance(idx, tuple) else (idx,)
        n_real = sum(1 for i in items if i is not None and i is not Ellipsis)
        out, src = [], 0
        for i in items:
            if i is None:
                out.append(axis(nf.const(1)))
            elif i is Ellipsis:
                k = t.rank - n_real
                out.extend(t.axes[src : src + k])
                src += k
            elif isinstance(i, int) or (isinstance(i, T.Term) and self.of(i) is not None and self.of(i).rank == 0):
                if src >= t.rank:
                    self.err("too many indices", v, f"rank {t.rank}")
                    return t
                src += 1
            elif isinstance(i, slice):
                ax = t.axes[src]
                src += 1
                if i.start is None and i.stop is None:
                    out.append(ax)
                    continue
                lo = nf.const(0) if i.start is None else self.dim_of(i.start)
                hi = ax.size if i.stop is None else self.dim_of(i.stop)
                if lo is None or hi is None:
                    raise _Unknown("slice bounds")
                if isinstance(i.stop, int) and i.stop < 0:
                    hi = nf.add(ax.size, nf.const(i.stop))
                # select whole segments when the bounds sit on segment boundaries
                pos = nf.const(0)
                sel, started, done = [], False, False
                for s in ax.segs:
                    if pos == lo:
                        started = True
                    if pos == hi:
                        done = True
                    if started and not done:
                        sel.append(s)
                    pos = nf.add(pos, s.size)
                if pos == hi:
                    done = True
                if started and done and sel and nf.add(_sum(sel), nf.add(hi, lo, -1), -1) == {}:
                    out.append(Axis(sel))
                elif ax.uniform:
                    out.append(axis(nf.add(hi, lo, -1), ax.label))
                else:
                    self.err("slice cuts through a block whose coordinates scale differently", v, f"axis {ax}, bounds {nf.show(lo)}:{nf.show(hi)}")
                    out.append(axis(nf.add(hi, lo, -1), ax.label))
            elif isinstance(i, T.Term):
                # index array (gather): keeps the label only on uniform axes
                ax = t.axes[src]
                src += 1
                it_ = self.of(i)
                if it_ is None:
                    raise _Unknown("index array")
                out.append(axis(it_.axes[0].size if it_.rank else nf.const(1), ax.label if ax.uniform else ONE))
            else:
                raise _Unknown(f"index {i!r}")
        out.extend(t.axes[src:])
        return AT(out, t.scalar, t.zero)

    def _einsum(self, v, spec, ops):
        if not isinstance(spec, str) or "->" not in spec:
            raise _Unknown("einsum spec")
        lhs, rhs = spec.replace(" ", "").split("->")
        ins = lhs.split(",")
        if len(ins) != len(ops):
            raise _Unknown("einsum arity")
        letter: dict = {}
        ell = None
        scalar = ONE
        zero = False
        for s, t in zip(ins, ops):
            scalar = m_mul(scalar, t.scalar)
            zero = zero or t.zero
            axes = list(t.axes)
            if s.startswith("..."):
                k = t.rank - (len(s) - 3)
                ell = axes[:k] if ell is None or len(axes[:k]) > len(ell) else ell
                axes = axes[k:]
                s = s[3:]
            if len(s) != len(axes):
                self.err("einsum operand rank does not match its subscripts", v, f"{s} vs rank {len(axes)}")
                return None
            for ch, ax in zip(s, axes):
                if ch in letter:
                    prev = letter[ch]
                    if not same_size(prev.size, ax.size):
                        self.err("einsum: index used for axes of different size", v, f"'{ch}': {nf.show(prev.size)} vs {nf.show(ax.size)}")
                    if not (len(prev.segs) == 1 and len(ax.segs) == 1):
                        raise _Unknown("segmented einsum")
                    letter[ch] = Axis([Seg(prev.size, m_mul(prev.label, ax.label))])
                else:
                    letter[ch] = ax
        out = []
        r = rhs
        if r.startswith("..."):
            out.extend(ell or [])
            r = r[3:]
        for ch in r:
            if ch not in letter:
                self.err("einsum output index not among the inputs", v, ch)
                return None
            out.append(letter[ch])
        occurrences = "".join(x[3:] if x.startswith("...") else x for x in ins)
        for ch in letter:
            if ch not in r and occurrences.count(ch) == 1 and not is_one(letter[ch].size):
                self.err("einsum sums an axis on its own (it is neither paired with another operand's axis nor kept)", v, f"index '{ch}' in {spec!r}")
        for ch, ax in letter.items():
            if ch not in r and not zero:
                if not ax.uniform or ax.label != ONE:
                    self.err("einsum contracts an axis whose units do not cancel", v, f"'{ch}': {ax}")
        return AT(out, scalar, zero)

    def _reshape(self, v, t: AT, shape):
        if isinstance(shape, T.Term) and shape.op == "attr" and shape.args[1] == "shape":
            # x.reshape(y.shape): the target sizes are those of y's axes
            shape = tuple(ax.size for ax in self.need(shape.args[0]).axes)
        shp = shape if isinstance(shape, (tuple, list)) else (shape,)
        total = nf.const(1)
        for ax in t.axes:
            total = nf.mul(total, ax.size)
        if len(shp) == 1 and shp[0] == -1:
            # row-major flatten: composite axis, first axis major.  Units survive only if at most one axis is labelled.
            labelled = [ax for ax in t.axes if not (ax.uniform and ax.label == ONE)]
            if len(labelled) > 1 or any(not ax.uniform for ax in t.axes):
                raise _Unknown("flatten of a multiply-labelled array")
            lab = labelled[0].label if labelled else ONE
            comp = tuple(nf.show(ax.size) for ax in t.axes) if t.rank > 1 else (t.axes[0].comp if t.rank == 1 else None)
            return AT([Axis([Seg(total, lab, comp=comp)])], t.scalar, t.zero)
        sizes = []
        for s in shp:
            sizes.append(None if s == -1 else self.dim_of(s))
        if sizes.count(None) > 1:
            raise _Unknown("reshape")
        known = nf.const(1)
        for s in sizes:
            if s is not None:
                known = nf.mul(known, s)
        if None in sizes:
            sizes[sizes.index(None)] = nf.mul(total, nf.power(known, -1))
        if all(ax.uniform and ax.label == ONE for ax in t.axes):
            # group consecutive source axes into each target axis (row-major) to remember the factor order
            out_axes, i = [], 0
            ok = True
            for s_ in sizes:
                prod, names = nf.const(1), []
                while i < t.rank and prod != s_:
                    prod = nf.mul(prod, t.axes[i].size)
                    names.append(nf.show(t.axes[i].size))
                    i += 1
                if prod != s_:
                    ok = False
                    break
                out_axes.append(Axis([Seg(s_, ONE, comp=tuple(names) if len(names) > 1 else None)]))
            if ok and i == t.rank:
                return AT(out_axes, t.scalar, t.zero)
            # The target does not group consecutive source axes.  If it has the SAME factors in another order, the reshape re-reads the row-major buffer
            # under permuted axis names: the shape is the one of a transpose, the entries are scrambled.
            src = [nf.show(ax.size) for ax in t.axes if not is_one(ax.size)]
            dst = [nf.show(s_) for s_ in sizes if not is_one(s_)]
            if len(src) > 1 and sorted(src) == sorted(dst) and src != dst:
                self.err("reshape permutes axes", v, f"an array with axes ({', '.join(src)}) is reshaped to ({', '.join(dst)}): same factors in another order -- reshape re-reads the "
                         "row-major buffer and scrambles the entries; a transpose moves axes")
            return AT([axis(s) for s in sizes], t.scalar, t.zero)
        # reshape that only inserts / removes size-1 axes keeps labels
        big_old = [ax for ax in t.axes if not is_one(ax.size)]
        big_new = [s for s in sizes if not is_one(s)]
        if len(big_old) == len(big_new) and all(same_size(a.size, b) for a, b in zip(big_old, big_new)):
            it_ = iter(big_old)
            return AT([axis(s) if is_one(s) else next(it_) for s in sizes], t.scalar, t.zero)
        raise _Unknown("reshape of a labelled array")


def _sum(segs):
    r = {}
    for s in segs:
        r = nf.add(r, s.size)
    return r


class _Unknown(Exception):
    pass


def show(t):
    return "?" if t is None else repr(t)


def same_type(a: AT, b: AT, check_sizes=True) -> bool:
    if a is None or b is None or a.rank != b.rank:
        return False
    if a.zero or b.zero:
        return all(same_size(p.size, q.size) for p, q in zip(a.axes, b.axes)) if check_sizes else True
    if a.scalar != b.scalar:
        return False
    for p, q in zip(a.axes, b.axes):
        if check_sizes and not same_size(p.size, q.size):
            return False
        lp = [s.label for s in p.segs]
        lq = [s.label for s in q.segs]
        if len(set(lp)) == 1 and len(set(lq)) == 1:
            if lp[0] != lq[0]:
                return False
        elif lp != lq:
            return False
    return True


# ------------------------------------------------------------------ vmap support
def install_vmap(it, env: AEnv):
    """Give ``func.vmap(f)(args)`` a typed semantics: analyse f on one element, batch the result types."""
    from .interp import _MISSING, Rec as _Rec, map_leaves, tree_children

    counter = [0]

    def strip(val, spec, eid, path=""):
        """Element value of one vmapped argument; returns (element value, batch axis or None)."""
        batch = [None]

        def go(v, sp, pth):
            if sp is None:
                return v
            if isinstance(v, T.Term):
                t = env.of(v)
                if t is None or t.rank == 0:
                    return T.mk("vmap_elem", (eid, v))
                k = sp % t.rank
                if batch[0] is None:
                    batch[0] = t.axes[k]
                e = T.mk("vmap_elem", (eid, v))
                env.declare(e, AT([ax for i, ax in enumerate(t.axes) if i != k], t.scalar, t.zero))
                return e
            ch = tree_children(v)
            if ch is None or v is None:
                return v
            keys, kids, rebuild = ch
            if isinstance(sp, _Rec):
                sps = [sp.fields.get(k_) for k_ in keys]
            elif isinstance(sp, (tuple, list)) and len(sp) == len(kids):
                sps = list(sp)
            else:
                sps = [sp] * len(kids)
            return rebuild([go(k_, s_, f"{pth}.{key}") for key, k_, s_ in zip(keys, kids, sps)])

        return go(val, spec, path), batch[0]

    def hook(itp, w, args, kwargs, site):
        counter[0] += 1
        eid = counter[0]
        in_axes = w.kwargs.get("in_axes", 0)
        out_axes = w.kwargs.get("out_axes", 0)
        specs = list(in_axes) if isinstance(in_axes, (tuple, list)) else [in_axes] * len(args)
        if len(specs) != len(args):
            return _MISSING
        elems, batch = [], None
        for a, sp in zip(args, specs):
            e, b = strip(a, sp, eid)
            elems.append(e)
            if b is not None:
                if batch is not None and not same_size(batch.size, b.size):
                    env.err("vmap over axes of different size", T.mk("vmap_site", (site,)), f"{nf.show(batch.size)} vs {nf.show(b.size)}")
                batch = batch or b
        if batch is None:
            return _MISSING
        res = itp.call(w.fn, elems, kwargs, site)

        def wrap(leaf, path):
            if not isinstance(leaf, T.Term):
                return leaf
            o = T.mk("vmap_out", (eid, leaf), origin=site)
            t = env.of(leaf)
            if t is not None:
                k = out_axes if isinstance(out_axes, int) else 0
                k = k % (t.rank + 1)
                axes = list(t.axes)
                axes.insert(k, batch)
                env.declare(o, AT(axes, t.scalar, t.zero))
            return o

        return map_leaves(res, wrap)

    it.hooks["vmap.apply"] = hook


# ------------------------------------------------------------------ AD transformations (typed)
def install_ad(it, env: AEnv):
    """Typed semantics of jacfwd/jacrev application, func.linearize and func.vjp.

    J = d f(x)/dx has the axes of f(x) followed by the axes of x (units: out * in^-1);
    linearize gives (f(x), v |-> J v); vjp gives (f(x), w |-> (J^T w,)).
    """
    from .interp import _MISSING, HarnessFn, WrappedFn

    def jac_hook(itp, w, args, kwargs, site):
        return _MISSING

    orig_call_wrapped = it.call_wrapped

    def call_wrapped(w, args, kwargs, site):
        if w.kind == "jac" and len(args) == 1 and isinstance(args[0], T.Term):
            x = args[0]
            o = T.mk("jac_apply", (w, x), origin=site)
            tx = env.of(x)
            if tx is not None:
                try:
                    fx = itp_call(w.fn, [x], site)
                    tf = env.of(fx)
                    if tf is not None:
                        env.declare(o, AT((*tf.axes, *[ax.relabel(m_inv) for ax in tx.axes]), m_mul(tf.scalar, m_inv(tx.scalar))))
                except Exception:
                    pass
            return o
        return orig_call_wrapped(w, args, kwargs, site)

    def itp_call(f, args, site):
        return it.call(f, args, {}, site)

    it.call_wrapped = call_wrapped

    def linearize(itp, args, kwargs, site):
        f, x = args[0], args[1]
        fx = itp.call(f, [x], {}, site)
        tf, tx = env.of(fx), env.of(x) if isinstance(x, T.Term) else None
        base = T.mk("func.linearize", (f, x), origin=site)
        out0 = T.mk("getitem", (base, 0))
        if tf is not None:
            env.declare(out0, tf)

        def jvp(itp2, a, kw, site2):
            v = a[0]
            o = T.mk("jvp_apply", (base, v), origin=site2)
            tv = env.of(v)
            if tf is not None and tv is not None and tx is not None:
                if tv.rank != tx.rank or any(not same_size(p.size, q.size) for p, q in zip(tv.axes, tx.axes)):
                    env.err("JVP applied to a tangent whose shape differs from the primal's", o, f"{tv} vs {tx}")
                env.declare(o, tf)
            return o

        return out0, HarnessFn("jvp", jvp)

    def vjp(itp, args, kwargs, site):
        f, x = args[0], args[1]
        fx = itp.call(f, [x], {}, site)
        tf, tx = env.of(fx), env.of(x) if isinstance(x, T.Term) else None
        base = T.mk("func.vjp", (f, x), origin=site)
        out0 = T.mk("getitem", (base, 0))
        if tf is not None:
            env.declare(out0, tf)

        def pull(itp2, a, kw, site2):
            w_ = a[0]
            o = T.mk("vjp_apply", (base, w_), origin=site2)
            tw = env.of(w_)
            if tf is not None and tw is not None and tx is not None:
                if tw.rank != tf.rank or any(not same_size(p.size, q.size) for p, q in zip(tw.axes, tf.axes)):
                    env.err("VJP applied to a cotangent whose shape differs from the output's", o, f"{tw} vs {tf}")
                env.declare(o, tx)
            return (o,)

        return out0, HarnessFn("vjp", pull)

    it.hooks["func.linearize"] = linearize
    it.hooks["func.vjp"] = vjp
