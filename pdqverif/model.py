"""Program model of /repo/probdiffeq built from ``ast`` on every run.

Nothing from the repository is imported or executed.  The model gives:

* a module table (every ``*.py`` under the package is parsed; a file that does
  not parse ends the run with an analysis error),
* per module: top-level functions, classes, assignments and import bindings,
* per class: bases (as expressions, resolved lazily by the interpreter),
  methods, decorators, dataclass fields in declaration order,
* helpers to find functions / classes / nested functions by qualified name and
  to list all concrete subclasses of an interface (class-hierarchy analysis).
"""

from __future__ import annotations

import ast
import hashlib
import os

REPO = os.environ.get("PDQVERIF_REPO", "/repo")
PKG = "probdiffeq"


class AnalysisError(Exception):
    """The analysis could not be carried out (exit code 2, never a violation)."""


class ClassInfo:
    def __init__(self, module: "ModuleInfo", node: ast.ClassDef, outer=None):
        self.module = module
        self.node = node
        self.name = node.name
        self.qualname = f"{module.name}.{node.name}" if outer is None else f"{outer}.{node.name}"
        self.methods: dict[str, ast.FunctionDef] = {}
        self.method_kind: dict[str, str] = {}  # 'method'|'classmethod'|'staticmethod'|'property'
        self.class_assigns: dict[str, ast.expr] = {}
        self.fields: list[tuple[str, ast.expr | None, bool]] = []  # (name, default expr, static?)
        self.decorators = [ast.unparse(d) for d in node.decorator_list]
        self.is_dataclass = any("dataclass" in d for d in self.decorators)
        for st in node.body:
            if isinstance(st, ast.FunctionDef):
                self.methods[st.name] = st
                kind = "method"
                for d in st.decorator_list:
                    ds = ast.unparse(d)
                    if ds == "classmethod":
                        kind = "classmethod"
                    elif ds == "staticmethod":
                        kind = "staticmethod"
                    elif ds == "property":
                        kind = "property"
                self.method_kind[st.name] = kind
            elif isinstance(st, ast.AnnAssign) and isinstance(st.target, ast.Name):
                static = False
                if st.value is not None and "static" in ast.unparse(st.value):
                    static = True
                default = st.value
                if default is not None and "dataclass_field" in ast.unparse(default):
                    default = None
                self.fields.append((st.target.id, default, static))
            elif isinstance(st, ast.Assign):
                for t in st.targets:
                    if isinstance(t, ast.Name):
                        self.class_assigns[t.id] = st.value

    def __repr__(self):
        return f"<class {self.qualname}>"


class ModuleInfo:
    def __init__(self, name: str, path: str, source: str):
        self.name = name
        self.path = path
        self.source = source
        try:
            self.tree = ast.parse(source, filename=path)
        except SyntaxError as e:  # pragma: no cover
            raise AnalysisError(f"cannot parse {path}: {e}") from e
        self.functions: dict[str, ast.FunctionDef] = {}
        self.classes: dict[str, ClassInfo] = {}
        self.assigns: dict[str, ast.expr] = {}
        self.imports: dict[str, tuple] = {}  # local -> ('module', modname) | ('member', modname, attr)
        self.star_imports: list[str] = []
        self.all: list[str] | None = None
        for st in self.tree.body:
            self._visit_top(st)

    def _visit_top(self, st):
        if isinstance(st, ast.FunctionDef):
            self.functions[st.name] = st
        elif isinstance(st, ast.ClassDef):
            self.classes[st.name] = ClassInfo(self, st)
        elif isinstance(st, ast.Assign):
            for t in st.targets:
                if isinstance(t, ast.Name):
                    self.assigns[t.id] = st.value
                    if t.id == "__all__":
                        try:
                            self.all = list(ast.literal_eval(st.value))
                        except Exception:
                            self.all = None
        elif isinstance(st, ast.AnnAssign) and isinstance(st.target, ast.Name) and st.value is not None:
            self.assigns[st.target.id] = st.value
        elif isinstance(st, ast.Import):
            for a in st.names:
                local = a.asname or a.name.split(".")[0]
                target = a.name if a.asname else a.name.split(".")[0]
                self.imports[local] = ("module", target)
        elif isinstance(st, ast.ImportFrom):
            mod = st.module or ""
            for a in st.names:
                if a.name == "*":
                    self.star_imports.append(mod)
                else:
                    self.imports[a.asname or a.name] = ("member", mod, a.name)
        elif isinstance(st, ast.If):
            # ``if TYPE_CHECKING:`` blocks only hold imports used in annotations
            for s in st.body:
                if isinstance(s, (ast.Import, ast.ImportFrom)):
                    self._visit_top(s)

    @property
    def relpath(self):
        return os.path.relpath(self.path, REPO)


class Program:
    def __init__(self, repo: str | None = None, overrides: dict[str, str] | None = None):
        """Parse the package.  ``overrides`` maps relative paths to replacement
        source text (used only by the in-memory self-test mutants)."""
        self.repo = repo or REPO
        self.modules: dict[str, ModuleInfo] = {}
        self.digest = hashlib.sha256()
        root = os.path.join(self.repo, PKG)
        if not os.path.isdir(root):
            raise AnalysisError(f"package directory {root} not found")
        overrides = overrides or {}
        for dirpath, dirnames, filenames in sorted(os.walk(root)):
            dirnames.sort()
            if "__pycache__" in dirpath:
                continue
            for fn in sorted(filenames):
                if not fn.endswith(".py"):
                    continue
                path = os.path.join(dirpath, fn)
                rel = os.path.relpath(path, self.repo)
                if rel in overrides:
                    src = overrides[rel]
                else:
                    with open(path, encoding="utf-8") as fh:
                        src = fh.read()
                self.digest.update(rel.encode())
                self.digest.update(src.encode())
                modname = rel[:-3].replace(os.sep, ".")
                if modname.endswith(".__init__"):
                    modname = modname[: -len(".__init__")]
                self.modules[modname] = ModuleInfo(modname, path, src)
        if len(self.modules) < 30:
            raise AnalysisError(f"only {len(self.modules)} modules parsed under {root}; expected >= 30")

    # ----------------------------------------------------------------- lookup
    def module(self, name: str) -> ModuleInfo:
        m = self.modules.get(name)
        if m is None:
            raise AnalysisError(f"module {name} not found (anchor vanished)")
        return m

    def find_class(self, qual: str) -> ClassInfo:
        mod, _, cls = qual.rpartition(".")
        m = self.module(mod)
        c = m.classes.get(cls)
        if c is None:
            raise AnalysisError(f"class {qual} not found (anchor vanished)")
        return c

    def find_function(self, qual: str) -> ast.FunctionDef:
        """Find ``module.func``, ``module.Class.method`` or nested ``a.b.c``."""
        parts = qual.split(".")
        for i in range(len(parts) - 1, 0, -1):
            modname = ".".join(parts[:i])
            if modname in self.modules:
                node = self._descend(self.modules[modname].tree, parts[i:])
                if node is not None:
                    return node
        raise AnalysisError(f"function {qual} not found (anchor vanished)")

    @staticmethod
    def _descend(node, names):
        cur = node
        for nm in names:
            nxt = None
            for st in ast.walk(cur) if not isinstance(cur, ast.Module) else cur.body:
                if isinstance(st, (ast.FunctionDef, ast.ClassDef)) and st.name == nm and st is not cur:
                    nxt = st
                    break
            if nxt is None:
                return None
            cur = nxt
        return cur

    def all_classes(self):
        for m in self.modules.values():
            yield from m.classes.values()

    def base_names(self, c: ClassInfo) -> list[str]:
        """Resolve base-class expressions to qualified names where possible."""
        out = []
        for b in c.node.bases:
            # strip subscripts: Generic[T], MarkovStrategy[MarkovSequence]
            while isinstance(b, ast.Subscript):
                b = b.value
            q = self.resolve_expr_to_qual(c.module, b)
            if q:
                out.append(q)
        return out

    def resolve_expr_to_qual(self, m: ModuleInfo, e: ast.expr) -> str | None:
        if isinstance(e, ast.Name):
            if e.id in m.classes:
                return f"{m.name}.{e.id}"
            if e.id in m.functions:
                return f"{m.name}.{e.id}"
            imp = m.imports.get(e.id)
            if imp:
                if imp[0] == "module":
                    return imp[1]
                return f"{imp[1]}.{imp[2]}"
            return None
        if isinstance(e, ast.Attribute):
            base = self.resolve_expr_to_qual(m, e.value)
            if base:
                return f"{base}.{e.attr}"
        return None

    def subclasses(self, qual: str, strict=True) -> list[ClassInfo]:
        """All classes in the package that (transitively) derive from ``qual``."""
        out = []
        for c in self.all_classes():
            if c.qualname == qual and strict:
                continue
            if self._derives(c, qual, set()):
                out.append(c)
        return sorted(out, key=lambda c: c.qualname)

    def _derives(self, c: ClassInfo, qual: str, seen) -> bool:
        if c.qualname == qual:
            return True
        if c.qualname in seen:
            return False
        seen.add(c.qualname)
        for b in self.base_names(c):
            mod, _, cls = b.rpartition(".")
            bm = self.modules.get(mod)
            if bm and cls in bm.classes and self._derives(bm.classes[cls], qual, seen):
                return True
        return False

    def mro(self, c: ClassInfo) -> list[ClassInfo]:
        """Linearised ancestors (depth-first, left-to-right; the package has no diamonds)."""
        out, seen = [], set()

        def go(k):
            if k.qualname in seen:
                return
            seen.add(k.qualname)
            out.append(k)
            for b in self.base_names(k):
                mod, _, cls = b.rpartition(".")
                bm = self.modules.get(mod)
                if bm and cls in bm.classes:
                    go(bm.classes[cls])

        go(c)
        return out

    def find_method(self, c: ClassInfo, name: str):
        for k in self.mro(c):
            if name in k.methods:
                return k, k.methods[name]
        return None, None

    def is_abstract_stub(self, fn: ast.FunctionDef) -> bool:
        body = [s for s in fn.body if not (isinstance(s, ast.Expr) and isinstance(s.value, ast.Constant))]
        if not body:
            return True
        if len(body) == 1:
            s = body[0]
            if isinstance(s, ast.Raise) and s.exc is not None and "NotImplementedError" in ast.unparse(s.exc):
                return True
            if isinstance(s, ast.Pass):
                return True
        return False

    def stats(self) -> dict:
        nfun = ncls = 0
        for m in self.modules.values():
            for n in ast.walk(m.tree):
                if isinstance(n, (ast.FunctionDef, ast.Lambda)):
                    nfun += 1
                elif isinstance(n, ast.ClassDef):
                    ncls += 1
        return {
            "modules_parsed": len(self.modules),
            "functions_and_lambdas": nfun,
            "classes": ncls,
            "source_digest": self.digest.hexdigest()[:16],
        }


def loc(m: ModuleInfo | None, node) -> str:
    if m is None:
        return f"<unknown>:{getattr(node, 'lineno', '?')}"
    return f"{m.relpath}:{getattr(node, 'lineno', '?')}"
