"""Domain X: differentiation coverage of explicit time.

Every call of ``func.jet / func.jvp / func.linearize`` met during an abstract
run is recorded together with the callable and the primal / series / tangent
arguments.  For a recorded site the differentiated callable is evaluated on
fresh *probe* atoms (one per primal); every vector-field evaluation reachable
inside must take its ``t=`` argument from one of the probes (a differentiated
input), never from a closure variable, and at the site that primal must be the
caller's time paired with the unit series ``(1, 0, ..., 0)`` / unit tangent.
"""

from __future__ import annotations

from . import nf
from . import terms as T
from .interp import _MISSING, AnalysisError, RaiseSignal


def install(it):
    it.diff_events = []

    def mk(prim):
        def hook(itp, args, kwargs, site):
            fn = args[0]
            if prim == "func.jet":
                primals = args[1] if len(args) > 1 else kwargs.get("primals")
                series = args[2] if len(args) > 2 else kwargs.get("series")
                ev = {"prim": prim, "fn": fn, "primals": primals, "series": series, "site": site, "caller": itp.call_stack[-1] if itp.call_stack else "<top>", "is_tcoeff": kwargs.get("is_tcoeff", False)}
            elif prim == "func.jvp":
                primals = args[1] if len(args) > 1 else kwargs.get("primals")
                tangents = args[2] if len(args) > 2 else kwargs.get("tangents")
                ev = {"prim": prim, "fn": fn, "primals": primals, "series": tangents, "site": site, "caller": itp.call_stack[-1] if itp.call_stack else "<top>"}
            else:
                ev = {"prim": prim, "fn": fn, "primals": list(args[1:]), "series": None, "site": site, "caller": itp.call_stack[-1] if itp.call_stack else "<top>"}
            itp.diff_events.append(ev)
            return _MISSING

        return hook

    for p in ("func.jet", "func.jvp", "func.linearize"):
        it.hooks[p] = mk(p)


def is_unit_series(s) -> bool:
    """(1, 0, ..., 0) as a static list, or a unit tangent."""
    if isinstance(s, (list, tuple)):
        if not s:
            return False
        first, rest = s[0], s[1:]
        return _is_one(first) and all(_is_zero(x) for x in rest)
    return _is_one(s)


def _is_one(x):
    if isinstance(x, (int, float)) and not isinstance(x, bool):
        return x == 1
    return isinstance(x, T.Term) and x.op == "np.ones_like"


def _is_zero(x):
    if isinstance(x, (int, float)) and not isinstance(x, bool):
        return x == 0
    return isinstance(x, T.Term) and x.op == "np.zeros_like"


def vf_calls(value, is_vf_call):
    # evaluations the value is computed with: a call that only lends its shape or dtype (eval_shape, the metadata of an unravel closure) evaluates nothing
    return [t for t in T.value_subterms(value) if is_vf_call(t)]


def check_event(it, ev, is_vf_call, time_atom, depth=0, sites=None):
    """Returns list of (ok, construct, detail) for one differentiation site (recursing into nested sites)."""
    out = []
    if sites is not None:
        sites.add((ev["caller"].rsplit(".", 1)[-1], ev["prim"], ev["site"]))
    if ev["prim"] == "func.jet":
        # every jet site that is examined (also the nested ones) is remembered with its convention
        if not hasattr(it, "jet_conventions"):
            it.jet_conventions = []
        it.jet_conventions.append({"caller": ev["caller"], "site": ev["site"], "is_tcoeff": ev.get("is_tcoeff", False)})
    primals = ev["primals"]
    if not isinstance(primals, (list, tuple)):
        return [(None, f"{ev['caller']} {ev['prim']}", f"primals are not a static sequence: {T.show(primals, 2)}")]
    probes = [T.atom(f"probe{depth}.{i}") for i in range(len(primals))]
    n_before = len(it.diff_events)
    try:
        val = it.call(ev["fn"], probes, {}, ev["site"])
    except (AnalysisError, RaiseSignal) as e:
        return [(None, f"{ev['caller']} {ev['prim']}", f"cannot evaluate the differentiated callable on probes: {e}")]
    nested = it.diff_events[n_before:]
    del it.diff_events[n_before:]
    calls = vf_calls(val, is_vf_call)
    name = f"{ev['caller']} {ev['prim']}"
    for c in calls:
        tt = c.kwargs.get("t")
        k = next((i for i, p in enumerate(probes) if p is tt), None)
        if k is None:
            src = sorted(T.atoms_of(tt)) if tt is not None else []
            out.append((False, name, f"vector field evaluated at t={T.show(tt, 3)} inside the differentiated callable: not one of its differentiated inputs (depends on {src}); explicit time is treated as a constant"))
            continue
        if ev["prim"] == "func.linearize":
            continue
        ser = ev["series"]
        ok_primal = primals[k] is time_atom or (isinstance(primals[k], T.Term) and primals[k].op.startswith("atom") and T.atom_name(primals[k]).startswith("probe"))
        ok_series = isinstance(ser, (list, tuple)) and len(ser) == len(primals) and is_unit_series(ser[k])
        out.append((bool(ok_primal and ok_series), name, f"time is primal #{k} = {T.show(primals[k], 2)} with series/tangent {T.show(ser[k] if isinstance(ser, (list, tuple)) and len(ser) > k else ser, 2)}"))
        # the state arguments must not be the time probe
        jc = c.kwargs.get("jet_coords")
        if any(p is probes[k] for p in T.subterms(jc)):
            out.append((False, name, "the time input is also used as a state coordinate"))
    if not calls and not nested:
        out.append((None, name, "no vector-field evaluation found inside the differentiated callable"))
    for ne in nested:
        # nested sites see the outer probes as their 'time': accept any probe as time atom
        sub = check_event(it, ne, is_vf_call, time_atom, depth + 1, sites)
        out.extend(sub)
    return out
