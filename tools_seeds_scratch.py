"""Re-run the check of its own property against every stored seeded change (seeded/<id>/patch.diff) on scratch copies, in parallel.

A fast cross-check after the tree has moved on (later fix: commits): each patch is applied to a copy of /repo's package outside /repo and /verif,
the check of the seed's property runs with PDQVERIF_REPO pointing at the copy, and the copy is removed.  Nothing is written to the seed's
meta.json (that record comes from `tools_seeds.py run`, which applies the patch to /repo itself).  usage: tools_seeds_scratch.py [ids...]
"""
import json, os, shutil, subprocess, sys, tempfile
from concurrent.futures import ThreadPoolExecutor

VERIF = os.path.dirname(os.path.abspath(__file__))
PY = "/venv/bin/python"
REPO = os.environ.get("PDQVERIF_REPO", "/repo")


def sh(cmd, cwd=None, env=None):
    r = subprocess.run(cmd, shell=True, cwd=cwd, env=env, capture_output=True, text=True)
    return r.returncode, r.stdout + r.stderr


def one(sid):
    d = os.path.join(VERIF, "seeded", sid)
    prop = json.load(open(os.path.join(d, "meta.json")))["property"]
    tmp = tempfile.mkdtemp(prefix="pdq_seed_")
    ev = tempfile.mkdtemp(prefix="pdq_ev_")
    try:
        shutil.copytree(os.path.join(REPO, "probdiffeq"), os.path.join(tmp, "probdiffeq"))
        rc, out = sh(f"patch -p1 -s -F3 < {d}/patch.diff", cwd=tmp)
        if rc != 0:
            return sid, prop, "patch does not apply: " + out[-200:]
        env = dict(os.environ, PDQVERIF_REPO=tmp, PDQVERIF_EVIDENCE_DIR=ev)
        rc, out = sh(f"{PY} -m pdqverif check {prop} --tier quick", cwd=VERIF, env=env)
        first = next((l[:200] for l in out.splitlines() if l.startswith(("REFUTED", "ANALYSIS-ERROR"))), "")
        return sid, prop, (rc, first)
    finally:
        shutil.rmtree(tmp, ignore_errors=True)
        shutil.rmtree(ev, ignore_errors=True)


if __name__ == "__main__":
    ids = sys.argv[1:] or sorted(x for x in os.listdir(os.path.join(VERIF, "seeded")) if x != "benign")
    with ThreadPoolExecutor(int(os.environ.get("JOBS", "12"))) as ex:
        res = list(ex.map(one, ids))
    bad = 0
    for sid, prop, r in res:
        ok = isinstance(r, tuple) and r[0] != 0
        bad += not ok
        print(sid, prop, "->", ("reported, exit %d: %s" % r) if ok else ("NOT REPORTED: %r" % (r,)))
    print("summary:", len(res) - bad, "reported by the check of their property, of", len(res))
    sys.exit(1 if bad else 0)
