"""Re-run every quick check against the stored behaviour-preserving refactorings (seeded/benign/*/patch.diff).

Each patch is applied (with fuzz, the tree has moved on since they were written) to a scratch copy of /repo's package outside /repo and /verif,
all checks run with PDQVERIF_REPO pointing at the copy, and the copy is removed.  usage: tools_refactors_rerun.py [ids...]
"""
import glob, json, os, shutil, subprocess, sys, tempfile
from concurrent.futures import ThreadPoolExecutor
VERIF = os.path.dirname(os.path.abspath(__file__))
PY = "/venv/bin/python"
REPO = os.environ.get("PDQVERIF_REPO", "/repo")
man = json.load(open(os.path.join(VERIF, "MANIFEST.json")))
checks = [c["property_id"] for c in man["checks"]]


def sh(cmd, cwd=None, env=None):
    r = subprocess.run(cmd, shell=True, cwd=cwd, env=env, capture_output=True, text=True)
    return r.returncode, r.stdout + r.stderr


def one(d):
    rid = os.path.basename(d)
    tmp = tempfile.mkdtemp(prefix="pdq_ref_")
    try:
        shutil.copytree(os.path.join(REPO, "probdiffeq"), os.path.join(tmp, "probdiffeq"))
        rc, out = sh(f"patch -p1 -s -F3 < {d}/patch.diff", cwd=tmp)
        if rc != 0:
            return rid, {"error": "patch does not apply to the current tree: " + out[-200:]}
        ev = tempfile.mkdtemp(prefix="pdq_ev_")
        env = dict(os.environ, PDQVERIF_REPO=tmp, PDQVERIF_EVIDENCE_DIR=ev)
        alarms = {}
        for p in checks:
            rc, out = sh(f"{PY} -m pdqverif check {p} --tier quick", cwd=VERIF, env=env)
            if rc != 0:
                alarms[p] = [l[:300] for l in out.splitlines() if l.startswith(("REFUTED", "ANALYSIS-ERROR", "INCONCLUSIVE"))][:3] or [out[-300:]]
        shutil.rmtree(ev, ignore_errors=True)
        return rid, alarms
    finally:
        shutil.rmtree(tmp, ignore_errors=True)


if __name__ == "__main__":
    ds = sorted(glob.glob(os.path.join(VERIF, "seeded", "benign", "*")))
    if sys.argv[1:]:
        ds = [d for d in ds if os.path.basename(d) in sys.argv[1:]]
    with ThreadPoolExecutor(6) as ex:
        res = dict(ex.map(one, ds))
    for rid, alarms in res.items():
        print(rid, "->", "silent" if not alarms else json.dumps(alarms, indent=1))
        f = os.path.join(VERIF, "seeded", "benign", rid, "meta.json")
        m = json.load(open(f))
        m["alarms"] = alarms
        json.dump(m, open(f, "w"), indent=1)
    print("summary:", sum(1 for v in res.values() if not v), "silent of", len(res))
