"""Refresh the generated tables of DESIGN.md (self-test numbers, seeded changes)."""
import glob, json, os, re, subprocess, sys
sys.path.insert(0, os.path.dirname(os.path.abspath(__file__)))
V = os.path.dirname(os.path.abspath(__file__))

def selftest_table():
    from pdqverif import selftest
    rows = []
    for f in sorted(glob.glob(os.path.join(V, "pdqverif/mutants/c*.py"))):
        pid = os.path.basename(f)[:-3].upper()
        r = selftest.run_for(pid)
        import importlib
        mod = importlib.import_module(f"pdqverif.mutants.{pid.lower()}")
        nb = sum(1 for v in mod.VARIANTS if v["kind"] == "break")
        ng = sum(1 for v in mod.VARIANTS if v["kind"] == "benign")
        rows.append(f"| {pid} | {r['variants']} | {r['detected']}/{nb} | {r['silent_ok']}/{ng} |" + (f" missed: {[m['id'] for m in r['missed']]}" if r["missed"] else "") + (f" false alarms: {[m['id'] for m in r['false_alarms']]}" if r["false_alarms"] else ""))
    return "\n".join(rows)

def seeds_table():
    rows = ["| seed | property | what the change does (agent's notes, abridged) | detected by | first report |", "|---|---|---|---|---|"]
    for d in sorted(glob.glob(os.path.join(V, "seeded/*/meta.json"))):
        m = json.load(open(d))
        sid = os.path.basename(os.path.dirname(d))
        res = m.get("checks_result")
        note = m.get("summary")
        if not note:
            lines = [l.strip() for l in m.get("needs_to_manifest", "").splitlines() if l.strip()]
            head = lines[0].lstrip("# ").strip() if lines else ""
            # drop a leading "Cxx / seed k --" label
            head = re.sub(r"^(Seed|seed|C\d\d)[^a-zA-Z`]*(seed\s*\d+)?\s*[-:—–]*\s*", "", head)
            if len(head) < 25 and len(lines) > 1:
                head = (head + " " + lines[1].lstrip("# ")).strip()
            note = re.sub(r"\s+", " ", head)[:170].replace("|", "/")
        if res is None:
            det, first = "(not run yet)", ""
        elif not res:
            det, first = "**MISSED**", m.get("missed_note", "")
        else:
            det = ", ".join(f"{k} (exit {v['exit']})" for k, v in res.items())
            k0 = sorted(res)[0]
            first = (res[k0]["first"][0] if res[k0]["first"] else "")[:170].replace("|", "/")
        hist = m.get("history", "")
        rows.append(f"| {sid} | {m['property']} | {note} | {det}{(' -- ' + hist) if hist else ''} | {first} |")
    return "\n".join(rows)

def rules_table():
    """Inventory of the rules each check evaluated in its last run on /repo (from the committed evidence files)."""
    rows = ["| rule | obligations (discharged / known / floor) | what it decides |", "|---|---|---|"]
    known = {}
    for k in json.load(open(os.path.join(V, "known_findings.json")))["findings"]:
        if k["status"] == "known":
            known[(k["property"], k["rule"])] = known.get((k["property"], k["rule"]), 0) + 1
    for f in sorted(glob.glob(os.path.join(V, "evidence/C*.json"))):
        e = json.load(open(f))
        pid = e["property_id"]
        for rid, r in e["coverage"]["rules"].items():
            kn = known.get((pid, rid), 0)
            rows.append(f"| {rid} | {r['instances']} ({r['discharged']} / {kn} / {r['floor']}) | {r['text'].replace('|', '/')} |")
    return "\n".join(rows)


def put(s, name, body):
    a, b = f"<!-- BEGIN {name} -->", f"<!-- END {name} -->"
    if a in s:
        return s[: s.index(a)] + a + "\n" + body + "\n" + b + s[s.index(b) + len(b):]
    return s.replace(name, a + "\n" + body + "\n" + b)

p = os.path.join(V, "DESIGN.md")
s = open(p).read()
if "--no-selftest" not in sys.argv:
    s = put(s, "SELFTEST_TABLE", selftest_table())
s = put(s, "SEEDS_TABLE", seeds_table())
if "RULES_TABLE" in s:
    s = put(s, "RULES_TABLE", rules_table())
open(p, "w").write(s)
print("DESIGN.md tables refreshed")
