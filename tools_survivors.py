"""Audit aid: generic break-mutants of the anchored files that NO check reports (candidates for missing rules).

usage: tools_survivors.py [file ...]      -> /tmp/scratch/survivors.json and a listing
Each mutant is analysed in memory by every check whose property is anchored in the mutated file.  Survivors are read by hand:
most are equivalent or irrelevant to the properties; the rest pointed at missing rules.  Decides nothing.
"""
import ast, json, os, sys
from concurrent.futures import ProcessPoolExecutor

sys.setrecursionlimit(20000)
VERIF = os.path.dirname(os.path.abspath(__file__))
sys.path.insert(0, VERIF)
from pdqverif import automutate as am  # noqa: E402
from pdqverif.model import REPO, Program  # noqa: E402

PROPS = {json.loads(l)["id"]: json.loads(l) for l in open(os.path.join(VERIF, "properties.jsonl"))}
CLAIMED = [c["property_id"] for c in json.load(open(os.path.join(VERIF, "MANIFEST.json")))["checks"]]


def checks_for(rel):
    return [p for p in CLAIMED if rel in PROPS[p]["anchors"]["files"]]


_BASE = {}


def baseline(pid):
    """Refuted obligations of the unchanged tree (the known findings): never counted as a report of a mutant."""
    if pid not in _BASE:
        from pdqverif.__main__ import run_check

        _, chk = run_check(pid, "quick", 0, program=Program(), write=False)
        _BASE[pid] = {f"{o.rule}:{o.construct}" for r in chk.rules for o in r.obls if o.status == "refuted"}
    return _BASE[pid]


def one(args):
    rel, src, site, pids = args
    from pdqverif.__main__ import run_check

    try:
        prog = Program(overrides={rel: src})
    except Exception as e:  # noqa: BLE001
        return {"site": site, "file": rel, "skip": str(e)}
    hit = {}
    # checks anchored in the mutated file first, then every other check
    for pid in pids + [p for p in CLAIMED if p not in pids]:
        _, chk = run_check(pid, "quick", 0, program=prog, write=False)
        ref = [x for x in (f"{o.rule}:{o.construct}" for r in chk.rules for o in r.obls if o.status == "refuted") if x not in baseline(pid)]
        if ref or chk.errors:
            hit[pid] = (ref[:1] or chk.errors[:1])
            break
    return {"site": site, "file": rel, "hit": hit}


def main(files):
    files = files or sorted({f for p in CLAIMED for f in PROPS[p]["anchors"]["files"] if f.startswith("probdiffeq/") and "backend" not in f})
    jobs = []
    base = {}
    for rel in files:
        src = open(os.path.join(REPO, rel)).read()
        tree = ast.parse(src)
        pids = checks_for(rel)
        for s in am.sites(tree):
            if s[1] != "break":
                continue
            new = am.apply(tree, s)
            if new is not None:
                line = getattr(list(ast.walk(tree))[s[2]], "lineno", 0)
                jobs.append((rel, new, (s[0], line), pids))
    print(f"{len(jobs)} break mutants over {len(files)} files", flush=True)
    with ProcessPoolExecutor(max_workers=int(os.environ.get("JOBS", "6"))) as ex:
        res = list(ex.map(one, jobs, chunksize=4))
    surv = [r for r in res if not r.get("hit") and "skip" not in r]
    os.makedirs("/tmp/scratch", exist_ok=True)
    json.dump({"mutants": len(res), "survivors": surv}, open("/tmp/scratch/survivors.json", "w"), indent=1)
    print(f"reported by some check: {len(res) - len(surv)} / {len(res)}")
    lines = {}
    for r in surv:
        lines.setdefault(r["file"], open(os.path.join(REPO, r["file"])).read().splitlines())
    for r in sorted(surv, key=lambda r: (r["file"], r["site"][1])):
        print(f"{r['file'].split('/')[-1]}:{r['site'][1]} {r['site'][0]:>16} | {lines[r['file']][r['site'][1] - 1].strip()[:110]}")


if __name__ == "__main__":
    main(sys.argv[1:])
